#!/bin/sh
# offline setup: nothing to build ahead of time; verify the tools the checks need are present
set -e
cd "$(dirname "$0")"
for t in python3-vt clang++ g++ z3 cvc5 cbmc goto-cc goto-instrument; do command -v $t >/dev/null || { echo "missing tool $t"; exit 1; }; done
python3-vt -c "import z3, jsonschema; print('z3', z3.get_version_string())"
mkdir -p evidence replays
echo setup ok
