"""Interrupt handling (C14): the SIGINT handler (U28) and how main() installs it.

* `Display::SIGINT_handler` is verified by the VCG: it writes Display::abort = true and nothing else.
* the installation is a contract over facts of main()'s AST: SIGINT is bound to that handler by a call that keeps
  it installed (ISO `signal` on glibc/BSD semantics, or `sigaction` whose flags do not contain SA_RESETHAND), it is
  installed before the simulation loop, and nothing in main re-binds SIGINT or restores the default action.
  A second interrupt therefore finds the same handler (idempotent), as C14's "at any moment" requires."""
import z3
from .common import *
from vf.ast import params, body, line_of
from vf.vcg import Exec
from vf.state import State, Obligation
from vf.unit import _walk

ABORT = 'vfps::Display::abort'
SA_RESETHAND = 0x80000000
SIGINT = 2


class SigintHandler(Contract):
    name = 'vfps::Display::SIGINT_handler'
    tu = 'src/IO/Display.cpp'
    params = ['sig']
    tags = {'C14'}
    replay = lambda self, o, model, pid: {'driver': 'main', 'scenarios': ['interrupt']}
    plain_abort = True

    def assigns(self, cx):
        return [('s', ABORT)]

    def ensures(self, cx):
        return [('sets_abort', {'C14'}, cx.f(ABORT, 'bool') != 0)]


def _callee_name(call):
    c = call['inner'][0]
    while c.get('kind') in ('ImplicitCastExpr', 'ParenExpr'):
        c = c['inner'][0]
    return (c.get('referencedDecl') or {}).get('name') or c.get('name')


def _int_const(n):
    """value of an integer constant expression made of literals, |, casts (macro expansions of SA_* / SIG*)"""
    k = n.get('kind')
    if k == 'IntegerLiteral':
        return int(n['value'])
    if k in ('ImplicitCastExpr', 'ParenExpr', 'CStyleCastExpr', 'ConstantExpr', 'CXXStaticCastExpr', 'CXXFunctionalCastExpr'):
        return _int_const(n['inner'][-1])
    if k == 'BinaryOperator' and n.get('opcode') in ('|', '+'):
        a, b = _int_const(n['inner'][0]), _int_const(n['inner'][1])
        return None if a is None or b is None else (a | b if n['opcode'] == '|' else a + b)
    if k == 'UnaryOperator' and n.get('opcode') == '-':
        v = _int_const(n['inner'][0])
        return None if v is None else -v
    return None


class SignalSetup(Contract):
    name = 'main'
    tu = 'src/main.cpp'
    tu_filter = 'main'
    tags = {'C14'}
    replay = lambda self, o, model, pid: {'driver': 'main', 'scenarios': ['interrupt']}

    def custom_verify(self, scratch, tc):
        tu = tc.get(self.tu, self.tu_filter)
        fn = tu.function('main')
        ex = Exec(tu, fn, 'main')
        ex.default_tags = {'C14'}
        stmts = body(fn).get('inner', [])
        loop_idx = None
        for i, s_ in enumerate(stmts):
            if s_.get('kind') == 'WhileStmt' and any(x.get('kind') == 'MemberExpr' and x.get('name') == 'abort' or
                                                     (x.get('kind') == 'DeclRefExpr' and (x.get('referencedDecl') or {}).get('name') == 'abort') for x in _walk(s_['inner'][0])):
                loop_idx = i
        if loop_idx is None:
            raise ExtractionError('main: simulation loop (while ... !Display::abort) not found')
        localdecls = {x['id']: x for s_ in stmts for x in _walk(s_) if x.get('kind') == 'VarDecl' and x.get('id')}
        installs = []       # (statement index, api, handler name, flags or None)
        flag_stores = []    # constant values stored into some .sa_flags
        handler_stores = [] # names stored into .sa_handler
        for i, s_ in enumerate(stmts):
            for n in _walk(s_):
                if n.get('kind') == 'CallExpr' and _callee_name(n) in ('signal', 'sigaction', 'bsd_signal', 'sysv_signal'):
                    api = _callee_name(n)
                    args = n['inner'][1:]
                    signo = _int_const(args[0]) if args else None
                    hname = None
                    if api != 'sigaction' and len(args) > 1:
                        refs = [x.get('referencedDecl') or {} for x in _walk(args[1]) if x.get('kind') == 'DeclRefExpr']
                        hs = []
                        for rd in refs:
                            if rd.get('kind') == 'VarDecl' and rd.get('id') in localdecls:
                                # handler passed through a local: follow its initialiser, provided the local cannot be re-bound
                                vd = localdecls[rd['id']]
                                if 'const' not in vd.get('type', {}).get('qualType', ''):
                                    raise ExtractionError(f'main: signal handler passed through the non-const local {vd.get("name")}')
                                hs += [(y.get('referencedDecl') or {}).get('name') for y in _walk(vd) if y.get('kind') == 'DeclRefExpr']
                            else:
                                hs.append(rd.get('name'))
                        hname = hs[0] if hs else (_int_const(args[1]) if _int_const(args[1]) is not None else '?')
                    installs.append((i, api, signo, hname))
                if n.get('kind') == 'BinaryOperator' and n.get('opcode') in ('=', '|='):
                    lhs = n['inner'][0]
                    mem = [x.get('name') for x in _walk(lhs) if x.get('kind') == 'MemberExpr']
                    if mem and mem[0] == 'sa_flags':
                        flag_stores.append((n.get('opcode'), _int_const(n['inner'][1])))
                    if mem and mem[0] in ('sa_handler', '__sigaction_handler', 'sa_sigaction'):
                        hs = [(x.get('referencedDecl') or {}).get('name') for x in _walk(n['inner'][1]) if x.get('kind') == 'DeclRefExpr']
                        handler_stores.append(hs[0] if hs else '?')
        sigint = [t for t in installs if t[2] == SIGINT or t[2] is None]
        obls = []

        def ob(label, ok, note):
            o = Obligation(f'main#signal.{label}', {'C14'}, [], z3.BoolVal(bool(ok)), 'postcondition', None, note)
            obls.append(o)
        ob('installed_once', len(sigint) == 1, f'exactly one call binds SIGINT in main (found {[(t[1], t[3]) for t in sigint]})')
        if len(sigint) == 1:
            i, api, signo, hname = sigint[0]
            ob('installed_before_loop', i < loop_idx, 'the handler is installed before the simulation loop starts')
            if api == 'sigaction':
                ob('handler_is_SIGINT_handler', handler_stores == ['SIGINT_handler'], f'sa_handler is Display::SIGINT_handler (found {handler_stores})')
                vals = [v for _, v in flag_stores]
                known = all(v is not None for v in vals)
                ob('flags_known', known, 'sa_flags is a constant expression (or left zero-initialised)')
                flags = 0
                for _, v in flag_stores:
                    flags |= (v or 0)
                ob('handler_stays_installed', known and (flags & SA_RESETHAND) == 0, f'sa_flags={hex(flags)} must not contain SA_RESETHAND: a second interrupt must find the handler still installed')
            else:
                ob('handler_is_SIGINT_handler', hname == 'SIGINT_handler', f'SIGINT is bound to Display::SIGINT_handler (found {hname})')
                ob('handler_stays_installed', api in ('signal', 'bsd_signal'), f'{api}: BSD semantics on glibc (handler stays installed, system calls restarted); sysv_signal would reset it')
        # a request recorded by the handler is never taken back: main may raise the flag itself (e.g. when the results file
        # cannot be created) but every store into Display::abort writes the constant true.  Anything else can overwrite an
        # interrupt that arrived earlier (the signal can arrive between any two statements after the installation)
        stores = []
        for s_ in stmts:
            for n in _walk(s_):
                if n.get('kind') in ('BinaryOperator', 'CompoundAssignOperator') and (n.get('opcode') or '').endswith('=') and n.get('opcode') not in ('==', '!=', '<=', '>='):
                    lhs = n['inner'][0]
                    while lhs.get('kind') in ('ParenExpr', 'ImplicitCastExpr'):
                        lhs = lhs['inner'][0]
                    nm = lhs.get('name') if lhs.get('kind') == 'MemberExpr' else (lhs.get('referencedDecl') or {}).get('name')
                    if nm != 'abort':
                        continue
                    r = n['inner'][1]
                    while r.get('kind') in ('ParenExpr', 'ImplicitCastExpr'):
                        r = r['inner'][0]
                    stores.append((line_of(n), n.get('opcode') == '=' and r.get('kind') == 'CXXBoolLiteralExpr' and r.get('value') is True))
                if n.get('kind') == 'CXXOperatorCallExpr' and len(n.get('inner', [])) == 3 and \
                        any((y.get('referencedDecl') or {}).get('name') in ('operator=', 'operator|=', 'operator&=', 'operator^=') for y in _walk(n['inner'][0])):
                    # the flag as a class type (std::atomic<bool>): assignment through operator=
                    lhs = n['inner'][1]
                    while lhs.get('kind') in ('ParenExpr', 'ImplicitCastExpr'):
                        lhs = lhs['inner'][0]
                    nm = lhs.get('name') if lhs.get('kind') == 'MemberExpr' else (lhs.get('referencedDecl') or {}).get('name')
                    if nm == 'abort':
                        r = n['inner'][2]
                        while r.get('kind') in ('ParenExpr', 'ImplicitCastExpr'):
                            r = r['inner'][0]
                        isassign = any((y.get('referencedDecl') or {}).get('name') == 'operator=' for y in _walk(n['inner'][0]))
                        stores.append((line_of(n), isassign and r.get('kind') == 'CXXBoolLiteralExpr' and r.get('value') is True))
                if n.get('kind') == 'CXXMemberCallExpr' and any(x.get('kind') == 'MemberExpr' and x.get('name') in ('store', 'exchange', 'compare_exchange_strong', 'compare_exchange_weak', 'fetch_and', 'fetch_xor') for x in n['inner'][:1]) \
                        and any((x.get('referencedDecl') or {}).get('name') == 'abort' or x.get('name') == 'abort' for x in _walk(n['inner'][0])):
                    a0 = n['inner'][1] if len(n['inner']) > 1 else {}
                    while a0.get('kind') in ('ParenExpr', 'ImplicitCastExpr'):
                        a0 = a0['inner'][0]
                    mname = [x.get('name') for x in n['inner'][:1] if x.get('kind') == 'MemberExpr'][0]
                    stores.append((line_of(n), mname in ('store', 'exchange') and a0.get('kind') == 'CXXBoolLiteralExpr' and a0.get('value') is True))
                if n.get('kind') == 'UnaryOperator' and n.get('opcode') in ('++', '--') and any((x.get('referencedDecl') or {}).get('name') == 'abort' or x.get('name') == 'abort' for x in _walk(n)):
                    stores.append((line_of(n), False))
        ob('request_never_cleared', all(ok_ for _, ok_ in stores), f'every store into Display::abort in main writes the constant true (stores at lines {[l for l, _ in stores]}, not constant-true: {[l for l, k_ in stores if not k_]})')
        # ... and it is not CONSUMED before the simulation loop: between the installation and the loop nothing in main reads the
        # flag (a read there can only serve to leave early -- an interrupt during set-up would then end the run without the final
        # record and without "Aborted."); the loop condition and what follows the loop are the control skeleton's (MainLoop)
        early_reads = []
        for i_, s_ in enumerate(stmts[:loop_idx]):
            stored_here = set()
            for n in _walk(s_):
                if n.get('kind') in ('BinaryOperator', 'CompoundAssignOperator') and n.get('opcode') == '=':
                    lhs = n['inner'][0]
                    while lhs.get('kind') in ('ParenExpr', 'ImplicitCastExpr'):
                        lhs = lhs['inner'][0]
                    stored_here.add(id(lhs))
            for n in _walk(s_):
                isflag = (n.get('kind') == 'MemberExpr' and n.get('name') == 'abort') or (n.get('kind') == 'DeclRefExpr' and (n.get('referencedDecl') or {}).get('name') == 'abort')
                if isflag and id(n) not in stored_here:
                    early_reads.append(line_of(n) or line_of(s_))
        ob('request_not_consumed_before_the_loop', not early_reads, f'reads of Display::abort in main before the simulation loop: lines {early_reads}')
        ex.obls = obls + [Obligation('main#signal.canary', set(), [], z3.BoolVal(False), 'canary', None, '')]
        info = {'unit': 'main (signal installation)', 'file': self.tu, 'sha': tu.sha, 'cases': 1, 'lines': [line_of(stmts[sigint[0][0]]) if sigint else None] * 2,
                'extract_s': 0, 'facts': {'installs': [list(map(str, t)) for t in installs], 'sa_flags': [str(v) for v in flag_stores], 'sa_handler': handler_stores}}
        return [ex], info
