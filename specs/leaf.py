"""Bit-precise leaf units for CBMC (contracts as C strings; enforced with goto-instrument --dfcc)."""
from vf.cbmc import Leaf


class UpperPow2Leaf(Leaf):
    name = 'vfps::upper_power_of_two'
    tu = 'src/HelperFunctions.cpp'
    cname = 'upper_power_of_two'
    tags = {'C17'}
    requires = ['v >= 1 && v <= 0x8000000000000000ul']
    ensures = [('ge', {'C17'}, '__CPROVER_return_value >= v'),
               ('pow2', {'C17'}, '(__CPROVER_return_value & (__CPROVER_return_value - 1)) == 0'),
               ('tight', {'C17'}, '__CPROVER_return_value / 2 < v')]
    assigns = ''
    safety_tags_all = True


class FPApplyToLeaf(Leaf):
    """every tracked coordinate stays on the grid for all four tracking models and every IEEE input,
    including NaN produced by 0/0 in the charge-weighted model and arbitrary random draws"""
    name = 'vfps::FokkerPlanckMap::applyTo'
    tu = 'src/SM/FokkerPlanckMap.cpp'
    cname = 'fp_applyTo'
    tags = {'C15', 'C17'}
    unwind = 6
    timeout = 900
    NY = 'self->_ysize'
    requires = ['__CPROVER_is_fresh(self, sizeof(*self))', '__CPROVER_is_fresh(pos, sizeof(*pos))',
                'self->_ysize >= 4 && self->_ysize <= 64', 'self->_ip == 3 || self->_ip == 4',
                'self->_in_nmeshcells == self->_ysize',
                '__CPROVER_is_fresh(self->_hinfo, sizeof(hi) * 64 * 4)',
                '__CPROVER_is_fresh(self->_in_data, sizeof(float) * 64 * 64)',
                '__CPROVER_forall { unsigned k; (k < 256) ==> self->_hinfo[k].index < self->_ysize }',
                'self->_fptrack <= 3',
                'pos->x >= 0.0f && pos->x <= (float)(self->_ysize - 1)', 'pos->y >= 0.0f && pos->y <= (float)(self->_ysize - 1)',
                'self->_dampdecr > 0.0f && self->_dampdecr < 1.0f',
                'self->_axis1_zerobin >= 0.0f && self->_axis1_zerobin <= (float)(self->_ysize - 1)']
    ensures = [('ongrid', {'C15', 'C17'}, 'pos->y >= 0.0f && pos->y <= (float)(self->_ysize - 1)'),
               ('x_untouched', {'C15'}, 'pos->x == __CPROVER_old(pos->x)')]
    assigns = 'pos->y'
    safety_tags_all = True


class KickApplyToLeaf(Leaf):
    """KickMap::applyTo for every IEEE position on the grid and every offset (NaN, inf included):
    the kicked coordinate ends in [1, kd-1], the other one is untouched, all conversions are defined"""
    name = 'vfps::KickMap::applyTo'
    tu = 'src/SM/KickMap.cpp'
    cname = 'kick_applyTo'
    tags = {'C15', 'C17'}
    timeout = 1500
    requires = ['__CPROVER_is_fresh(self, sizeof(*self))', '__CPROVER_is_fresh(pos, sizeof(*pos))',
                'self->_meshsize_kd >= 2 && self->_meshsize_kd <= 64 && self->_meshsize_pd == self->_meshsize_kd',
                '__CPROVER_is_fresh(self->_offset, sizeof(float) * 64)', 'self->_offset_size == self->_meshsize_pd',
                'self->_kickdirection <= 1',
                'pos->x >= 0.0f && pos->x <= (float)(self->_meshsize_kd - 1)', 'pos->y >= 0.0f && pos->y <= (float)(self->_meshsize_kd - 1)']
    ensures = [('ongrid', {'C15', 'C17'}, 'pos->x >= 0.0f && pos->x <= (float)(self->_meshsize_kd - 1) && pos->y >= 0.0f && pos->y <= (float)(self->_meshsize_kd - 1)'),
               ('kicked_in_1_kd1', {'C15'}, '(self->_kickdirection == 0) ? (pos->x >= 1.0f && pos->x <= (float)(self->_meshsize_kd - 1) && pos->y == __CPROVER_old(pos->y)) '
                                           ': (pos->y >= 1.0f && pos->y <= (float)(self->_meshsize_kd - 1) && pos->x == __CPROVER_old(pos->x))')]
    assigns = 'pos->x, pos->y'
    safety_tags_all = True


class PSxLeaf(Leaf):
    """PhaseSpace::x: physical coordinate -> grid coordinate clamped into [0, N-1] for every float incl. NaN/inf (tracking file input)"""
    name = 'vfps::PhaseSpace::x'
    tu = 'src/PS/PhaseSpace.cpp'
    cname = 'ps_x'
    tags = {'C15', 'C17'}
    requires = ['__CPROVER_is_fresh(self, sizeof(*self))', 'self->g__nmeshcellsX >= 2 && self->g__nmeshcellsX <= 65535',
                'self->_axis0_delta > 0.0f']
    ensures = [('ongrid', {'C15', 'C17'}, '__CPROVER_return_value >= 0.0f && __CPROVER_return_value <= (float)(self->g__nmeshcellsX - 1)')]
    assigns = ''
    safety_tags_all = True


class CalcCoeffZeroLeaf(Leaf):
    """SourceMap::calcCoefficiants at offset fraction exactly zero (+0 or -0), all four schemes, IEEE single precision:
    one weight is exactly 1.0f and every other weight compares equal to zero — the bit-precise half of "whole-cell shifts are
    lossless" (C02); the VCG proves the same in ideal arithmetic for every f"""
    name = 'vfps::SourceMap::calcCoefficiants'
    tu = 'src/SM/SourceMap.cpp'
    cname = 'calc_coeff'
    tags = {'C02'}
    requires = ['__CPROVER_is_fresh(ic, 4 * sizeof(float))', 'f == 0.0f', 'it >= 1 && it <= 4']
    ensures = [('unit_weight', {'C02'}, '(it == 1) ? (ic[0] == 1.0f) : (it == 2) ? (ic[0] == 1.0f && ic[1] == 0.0f) : '
                                        '(it == 3) ? (ic[0] == 0.0f && ic[1] == 1.0f && ic[2] == 0.0f) : '
                                        '(ic[0] == 0.0f && ic[1] == 1.0f && ic[2] == 0.0f && ic[3] == 0.0f)')]
    assigns = '__CPROVER_object_whole(ic)'
    safety_tags_all = True


class PSyLeaf(Leaf):
    """PhaseSpace::y: physical energy coordinate -> grid coordinate clamped into [0, N-1] for every float incl. NaN/inf (tracking file input)"""
    name = 'vfps::PhaseSpace::y'
    tu = 'src/PS/PhaseSpace.cpp'
    cname = 'ps_y'
    tags = {'C15', 'C17'}
    requires = ['__CPROVER_is_fresh(self, sizeof(*self))', 'self->g__nmeshcellsY >= 2 && self->g__nmeshcellsY <= 65535',
                'self->_axis1_delta > 0.0f']
    ensures = [('ongrid', {'C15', 'C17'}, '__CPROVER_return_value >= 0.0f && __CPROVER_return_value <= (float)(self->g__nmeshcellsY - 1)')]
    assigns = ''
    safety_tags_all = True
