"""Contracts for the source-map classes (src/SM, inc/SM)."""
from .common import *


# =========================================================================== U1
class CalcCoefficiants(Contract):
    name = 'vfps::SourceMap::calcCoefficiants'
    tu = 'src/SM/SourceMap.cpp'
    params = ['ic', 'f', 'it']
    tags = {'C01', 'C02', 'C03'}

    def requires(self, cx):
        ic, it = cx.arg('ic'), cx.a('it')
        return [('it', And(it >= 1, it <= 4)),
                ('room', And(ic.off >= 0, ic.off + it <= cx.st.len_of(ic.region)))]

    def assigns(self, cx):
        ic, it = cx.arg('ic'), cx.a('it')
        return [('r', ic.region, ic.off, ic.off + it)]

    def ensures(self, cx):
        ic, f, it = cx.arg('ic'), cx.a('f'), cx.a('it')
        out = []
        for j in range(4):
            out.append((f'weight{j}', {'C01', 'C02', 'C03'},
                        Implies(it > j, cx.psel(ic, j) == W(it, j, f))))
        return out


def lemmas_weights():
    """pure facts about the Lagrange weights the contracts are stated with (C01/C02):
    partition of unity, reproduction of monomials below the order, unit vector at f=0"""
    f = z3.Real('f')
    x0 = z3.Real('x0')
    out = []
    for n in (1, 2, 3, 4):
        ws = [lagrange(n, j, f) for j in range(n)]
        out.append((f'W.partition.{n}', {'C01', 'C02'}, sum(ws) == 1))
        for k in range(1, n):
            out.append((f'W.moment.{n}.{k}', {'C02', 'C03', 'C15'},
                        sum(w * (x0 + NODES[n][j]) ** k for j, w in enumerate(ws)) == (x0 + f) ** k))
        for j in range(n):
            out.append((f'W.unit_at_0.{n}.{j}', {'C02'},
                        z3.substitute(ws[j], (f, z3.RealVal(0))) == (1 if NODES[n][j] == 0 else 0)))
    return out


# =========================================================================== KickMap invariants
def KM_fields(cx):
    it, ip = cx.f('this._it', 'u8'), cx.f('this._ip', 'u8')
    kd, pd = cx.f('this._meshsize_kd'), cx.f('this._meshsize_pd')
    return it, ip, kd, pd


def KM_valid(cx):
    """what the KickMap constructor establishes"""
    it, ip, kd, pd = KM_fields(cx)
    nx, ny, nb = ps_globals(cx)
    return And(PS_static(cx), it >= 1, it <= 4, ip == it, kd == nx, pd == nx,
               cx.len('this._offset') == pd * nb,
               cx.len('this._hinfo') >= pd * nb * ip, pd * nb * ip < 2 ** 32,
               cx.f('this._lastbunch') < nb)


def KM_table(cx, k):
    """entry k of the table refers to an existing grid line"""
    return cx.sel('this._hinfo', k, 'index', 'int') < cx.f('this._meshsize_kd')


def row_spec(cx, g, e, offs_arr):
    """what table entry e of row g must be, from the statement of C02:
    integer part of (kd/2 + offset) selects the stencil origin, the fractional part the weights;
    a node outside the grid carries zero weight."""
    it, ip, kd, pd = KM_fields(cx)
    P = z3.ToReal(kd / 2) + z3.Select(offs_arr, g)
    T = If(P >= 0, z3.ToInt(P), -z3.ToInt(-P))
    idx = T + node(it, e)
    hidx = cx.sel('this._hinfo', g * ip + e, 'index', 'int')
    hw = cx.sel('this._hinfo', g * ip + e, 'weight')
    ongrid = And(T >= 0, T < kd, idx >= 0, idx < kd)
    return If(ongrid, And(hidx == idx, hw == W(it, e, P - z3.ToReal(T))),
              And(hw == 0, hidx < kd))


def small(model, key, lo, hi, dflt):
    v = model.get(key)
    if isinstance(v, int) and lo <= v <= hi:
        return v
    return dflt


def kick_replay(model):
    """native runs of the real KickMap on the counterexample's sizes (clipped to replayable ones)
    plus neighbouring small configurations"""
    N = small(model, 'vfps::PhaseSpace::_nmeshcellsX', 4, 48, 9)
    nb = small(model, 'vfps::PhaseSpace::_nbunches', 1, 4, 3)
    it = small(model, 'this._it', 1, 4, 3)
    ax = small(model, 'this._kickdirection', 0, 1, 1)
    lb = small(model, 'this._lastbunch', 0, nb - 1, -1)
    runs = [['kick', N, nb, it, ax, lb, 1]]
    for n2 in (2, 3):
        for it2 in (it, 4, 2):
            for ax2 in (ax, 1 - ax):
                for lb2 in (-1, 0):
                    r = ['kick', 9, n2, it2, ax2, lb2, 2]
                    if r not in runs:
                        runs.append(r)
    # whole-cell displacements of either sign for every stencil width (bit for bit; the 1-point scheme has no neighbour to hide behind)
    runs += [['wholecell', 16, 1, it3, ax3, 5] for it3 in (1, 2, 3, 4) for ax3 in (0, 1)]
    return {'harness': 'sm_replay', 'runs': runs}


# =========================================================================== U2
class UpdateSM(Contract):
    name = 'vfps::KickMap::updateSM'
    tu = 'src/SM/KickMap.cpp'
    params = []
    tags = {'C01', 'C02', 'C03', 'C05', 'C08', 'C15'}
    ghosts = {'g': 'int', 'e': 'int'}
    # concrete small grids for the bounded re-check (at most 3 iterations per loop): with symbolic sizes the unrolled
    # formula (~800 kB) is beyond the solvers' time limit and a refutation is found only by luck
    bounded_cases = [(lambda nx_, nb_: (lambda cx: [cx.f(PS_NX) == nx_, cx.f(PS_NY) == nx_, cx.f(PS_NB) == nb_]))(a_, b_) for a_, b_ in ((2, 1), (2, 2), (3, 1))]

    def replay(self, o, model, pid):
        return kick_replay(model)       # the table is observable only through apply(): same native runs as KickMap::apply

    def requires(self, cx):
        return [('valid', KM_valid(cx))]

    def assigns(self, cx):
        it, ip, kd, pd = KM_fields(cx)
        return [('r', 'this._hinfo'.replace('this', cx.this or 'this'), I(0), cx.len('this._offset') * ip)]

    def ghost_range(self, cx):
        it, ip, kd, pd = KM_fields(cx)
        g, e = cx.g('g'), cx.g('e')
        return And(g >= 0, g < cx.len('this._offset'), e >= 0, e < it)

    def ensures(self, cx):
        g, e = cx.g('g'), cx.g('e')
        offs = cx.arr('this._offset')
        return [('row', {'C01', 'C02', 'C03', 'C05', 'C08', 'C15'}, Implies(self.ghost_range(cx), row_spec(cx, g, e, offs))),
                ('offset_unchanged', {'C08'}, offs == cx.old.arr('this._offset'))]

    def _inv_outer(self, cx):
        i = cx.v('i')
        g, e = cx.g('g'), cx.g('e')
        it, ip, kd, pd = KM_fields(cx)
        return [('range', And(i >= 0, i <= cx.len('this._offset'))),
                ('scratch', And(cx.st.len_of('new:ph') == it, cx.st.len_of('new:smc') == it)),
                ('done', Implies(And(self.ghost_range(cx), g < i), row_spec(cx, g, e, cx.arr('this._offset'))))]

    def _inv_inner(self, cx, valid):
        i, j1 = cx.v('i'), cx.v('j1')
        g, e = cx.g('g'), cx.g('e')
        it, ip, kd, pd = KM_fields(cx)
        out = [('range', And(j1 >= 0, j1 <= it)),
               ('outer', And(i >= 0, i < cx.len('this._offset'))),
               ('done', Implies(And(self.ghost_range(cx), g < i), row_spec(cx, g, e, cx.arr('this._offset')))),
               ('cur', Implies(And(self.ghost_range(cx), g == i, e < j1), row_spec(cx, g, e, cx.arr('this._offset'))))]
        return out

    @property
    def loops(self):
        return {'i#0': LoopSpec(inv=self._inv_outer),
                'j1#0': LoopSpec(inv=lambda cx: self._inv_inner(cx, True)),
                'j1#1': LoopSpec(inv=lambda cx: self._inv_inner(cx, False))}

    calls = {'vfps::SourceMap::calcCoefficiants': Use(CalcCoefficiants())}


# =========================================================================== U3
def stencil_sum(cx, data, base_of_src, ok_of_src, row, ip, ipmax=4):
    """sum_j [src_j on grid] data[src_j] * w_j  over the ip entries of table row `row`"""
    kd = cx.f('this._meshsize_kd')
    total = z3.RealVal(0)
    for j in range(ipmax):
        idx = cx.sel('this._hinfo', row * ip + j, 'index', 'int')
        w = cx.sel('this._hinfo', row * ip + j, 'weight')
        s = idx - kd / 2          # displacement in cells
        total = total + If(And(j < ip, ok_of_src(s)), models.FMUL(z3.Select(data, base_of_src(s)), w), z3.RealVal(0))
    return total


class KickMapApply(Contract):
    name = 'vfps::KickMap::apply'
    tu = 'src/SM/KickMap.cpp'
    params = []
    tags = {'C01', 'C02', 'C03', 'C05', 'C08', 'C12'}
    ghosts = {'n': 'int', 'x': 'int', 'y': 'int'}
    uf_mul = True      # posts are structural: data*weight only needs congruence

    def setup(self, cx):
        cx.st.assume(declare_ps(cx, (cx.this or 'this') + '._in'))
        cx.st.assume(declare_ps(cx, (cx.this or 'this') + '._out'))

    def requires(self, cx):
        it, ip, kd, pd = KM_fields(cx)
        # every table entry refers to a grid line (established by updateSM, see UpdateSM.ensures)
        tab = ElemInv('this._hinfo', 'index', 'int',
                      lambda c, k, v: Implies(And(k >= 0, k < c.f('this._meshsize_pd') * c.f(PS_NB) * c.f('this._ip', 'u8')),
                                              v < c.f('this._meshsize_kd')))
        return [('valid', KM_valid(cx)), ('table', tab)]

    def assigns(self, cx):
        t = cx.this or 'this'
        return [('r', t + '._out._data')]

    def ensures(self, cx):
        it, ip, kd, pd = KM_fields(cx)
        nx, ny, nb = ps_globals(cx)
        n, x, y = cx.g('n'), cx.g('x'), cx.g('y')
        rng = And(n >= 0, n < nb, x >= 0, x < nx, y >= 0, y < ny)
        din = cx.old.arr('this._in._data')
        dout = cx.arr('this._out._data')
        cell = n * nx * ny + x * ny + y
        isx = cx.f('this._kickdirection', 'u8') == 0
        # x kick: table row y (shared by all bunches); source (x+s, y)
        sx = stencil_sum(cx, din, lambda s: n * nx * ny + (x + s) * ny + y, lambda s: And(x + s >= 0, x + s < nx), y, ip)
        # y kick: table row of bunch min(n,_lastbunch), coordinate x; source (x, y+s)
        row = If(cx.f('this._lastbunch') < n, cx.f('this._lastbunch'), n) * pd + x
        sy = stencil_sum(cx, din, lambda s: n * nx * ny + x * ny + (y + s), lambda s: And(y + s >= 0, y + s < ny), row, ip)
        return [('x.form', {'C01', 'C02', 'C03', 'C05', 'C08'}, Implies(And(rng, isx), z3.Select(dout, cell) == sx)),      # C03/C05: every bunch is displaced by ITS row of the RF / drift / wake table
                ('y.form', {'C01', 'C02', 'C03', 'C05', 'C08'}, Implies(And(rng, Not(isx)), z3.Select(dout, cell) == sy)),
                ('in_unchanged', {'C08', 'C12'}, din == cx.arr('this._in._data')),
                ('table_unchanged', {'C08', 'C12'}, And(cx.arr('this._hinfo', 'index', 'int') == cx.old.arr('this._hinfo', 'index', 'int'),
                                                        cx.arr('this._hinfo', 'weight') == cx.old.arr('this._hinfo', 'weight')))]

    def replay(self, o, model, pid):
        return kick_replay(model)

    # ---- loop invariants: cells before (n,x,y) in iteration order are final
    def _done(self, cx, before):
        """ghost cell already written => it has its final value"""
        posts = self.ensures(cx)
        nx, ny, nb = ps_globals(cx)
        return [(lab, Implies(before, f)) for lab, tg, f in posts[:2]]

    def _ranges(self, cx, names):
        nx, ny, nb = ps_globals(cx)
        lim = {'n': nb, 'x': nx, 'y': ny}
        out = []
        for i, nm in enumerate(names):
            v = cx.v(nm)
            last = (i == len(names) - 1)
            out.append(And(v >= 0, v <= lim[nm]) if last else And(v >= 0, v < lim[nm]))
        return And(*out)

    def _frame(self, cx):
        return [('in_unchanged', cx.old.arr('this._in._data') == cx.arr('this._in._data'))]

    def _inv_n(self, cx):
        n = cx.v('n')
        return [('range', self._ranges(cx, ['n']))] + self._done(cx, cx.g('n') < n) + self._frame(cx)

    def _inv_x(self, cx):
        n, x = cx.v('n'), cx.v('x')
        gn, gx = cx.g('n'), cx.g('x')
        nx, ny, nb = ps_globals(cx)
        offs = [('offs', cx.v('offs') == n * nx * ny)] if self._has(cx, 'offs') and not self._has(cx, 'offs1') else []
        offs += [('offs1', cx.v('offs1') == n * nx * ny)] if self._has(cx, 'offs1') else []
        offs += [('offs2', cx.v('offs2') == If(cx.f('this._lastbunch') < n, cx.f('this._lastbunch'), n) * nx)] if self._has(cx, 'offs2') else []
        return [('range', self._ranges(cx, ['n', 'x']))] + offs + \
            self._done(cx, Or(gn < n, And(gn == n, gx < x))) + self._frame(cx)

    def _inv_y(self, cx):
        n, x, y = cx.v('n'), cx.v('x'), cx.v('y')
        gn, gx, gy = cx.g('n'), cx.g('x'), cx.g('y')
        nx, ny, nb = ps_globals(cx)
        offs = []
        if self._has(cx, 'offs1'):
            offs = [('offs1', cx.v('offs1') == n * nx * ny), ('offs', cx.v('offs') == n * nx * ny + x * ny),
                    ('offs2', cx.v('offs2') == If(cx.f('this._lastbunch') < n, cx.f('this._lastbunch'), n) * nx)]
        else:
            offs = [('offs', cx.v('offs') == n * nx * ny)]
        return [('range', self._ranges(cx, ['n', 'x', 'y']))] + offs + \
            self._done(cx, Or(gn < n, And(gn == n, gx < x), And(gn == n, gx == x, gy < y))) + self._frame(cx)

    def _hints_y(self, cx, cxb):
        """cells are visited in increasing flat order: (gn,gx,gy) before (n,x,y) => cell(g) < cell(cur)"""
        n, x, y = cxb.v('n'), cxb.v('x'), cxb.v('y')
        gn, gx, gy = cx.g('n'), cx.g('x'), cx.g('y')
        nx, ny, nb = ps_globals(cx)
        before = Or(gn < n, And(gn == n, gx < x), And(gn == n, gx == x, gy < y))
        inr = And(gn >= 0, gx >= 0, gx < nx, gy >= 0, gy < ny)
        cg = gn * nx * ny + gx * ny + gy
        cc = n * nx * ny + x * ny + y
        return [('p1', Implies(n - gn - 1 >= 0, (n - gn - 1) * (nx * ny) >= 0)),
                ('p2', Implies(inr, (nx - 1 - gx) * ny >= 0)),
                ('p3', Implies(x - gx - 1 >= 0, (x - gx - 1) * ny >= 0)),
                ('lex', Implies(And(inr, before), cg < cc))]

    def _split_y(self, cx, cxb):
        n, x, y = cxb.v('n'), cxb.v('x'), cxb.v('y')
        same = And(cx.g('n') == n, cx.g('x') == x, cx.g('y') == y)
        return [('cur', same), ('earlier', Not(same))]

    @staticmethod
    def _has(cx, name):
        return any(nm == name and vid in cx.st.env for vid, nm in cx.st.names.items())

    @property
    def loops(self):
        d = {}
        for k in (0, 1):
            d[f'n#{k}'] = LoopSpec(inv=self._inv_n)
            d[f'x#{k}'] = LoopSpec(inv=self._inv_x)
            d[f'y#{k}'] = LoopSpec(inv=self._inv_y, hints=self._hints_y)
            d[f'y#{k}'].split = self._split_y
            d[f'j#{k}'] = LoopSpec(unroll=4)
        return d


# =========================================================================== constructors
def alias_axes(cx, this='this'):
    """SourceMap::_axis[k] are the rulers of the input phase space (established by the SourceMap ctor)"""
    st = cx.st
    t = cx.this or this
    for k in (0, 1):
        st.scal[f'{t}._axis[{k}]'] = ObjRef(f'{t}._in._axis[{k}]', 'std::shared_ptr<vfps::Ruler<float>>')


class SourceMapCtor(Contract):
    name = 'vfps::SourceMap::SourceMap'
    tu = 'src/SM/SourceMap.cpp'
    nparams = 8
    params = ['in', 'out', 'xsize', 'ysize', 'memsize', 'interpoints', 'intertype', 'oclh']
    tags = {'C17', 'C08'}

    def init__axis(self, ex, st, e):
        # std::array{{in->getAxis(0), in->getAxis(1)}}: checked syntactically — two getAxis calls on `in` with 0 and 1
        import json
        txt = json.dumps(e)
        if txt.count('"name": "getAxis"') != 2:
            raise ExtractionError('SourceMap ctor: _axis initialiser is no longer {in->getAxis(0), in->getAxis(1)}')
        a = ex.args0['in']
        for k in (0, 1):
            st.scal[f'this._axis[{k}]'] = ObjRef(f'{a.name}._axis[{k}]', 'std::shared_ptr<vfps::Ruler<float>>')

    def assigns(self, cx):
        return [('s', 'this.*'), ('r', 'this._hinfo')]

    def effect(self, cx):
        st, t = cx.st, cx.this
        st.scal[t + '._in'] = cx.arg('in')
        st.scal[t + '._out'] = cx.arg('out')
        a = cx.arg('in')
        for k in (0, 1):
            st.scal[f'{t}._axis[{k}]'] = ObjRef(f'{a.name}._axis[{k}]', 'std::shared_ptr<vfps::Ruler<float>>')
        st.havoc_region(t + '._hinfo')
        st.length[t + '._hinfo'] = z3.Int(f'len({t}._hinfo)')

    def ensures(self, cx):
        ms = cx.a('memsize')
        out = [('ip', {'C17'}, cx.f('this._ip', 'u8') == cx.a('interpoints')),
               ('it', {'C17'}, cx.f('this._it', 'u8') == cx.a('intertype')),
               ('xsize', {'C17'}, cx.f('this._xsize') == cx.a('xsize')),
               ('ysize', {'C17'}, cx.f('this._ysize') == cx.a('ysize')),
               ('table_len', {'C17'}, cx.len('this._hinfo') == If(ms > 16, ms, I(16)))]
        return out


class SourceMapCtor7(SourceMapCtor):
    """delegating overload: memsize = xsize*ysize*interpoints"""
    nparams = 7
    params = ['in', 'out', 'xsize', 'ysize', 'interpoints', 'intertype', 'oclh']
    calls = {'ctor:vfps::SourceMap/8': Use(SourceMapCtor())}

    def requires(self, cx):
        return [('fits', And(cx.a('xsize') < 2 ** 32, cx.a('ysize') < 2 ** 32, cx.a('xsize') * cx.a('ysize') * cx.a('interpoints') < 2 ** 64))]

    def ensures(self, cx):
        ms = cx.a('xsize') * cx.a('ysize') * cx.a('interpoints')
        return [('ip', {'C17'}, cx.f('this._ip', 'u8') == cx.a('interpoints')),
                ('it', {'C17'}, cx.f('this._it', 'u8') == cx.a('intertype')),
                ('xsize', {'C17'}, cx.f('this._xsize') == cx.a('xsize')),
                ('ysize', {'C17'}, cx.f('this._ysize') == cx.a('ysize')),
                ('table_len', {'C17'}, cx.len('this._hinfo') == If(ms > 16, ms, I(16)))]


class KickMapCtor(Contract):
    name = 'vfps::KickMap::KickMap'
    tu = 'src/SM/KickMap.cpp'
    params = ['in', 'out', 'it', 'interpol_clamp', 'kd', 'oclh']
    tags = {'C17', 'C08'}
    ghosts = {'k': 'int'}
    calls = {'ctor:vfps::SourceMap': Use(SourceMapCtor()),
             'vfps::SourceMap::notClampedMessage': lambda ex, n, st, objn, argn: VoidV()}

    def requires(self, cx):
        nx, ny, nb = ps_globals(cx)
        it = cx.a('it')
        return [('static', PS_static(cx)), ('it', And(it >= 1, it <= 4)), ('kd', Or(cx.a('kd') == 0, cx.a('kd') == 1)),
                ('tablefits', nx * nb * 4 < 2 ** 32)]

    def assigns(self, cx):
        return [('s', 'this.*'), ('r', 'this._hinfo'), ('r', 'this._offset'), ('len', 'this._offset')]

    def effect(self, cx):
        SourceMapCtor.effect(self, cx)
        t = cx.this
        cx.st.havoc_region(t + '._offset')
        cx.st.length[t + '._offset'] = z3.Int(f'len({t}._offset)')
        for f_ in ('_ip', '_it', '_meshsize_kd', '_meshsize_pd', '_lastbunch', '_xsize', '_ysize', '_kickdirection'):
            cx.st.scal.pop(f'{t}.{f_}', None)

    def ensures(self, cx):
        nx, ny, nb = ps_globals(cx)
        k = cx.g('k')
        isx = cx.a('kd') == 0
        return [('valid', {'C17', 'C08'}, KM_valid(cx)),
                ('it', {'C17'}, cx.f('this._it', 'u8') == cx.a('it')),
                ('dir', {'C08'}, cx.f('this._kickdirection', 'u8') == cx.a('kd')),
                ('lastbunch', {'C08'}, cx.f('this._lastbunch') == nb - 1),
                ('xysize', {'C17'}, And(cx.f('this._xsize') == If(isx, I(1), nx), cx.f('this._ysize') == If(isx, ny, I(1)))),
                ('offset_zero', {'C08'}, Implies(And(k >= 0, k < nx * nb), cx.sel('this._offset', k) == 0))]


# =========================================================================== Ruler view
def ruler_fields(cx, obj):
    return dict(mn=cx.rf(obj + '._min'), mx=cx.rf(obj + '._max'), delta=cx.rf(obj + '._delta'),
                zb=cx.rf(obj + '._zerobin'), steps=cx.f(obj + '._steps'))


def Ruler_valid(cx, obj, steps):
    """what Ruler's constructor establishes (U12)"""
    r = ruler_fields(cx, obj)
    return And(r['steps'] == steps, r['mx'] > r['mn'], r['delta'] > 0,
               r['delta'] * z3.ToReal(steps - 1) == r['mx'] - r['mn'],
               cx.len(obj + '._data') == steps)


def ruler_at(cx, obj, k):
    """position of grid line k: the Ruler constructor's contract (specs/ps.py RulerCtor) proves
    _data[k] == _min + k*_delta for every k < steps"""
    return cx.sel(obj + '._data', k)


def ruler_at_fact(cx, obj, k):
    r = ruler_fields(cx, obj)
    return Implies(And(k >= 0, k < r['steps']), cx.sel(obj + '._data', k) == r['mn'] + z3.ToReal(k) * r['delta'])


def SM_axes(cx):
    """SourceMap::_axis[k] alias the rulers of _in, both valid for the static grid size"""
    alias_axes(cx)
    nx, ny, nb = ps_globals(cx)
    t = cx.this or 'this'
    return And(Ruler_valid(cx, t + '._in._axis[0]', nx), Ruler_valid(cx, t + '._in._axis[1]', ny))


TAN = models.uf('tan')
SIN = models.uf('sin')


def rf_offset_spec(cx, x, phase, ampl):
    """RF law from the statement of C03 (linear: tan(angle) * distance from the zero-position bin)"""
    t = cx.this or 'this'
    ax0, ax1 = t + '._in._axis[0]', t + '._in._axis[1]'
    lin = cx.f('this._linear', 'bool') != 0
    angle, sp, bl = cx.rf('this._angle'), cx.rf('this._syncphase'), cx.rf('this._bl2phase')
    zb = cx.rf(ax0 + '._zerobin')
    d0 = cx.rf(ax0 + '._delta')
    linv = ampl * (TAN(angle) * (zb - z3.ToReal(x)) + TAN(angle) * (sp - phase) / bl / d0)
    q = cx.sel(ax0 + '._data', x)      # position of grid line x (Ruler contract: min + x*delta)
    sinv = cx.rf('this._revolutionpart') * (-ampl * cx.rf('this._V_RF') * SIN(q * bl + phase) + cx.rf('this._V0')) \
        / cx.rf(ax1 + '._delta') / cx.rf(ax1 + '._scale[ElectronVolt]')
    return If(lin, linv, sinv)


class RFCalcKick(Contract):
    replay = lambda self, o, model, pid: {'harness': 'sm_replay', 'runs': [['rf', N_, nb_, it_, lin_, 1] for N_ in (16, 17) for nb_ in (1, 2) for it_ in (2, 4) for lin_ in (1, 0)]}
    name = 'vfps::RFKickMap::_calcKick'
    tu = 'src/SM/RFKickMap.cpp'
    params = ['phase', 'ampl']
    tags = {'C03', 'C05', 'C08', 'C19'}
    ghosts = {'x': 'int', 'e': 'int', 'k': 'int'}

    def setup(self, cx):
        cx.st.assume(SM_axes(cx))

    def requires(self, cx):
        nx, ny, nb = ps_globals(cx)
        return [('valid', KM_valid(cx)), ('xsize', cx.f('this._xsize') == nx), ('ydir', cx.f('this._kickdirection', 'u8') == 1)]

    def assigns(self, cx):
        t = cx.this or 'this'
        it, ip, kd, pd = KM_fields(cx)
        return [('r', t + '._offset', I(0), cx.f(PS_NX)), ('r', t + '._hinfo', I(0), cx.len('this._offset') * ip)]

    def ensures(self, cx):
        nx, ny, nb = ps_globals(cx)
        x, e, k = cx.g('x'), cx.g('e'), cx.g('k')
        offs = cx.arr('this._offset')
        inr = And(x >= 0, x < nx)
        return [('law', {'C03', 'C05', 'C08', 'C19'}, Implies(inr, z3.Select(offs, x) == rf_offset_spec(cx, x, cx.a('phase'), cx.a('ampl')))),
                ('others_unchanged', {'C08'}, Implies(k >= nx, z3.Select(offs, k) == z3.Select(cx.old.arr('this._offset'), k))),
                ('table', {'C03', 'C08'}, Implies(And(inr, e >= 0, e < cx.f('this._it', 'u8')), row_spec(cx, x, e, offs)))]

    def _inv(self, cx):
        nx, ny, nb = ps_globals(cx)
        x, gx, k = cx.v('x'), cx.g('x'), cx.g('k')
        offs = cx.arr('this._offset')
        return [('range', And(x >= 0, x <= nx)),
                ('law', Implies(And(gx >= 0, gx < x), z3.Select(offs, gx) == rf_offset_spec(cx, gx, cx.a('phase'), cx.a('ampl')))),
                ('others_unchanged', Implies(k >= nx, z3.Select(offs, k) == z3.Select(cx.old.arr('this._offset'), k))),
                ('hinfo_unchanged', And(cx.arr('this._hinfo', 'index', 'int') == cx.old.arr('this._hinfo', 'index', 'int'),
                                        cx.arr('this._hinfo', 'weight') == cx.old.arr('this._hinfo', 'weight')))]

    @property
    def loops(self):
        d = {'x#0': LoopSpec(inv=self._inv), 'x#1': LoopSpec(inv=self._inv)}
        for l in d.values():
            l.split = split_ghost('x', 'x')
        return d

    calls = {'vfps::KickMap::updateSM': Use(UpdateSM(), inst=lambda cx: [{'g': cx.ghost_of('x'), 'e': cx.ghost_of('e')}])}


class RFKickMapLinearCtor(Contract):
    name = 'vfps::RFKickMap::RFKickMap'
    tu = 'src/SM/RFKickMap.cpp'
    nparams = 7
    params = ['in', 'out', 'angle', 'f_RF', 'it', 'interpol_clamp', 'oclh']
    tags = {'C03', 'C08', 'C19', 'C17'}
    ghosts = {'x': 'int', 'e': 'int'}
    linear = True

    def setup(self, cx):
        nx, ny, nb = ps_globals(cx)
        a = cx.arg('in').name
        cx.st.assume(And(Ruler_valid(cx, a + '._axis[0]', nx), Ruler_valid(cx, a + '._axis[1]', ny)))

    def requires(self, cx):
        nx, ny, nb = ps_globals(cx)
        it = cx.a('it')
        a = cx.arg('in').name
        return [('static', PS_static(cx)), ('it', And(it >= 1, it <= 4)), ('tablefits', nx * nb * 4 < 2 ** 32),
                ('rf_positive', And(cx.a('f_RF') > 0, cx.rf(a + '._axis[0]._scale[Meter]') > 0, models.uf_const('PI') > 3))]

    def assigns(self, cx):
        return [('s', 'this.*'), ('r', 'this._hinfo'), ('r', 'this._offset'), ('len', 'this._offset')]

    def effect(self, cx):
        KickMapCtor.effect(self, cx)

    def law(self, cx, x):
        return rf_offset_spec(cx, x, cx.rf('this._syncphase'), z3.RealVal(1))

    def ensures(self, cx):
        nx, ny, nb = ps_globals(cx)
        x, e = cx.g('x'), cx.g('e')
        inr = And(x >= 0, x < nx)
        offs = cx.arr('this._offset')
        a = cx.arg('in').name
        zb = cx.rf(a + '._axis[0]._zerobin')
        out = [('valid', {'C17', 'C08'}, KM_valid(cx)),
               ('shared_map', {'C08'}, cx.f('this._lastbunch') == 0),
               ('ydir', {'C03', 'C08'}, cx.f('this._kickdirection', 'u8') == 1),
               ('model', {'C19', 'C03'}, (cx.f('this._linear', 'bool') != 0) == self.linear),
               ('law', {'C03', 'C08', 'C19'}, Implies(inr, z3.Select(offs, x) == self.law(cx, x))),
               ('table', {'C03', 'C08'}, Implies(And(inr, e >= 0, e < cx.f('this._it', 'u8')), row_spec(cx, x, e, offs)))]
        if self.linear:
            out += [('angle', {'C03', 'C19'}, cx.rf('this._angle') == cx.a('angle')),
                    ('linear_law', {'C03'}, Implies(inr, z3.Select(offs, x) == TAN(cx.a('angle')) * (zb - z3.ToReal(x))))]
        else:
            out += [('params', {'C19', 'C03'}, And(cx.rf('this._revolutionpart') == cx.a('revolutionpart'), cx.rf('this._V_RF') == cx.a('V_RF'),
                                                  cx.rf('this._V0') == cx.a('V0'), cx.rf('this._syncphase') == models.uf('asin')(cx.a('V0') / cx.a('V_RF'))))]
        return out

    @property
    def calls(self):
        return {'ctor:vfps::KickMap': Use(KickMapCtor()),
                'vfps::RFKickMap::_calcKick': Use(RFCalcKick(), inst=lambda cx: [{'x': cx.ghost_of('x'), 'e': cx.ghost_of('e'), 'k': cx.ghost_of('x')}])}


class RFKickMapSinCtor(RFKickMapLinearCtor):
    nparams = 9
    params = ['in', 'out', 'revolutionpart', 'V_RF', 'f_RF', 'V0', 'it', 'interpol_clamp', 'oclh']
    linear = False


# =========================================================================== U5 DriftMap
class DriftMapCtor(Contract):
    name = 'vfps::DriftMap::DriftMap'
    tu = 'src/SM/DriftMap.cpp'
    params = ['in', 'out', 'slip', 'E0', 'it', 'interpol_clamp', 'oclh']
    tags = {'C03', 'C08', 'C01', 'C17'}
    ghosts = {'y': 'int', 'e': 'int'}

    def setup(self, cx):
        nx, ny, nb = ps_globals(cx)
        a = cx.arg('in').name
        cx.st.assume(And(Ruler_valid(cx, a + '._axis[0]', nx), Ruler_valid(cx, a + '._axis[1]', ny)))

    def requires(self, cx):
        nx, ny, nb = ps_globals(cx)
        it = cx.a('it')
        return [('static', PS_static(cx)), ('it', And(it >= 1, it <= 4)), ('tablefits', nx * nb * 4 < 2 ** 32),
                ('slip3', cx.len(cx.arg('slip').name) == 3)]

    def assigns(self, cx):
        return [('s', 'this.*'), ('r', 'this._hinfo'), ('r', 'this._offset'), ('len', 'this._offset')]

    def effect(self, cx):
        KickMapCtor.effect(self, cx)

    def law(self, cx, y):
        """drift: sum_i slip_i * p(y) * (p(y)*scale_eV/E0)^i / delta_q  (statement of C03 + momentum compaction)"""
        a = cx.arg('in').name
        p = cx.sel(a + '._axis[1]._data', y)
        r = p * cx.rf(a + '._axis[1]._scale[ElectronVolt]') / cx.a('E0')
        sl = cx.arr(cx.arg('slip').name)
        s0, s1, s2 = [z3.Select(sl, i) for i in range(3)]
        return (s0 * p + s1 * p * r + s2 * p * (r * r)) / cx.rf(a + '._axis[0]._delta')

    def ensures(self, cx):
        nx, ny, nb = ps_globals(cx)
        y, e = cx.g('y'), cx.g('e')
        inr = And(y >= 0, y < ny)
        offs = cx.arr('this._offset')
        return [('valid', {'C17', 'C08'}, KM_valid(cx)),
                ('xdir', {'C03', 'C08'}, cx.f('this._kickdirection', 'u8') == 0),
                ('law', {'C03', 'C08', 'C01'}, Implies(inr, z3.Select(offs, y) == self.law(cx, y))),
                ('table', {'C03', 'C08', 'C01'}, Implies(And(inr, e >= 0, e < cx.f('this._it', 'u8')), row_spec(cx, y, e, offs)))]

    def _inv(self, cx):
        nx, ny, nb = ps_globals(cx)
        y, gy = cx.v('y'), cx.g('y')
        return [('range', And(y >= 0, y <= ny)),
                ('valid', KM_valid(cx)),
                ('ysize', cx.f('this._ysize') == ny),
                ('law', Implies(And(gy >= 0, gy < y), z3.Select(cx.arr('this._offset'), gy) == self.law(cx, gy)))]

    @property
    def loops(self):
        l = LoopSpec(inv=self._inv)
        l.split = split_ghost('y', 'y')
        return {'y#0': l, 'i#0': LoopSpec(unroll=3)}

    @property
    def calls(self):
        return {'ctor:vfps::KickMap': Use(KickMapCtor()),
                'vfps::KickMap::updateSM': Use(UpdateSM(), inst=lambda cx: [{'g': cx.ghost_of('y'), 'e': cx.ghost_of('e')}])}


# =========================================================================== U11 Identity
class IdentityApply(Contract):
    name = 'vfps::Identity::apply'
    tu = 'src/SM/Identity.cpp'
    params = []
    tags = {'C01', 'C08', 'C12'}
    ghosts = {'k': 'int'}

    def setup(self, cx):
        t = cx.this or 'this'
        cx.st.assume(declare_ps(cx, t + '._in'))
        cx.st.assume(declare_ps(cx, t + '._out'))

    def requires(self, cx):
        return [('static', PS_static(cx))]

    def assigns(self, cx):
        return [('r', (cx.this or 'this') + '._out._data')]

    def ensures(self, cx):
        nx, ny, nb = ps_globals(cx)
        k = cx.g('k')
        return [('copy', {'C01', 'C08'}, Implies(And(k >= 0, k < nb * nx * ny), cx.sel('this._out._data', k) == cx.old.sel('this._in._data', k))),
                ('in_unchanged', {'C08', 'C12'}, cx.arr('this._in._data') == cx.old.arr('this._in._data'))]


# =========================================================================== U4 KickMap::applyTo
class KickMapApplyTo(Contract):
    name = 'vfps::KickMap::applyTo'
    tu = 'src/SM/KickMap.cpp'
    params = ['pos']
    ref_params = ['pos']
    tags = {'C15', 'C17'}

    def pos(self, cx, c):
        p = cx.arg('pos')
        name = p.ref.name if hasattr(p, 'ref') else p.name
        return cx.rf(f'{name}.{c}')

    def requires(self, cx):
        it, ip, kd, pd = KM_fields(cx)
        px, py = self.pos(cx, 'x'), self.pos(cx, 'y')
        n1 = z3.ToReal(kd) - 1
        # tracked coordinates are grid coordinates (PhaseSpace::x()/y() clamp into [0,N-1]; every map keeps them there)
        return [('valid', KM_valid(cx)), ('ongrid', And(px >= 0, px <= n1, py >= 0, py <= n1))]

    def assigns(self, cx):
        p = cx.arg('pos')
        name = p.ref.name if hasattr(p, 'ref') else p.name
        return [('s', name + '.x'), ('s', name + '.y')]

    def ensures(self, cx):
        it, ip, kd, pd = KM_fields(cx)
        isx = cx.f('this._kickdirection', 'u8') == 0
        px, py = self.pos(cx, 'x'), self.pos(cx, 'y')
        ox, oy = self.pos(cx.old, 'x'), self.pos(cx.old, 'y')
        n1 = z3.ToReal(kd) - 1
        offs = cx.arr('this._offset')

        def moved(o_kick, o_perp):
            i = z3.ToInt(o_perp)
            f = o_perp - z3.ToReal(i)
            shift = (1 - f) * z3.Select(offs, i) + f * z3.Select(offs, i + 1)
            raw = If(i + 1 < pd, o_kick - shift, o_kick)
            return If(raw < 1, z3.RealVal(1), If(raw > n1, n1, raw))
        return [('x.follow', {'C15'}, Implies(isx, And(px == moved(ox, oy), py == oy))),
                ('y.follow', {'C15'}, Implies(Not(isx), And(py == moved(oy, ox), px == ox))),
                ('ongrid', {'C15', 'C17'}, And(px >= 0, px <= n1, py >= 0, py <= n1))]


# =========================================================================== U4b SourceMap::applyToAll
def U(name, arity):
    return z3.Function('spec_' + name, *([z3.RealSort()] * (arity + 1)))


def _apply_to_handler(ex, n, st, objn, argn, this_override=None):
    from vf.vcg import LElem, StructV
    """the virtual applyTo(pos) under its abstract contract: pos becomes (TX(pos), TY(pos)) for one fixed pair of functions (the
    final overriders are under contract on their own: KickMapApplyTo, FokkerPlanckApplyTo; which one runs: mainspec.MapDispatch);
    every call is counted and the index it was made on is recorded"""
    l = ex.lv(argn[0], st)
    v = ex.load(l, st)
    if not isinstance(v, StructV) or set(v.fields) != {'x', 'y'}:
        raise ExtractionError(f'{ex.unit}: applyTo() on something that is not a position (line {ex.curline})')
    FL = v.fields['x'].ct
    TX, TY = U('applyTo.x', 2), U('applyTo.y', 2)
    nv = StructV(v.cls, {'x': RealV(TX(v.fields['x'].t, v.fields['y'].t), FL), 'y': RealV(TY(v.fields['x'].t, v.fields['y'].t), FL)})
    ex.store(l, nv, st)
    LONG = parse_type_str('long')
    c = st.scal['ghost.applyto.calls']
    st.scal['ghost.applyto.calls'] = IntV(c.t + 1, LONG)
    ex.logw(('s', 'ghost.applyto.calls'))
    # a call on element g of the caller's list is a hit; a call on anything else (a copy, another list) moves no tracked particle
    plist = getattr(ex, 'applyto_list', None)
    hit = And(l.idx == ex.ghosts['g']) if isinstance(l, LElem) and not l.leaf and plist is not None and l.region == plist else z3.BoolVal(False)
    h = st.scal['ghost.applyto.hits']
    st.scal['ghost.applyto.hits'] = IntV(h.t + If(hit, I(1), I(0)), LONG)
    ex.logw(('s', 'ghost.applyto.hits'))
    return VoidV()


class SourceMapApplyToAll(Contract):
    """applyToAll(particles): every tracked particle is moved by this map's applyTo exactly once, in place; the list keeps its
    length and no particle is moved twice or skipped (C15: the tracked particles follow the same maps as the density, one map
    application per step each -- main calls applyToAll once per map and step, contract mainloop.MainLoop)"""
    name = 'vfps::SourceMap::applyToAll'
    tu = 'src/SM/SourceMap.cpp'
    params = ['particles']
    tags = {'C15', 'C17'}
    ghosts = {'g': 'int'}
    replay = lambda self, o, model, pid: {'harness': 'sm_replay', 'runs': [['trackall', N_, it_, ax_, np_, 1] for N_ in (32,) for it_ in (2, 4) for ax_ in (0, 1) for np_ in (1, 2, 7)]}

    def setup(self, cx):
        LONG = parse_type_str('long')
        cx.st.scal['ghost.applyto.calls'] = IntV(I(0), LONG)
        cx.st.scal['ghost.applyto.hits'] = IntV(I(0), LONG)
        cx.ex.applyto_list = cx.arg('particles').name

    def requires(self, cx):
        return []

    def assigns(self, cx):
        p = cx.arg('particles').name
        return [('r', p), ('s', 'ghost.*')]

    @property
    def calls(self):
        return {'applyTo': _apply_to_handler}

    def _moved(self, cx, g):
        p = cx.arg('particles').name
        TX, TY = U('applyTo.x', 2), U('applyTo.y', 2)
        ox, oy = cx.old.sel(p, g, 'x'), cx.old.sel(p, g, 'y')
        return And(cx.sel(p, g, 'x') == TX(ox, oy), cx.sel(p, g, 'y') == TY(ox, oy))

    def ensures(self, cx):
        p = cx.arg('particles').name
        g = cx.g('g')
        n = cx.len(p)
        calls = cx.st.scal['ghost.applyto.calls'].t
        hits = cx.st.scal['ghost.applyto.hits'].t
        return [('length_kept', {'C15', 'C17'}, n == cx.old.len(p)),
                ('one_call_per_particle', {'C15'}, calls == n),
                ('each_particle_moved_exactly_once', {'C15'}, Implies(And(g >= 0, g < n), And(hits == 1, self._moved(cx, g)))),
                ('nothing_outside_the_list', {'C17'}, Implies(Or(g < 0, g >= n), hits == 0))]

    def _inv(self, cx):
        p = cx.arg('particles').name
        g = cx.g('g')
        i = cx.range_index(1)
        calls = cx.st.scal['ghost.applyto.calls'].t
        hits = cx.st.scal['ghost.applyto.hits'].t
        ox, oy = cx.old.sel(p, g, 'x'), cx.old.sel(p, g, 'y')
        return [('range', And(i >= 0, i <= cx.len(p))), ('len', cx.len(p) == cx.old.len(p)), ('calls', calls == i),
                ('done', Implies(And(g >= 0, g < i), And(hits == 1, self._moved(cx, g)))),
                ('todo', Implies(Not(And(g >= 0, g < i)), And(hits == 0, cx.sel(p, g, 'x') == ox, cx.sel(p, g, 'y') == oy)))]

    @property
    def loops(self):
        l = LoopSpec(inv=self._inv)
        l.split = lambda cx, cxb: [('cur', cx.g('g') == cxb.range_index(1)), ('other', Not(cx.g('g') == cxb.range_index(1)))]
        return {'particle#0': l}


# =========================================================================== U8 FokkerPlanckMap ctor
def fp_flags(fptype):
    damp = And(fptype != 0, fptype != 2)      # not none, not diffusion_only
    diff = And(fptype != 0, fptype != 1)      # not none, not damping_only
    return damp, diff


class FokkerPlanckCtor(Contract):
    name = 'vfps::FokkerPlanckMap::FokkerPlanckMap'
    tu = 'src/SM/FokkerPlanckMap.cpp'
    params = ['in', 'out', 'xsize', 'ysize', 'fptype', 'fptrack', 'e1', 'dt', 'oclh']
    tags = {'C01', 'C04', 'C08', 'C17'}
    ghosts = {'r0': 'int', 'r1': 'int', 'r2': 'int', 'r3': 'int', 'k': 'int'}
    cases = [{'dt': d_, 'fptype': f_} for d_ in (3, 4) for f_ in (0, 1, 2, 3)]

    def setup(self, cx):
        nx, ny, nb = ps_globals(cx)
        a = cx.arg('in').name
        ax = a + '._axis[1]'
        cx.st.assume(And(Ruler_valid(cx, a + '._axis[0]', nx), Ruler_valid(cx, ax, ny)))
        # Ruler contract (positions affine in the index), in difference form, at the ghost rows and column
        k = cx.g('k')
        d = cx.rf(ax + '._delta')
        for g in ('r0', 'r1', 'r2', 'r3'):
            r = cx.g(g)
            for c in (-2, -1, 0, 1, 2):
                cx.st.assume(Implies(And(r == k + c, r >= 0, r < ny, k >= 0, k < ny),
                                     cx.sel(ax + '._data', r) == cx.sel(ax + '._data', k) + c * d))

    def requires(self, cx):
        nx, ny, nb = ps_globals(cx)
        a = cx.arg('in').name
        zb = cx.rf(a + '._axis[1]._zerobin')
        ys = cx.a('ysize')
        return [('static', PS_static(cx)), ('ysize', And(ys == ny, cx.a('xsize') == nx)),
                ('fptype', And(cx.a('fptype') >= 0, cx.a('fptype') <= 3)),
                ('e1', cx.a('e1') > 0), ('ysize4', Implies(cx.a('dt') == 4, ys >= 4))]

    def assigns(self, cx):
        return [('s', 'this.*'), ('r', 'this._hinfo')]

    def effect(self, cx):
        SourceMapCtor.effect(self, cx)
        for f_ in ('_ip', '_it', '_xsize', '_ysize', '_meshxsize', '_dampdecr'):
            cx.st.scal.pop(f'{cx.this}.{f_}', None)

    def replay(self, o, model, pid):
        runs = [['fp', N_, nb_, ft_, dt_, e1_, 1] for N_ in (64, 48) for nb_ in (1, 2) for ft_ in (0, 1, 2, 3) for dt_ in (3, 4) for e1_ in ('0.01',)]
        return {'harness': 'sm_replay', 'runs': runs}

    # random sources are outside the deterministic model (C12/C15 exclude them)
    def init__prng(self, ex, st, e):
        st.scal['this._prng'] = Opaque('prng')

    def init__normdist(self, ex, st, e):
        st.scal['this._normdist'] = Opaque('normal_distribution')

    # ---- what row j of the table must be (layout of the stencil; weights from the discretisation)
    def rowspec(self, cx, j, part=None):
        a = cx.arg('in').name
        ax = a + '._axis[1]'
        d = cx.rf(ax + '._delta')
        zb = cx.rf(ax + '._zerobin')
        e1 = cx.a('e1')
        ys = cx.a('ysize')
        dt = cx.a('dt')
        A, B = fp_flags(cx.a('fptype'))
        Ar, Br = If(A, z3.RealVal(1), z3.RealVal(0)), If(B, z3.RealVal(1), z3.RealVal(0))
        p = cx.sel(ax + '._data', j)
        e2d, e6d, ed2 = e1 / (2 * d), e1 / (6 * d), e1 / (d * d)
        ip = If(dt == 3, I(3), I(4))

        def ent(e):
            return cx.sel('this._hinfo', j * ip + e, 'index', 'int'), cx.sel('this._hinfo', j * ip + e, 'weight')

        def rowis(idx, ws):
            return And(*[And(ent(e)[0] == idx[e], ent(e)[1] == ws[e]) for e in range(len(idx))])
        zero3 = rowis([I(0)] * 3, [z3.RealVal(0)] * 3)
        zero4 = rowis([I(0)] * 4, [z3.RealVal(0)] * 4)
        def rowof(kind):
            ws = fp_row_weights(kind, Ar, Br, p, d, e1)
            offs = sorted(ws)
            return rowis([j + o for o in offs], [ws[o] for o in offs])
        two, lo, hi = rowof('two'), rowof('lo'), rowof('hi')
        # the stencil switches sides at the zero-energy bin; if zero energy lies outside the rows that get a stencil
        # (strongly shifted grid) every row uses the same side
        zc = If(zb < 2, z3.RealVal(2), If(zb > z3.ToReal(ys) - 2, z3.ToReal(ys) - 2, zb))
        tz = z3.ToInt(zc)
        if part is not None:
            return {'zero3': zero3, 'zero4': zero4, 'two': two, 'lo': lo, 'hi': hi, 'tz': tz}[part]
        spec3 = If(And(j >= 1, j <= ys - 2), two, zero3)
        spec4 = If(And(j >= 2, j < tz, j < ys - 2), lo, If(And(j >= tz, j >= 2, j < ys - 2), hi, zero4))
        return If(dt == 3, spec3, spec4)

    def moments(self, cx):
        """column moments of the operator for column k whose contributing rows r0..r3 = k-1..k+2
        (cubic, below the zero bin) / k-2..k+1 (above) / k-1..k+1 (two-sided)"""
        a = cx.arg('in').name
        ax = a + '._axis[1]'
        d, zb, e1, ys, dt = cx.rf(ax + '._delta'), cx.rf(ax + '._zerobin'), cx.a('e1'), cx.a('ysize'), cx.a('dt')
        A, B = fp_flags(cx.a('fptype'))
        Ar, Br = If(A, z3.RealVal(1), z3.RealVal(0)), If(B, z3.RealVal(1), z3.RealVal(0))
        k = cx.g('k')
        rows = [cx.g('r0'), cx.g('r1'), cx.g('r2'), cx.g('r3')]
        tz = z3.ToInt(zb)
        ip = If(dt == 3, I(3), I(4))
        pk = cx.sel(ax + '._data', k)

        def colsum(power):
            tot = z3.RealVal(0)
            for r in rows:
                pr = cx.sel(ax + '._data', r)
                for e in range(4):
                    idx = cx.sel('this._hinfo', r * ip + e, 'index', 'int')
                    w = cx.sel('this._hinfo', r * ip + e, 'weight')
                    term = w if power == 0 else (w * pr if power == 1 else w * pr * pr)
                    tot = tot + If(And(e < ip, idx == k), term, z3.RealVal(0))
            return tot
        # the rows that can reach column k, and all of them on one side of the zero bin
        two = And(dt == 3, rows[0] == k - 1, rows[1] == k, rows[2] == k + 1, rows[3] == k + 2, k >= 2, k <= ys - 3)
        lo = And(dt == 4, rows[0] == k - 1, rows[1] == k, rows[2] == k + 1, rows[3] == k + 2, k >= 3, k + 2 < tz, k + 2 < ys - 2)
        hi = And(dt == 4, rows[0] == k - 2, rows[1] == k - 1, rows[2] == k, rows[3] == k + 1, k - 2 >= tz, k - 2 >= 2, k + 1 < ys - 2)
        interior = Or(two, lo, hi)
        m0, m1, m2 = colsum(0), colsum(1), colsum(2)
        ideal2 = pk * pk - 2 * Ar * e1 * pk * pk + 2 * Br * e1
        return interior, m0, m1, m2, pk, Ar, e1, d, ideal2

    def ensures(self, cx):
        ys = cx.a('ysize')
        out = []
        for i, g in enumerate(('r0', 'r1', 'r2', 'r3')):
            j = cx.g(g)
            out.append((f'row.{g}', {'C01', 'C04', 'C08'}, Implies(And(j >= 0, j < ys), self.rowspec(cx, j))))
        j = cx.g('r0')
        ip = If(cx.a('dt') == 3, I(3), I(4))
        for e in range(4):
            out.append((f'index_in_grid.{e}', {'C17', 'C01'}, Implies(And(j >= 0, j < ys, e < ip), cx.sel('this._hinfo', j * ip + e, 'index', 'int') < ys)))
        out += [('ip', {'C17'}, And(cx.f('this._ip', 'u8') == ip, cx.f('this._ysize') == ys, cx.f('this._meshxsize') == cx.a('xsize')))]
        return out

    def _common(self, cx):
        ys = cx.a('ysize')
        return [('sizes', And(cx.f('this._ysize') == ys, cx.f('this._ip', 'u8') == If(cx.a('dt') == 3, I(3), I(4)),
                             cx.f('this._it', 'u8') == cx.f('this._ip', 'u8'),
                             cx.len('this._hinfo') >= ys * cx.f('this._ip', 'u8'), cx.len('this._hinfo') >= 16))]

    def _inv_two(self, cx):
        j, ys = cx.v('j'), cx.a('ysize')
        out = self._common(cx) + [('range', And(j >= 1, Or(j <= ys - 1, j == 1)))]
        for g in ('r0', 'r1', 'r2', 'r3'):
            r = cx.g(g)
            out.append((f'zero.{g}', Implies(r == 0, self.rowspec(cx, r, 'zero3'))))
            out.append((f'done.{g}', Implies(And(r >= 1, r < j), self.rowspec(cx, r, 'two'))))
        return out

    def _inv_lo(self, cx):
        j, ys = cx.v('j'), cx.a('ysize')
        out = self._common(cx) + [('range', And(j >= 2, z3.ToReal(j) <= cx.v('ycenter') + 1))]
        for g in ('r0', 'r1', 'r2', 'r3'):
            r = cx.g(g)
            out.append((f'zero.{g}', Implies(And(r >= 0, r <= 1), self.rowspec(cx, r, 'zero4'))))
            out.append((f'done.{g}', Implies(And(r >= 2, r < j), self.rowspec(cx, r, 'lo'))))
        return out

    def _inv_hi(self, cx):
        j, ys = cx.v('j'), cx.a('ysize')
        tz = self.rowspec(cx, cx.g('r0'), 'tz')
        out = self._common(cx) + [('range', And(j >= tz, Or(j <= ys - 2, j == tz)))]
        for g in ('r0', 'r1', 'r2', 'r3'):
            r = cx.g(g)
            out.append((f'zero.{g}', Implies(And(r >= 0, r <= 1), self.rowspec(cx, r, 'zero4'))))
            out.append((f'lo.{g}', Implies(And(r >= 2, r < tz), self.rowspec(cx, r, 'lo'))))
            out.append((f'done.{g}', Implies(And(r >= tz, r < j), self.rowspec(cx, r, 'hi'))))
        return out

    @staticmethod
    def _split_row(cx, cxb, lab):
        """row obligations: the ghost row is the one written in this iteration / any other row"""
        g = lab.split('.')[-1]
        if g not in ('r0', 'r1', 'r2', 'r3'):
            return None
        same = cx.g(g) == cxb.v('j')
        return [('cur', same), ('other', Not(same))]

    def loops_for(self, ci):
        ls = {'j#0': LoopSpec(inv=self._inv_two)} if ci < 4 else {'j#0': LoopSpec(inv=self._inv_lo), 'j#1': LoopSpec(inv=self._inv_hi)}
        for l in ls.values():
            l.split_by_label = self._split_row
        return ls

    @property
    def calls(self):
        return {'ctor:vfps::SourceMap/7': Use(SourceMapCtor7())}


def fp_row_weights(kind, A, B, p, d, e1):
    """(index offset -> weight) of a table row at energy p: the layout/weights that
    FokkerPlanckCtor.rowspec proves the constructor builds"""
    e2d, e6d, ed2 = e1 / (2 * d), e1 / (6 * d), e1 / (d * d)
    if kind == 'two':
        return {-1: A * (-e2d * p) + B * ed2, 0: 1 + A * e1 + B * (-2 * ed2), 1: A * (e2d * p) + B * ed2}
    if kind == 'lo':
        return {-2: A * e6d * p, -1: A * (-6 * e6d * p) + B * ed2, 0: 1 + A * (e1 + 3 * e6d * p) + B * (-2 * ed2), 1: A * (2 * e6d * p) + B * ed2}
    return {-1: A * (-2 * e6d * p) + B * ed2, 0: 1 + A * (e1 - 3 * e6d * p) + B * (-2 * ed2), 1: A * (6 * e6d * p) + B * ed2, 2: A * (-e6d * p)}


def lemmas_fp():
    """column moments of the damping/diffusion operator whose rows are fp_row_weights, for a column
    all of whose contributing rows lie on one side of the zero-energy bin (C01: m0 = 1; C04: per-step
    law of mean and second moment, second-order tolerance 0 <= c <= 1)"""
    p, d, e1 = z3.Reals('p d e1')
    out = []
    for kind in ('two', 'lo', 'hi'):
        for ft in (0, 1, 2, 3):
            A = 1 if ft in (1, 3) else 0
            B = 1 if ft in (2, 3) else 0
            m = [z3.RealVal(0)] * 3
            for y in (-2, -1, 0, 1, 2):      # row k+y contributes to column k through its entry with offset -y
                w = fp_row_weights(kind, A, B, p + y * d, d, e1).get(-y)
                if w is None:
                    continue
                py = p + y * d
                m = [m[0] + w, m[1] + w * py, m[2] + w * py * py]
            pre = And(d > 0, e1 > 0)
            ideal2 = p * p - 2 * A * e1 * p * p + 2 * B * e1
            out.append((f'FP.m0.{kind}.{ft}', {'C01', 'C04'}, Implies(pre, m[0] == 1)))
            out.append((f'FP.m1.{kind}.{ft}', {'C04'}, Implies(pre, m[1] == (1 - A * e1) * p)))
            out.append((f'FP.m2.{kind}.{ft}', {'C04'}, Implies(pre, And(m[2] <= ideal2, m[2] >= ideal2 - A * e1 * d * d))))
    return out


def lemmas_fp_transition():
    """C01's tolerated defect: for the columns next to the zero-energy bin (where the one-sided cubic
    stencil switches sides) the column sum deviates from 1 by at most e1 (the per-step decrement)"""
    ptz, d, e1 = z3.Reals('ptz d e1')
    out = []
    for ft in (0, 1, 2, 3):
        A = 1 if ft in (1, 3) else 0
        B = 1 if ft in (2, 3) else 0
        for c in (-3, -2, -1, 0, 1, 2):
            m0 = z3.RealVal(0)
            for y in (-2, -1, 0, 1, 2):
                kind = 'lo' if c + y < 0 else 'hi'
                w = fp_row_weights(kind, A, B, ptz + (c + y) * d, d, e1).get(-y)
                if w is not None:
                    m0 = m0 + w
            pre = And(d > 0, e1 > 0, ptz > -d, ptz <= 0)
            out.append((f'FP.m0.transition.{ft}.{c}', {'C01'}, Implies(pre, And(m0 - 1 <= e1, 1 - m0 <= e1))))
    return out


# =========================================================================== U9 FokkerPlanckMap::apply
def FP_valid(cx):
    nx, ny, nb = ps_globals(cx)
    ip = cx.f('this._ip', 'u8')
    return And(PS_static(cx), Or(ip == 3, ip == 4), cx.f('this._ysize') == ny, cx.f('this._meshxsize') == nx,
               cx.len('this._hinfo') >= ny * ip)


class FokkerPlanckApply(Contract):
    name = 'vfps::FokkerPlanckMap::apply'
    tu = 'src/SM/FokkerPlanckMap.cpp'
    params = []
    tags = {'C01', 'C04', 'C08', 'C12'}
    ghosts = {'n': 'int', 'x': 'int', 'y': 'int'}
    uf_mul = True

    def setup(self, cx):
        t = cx.this or 'this'
        cx.st.assume(declare_ps(cx, t + '._in'))
        cx.st.assume(declare_ps(cx, t + '._out'))

    def requires(self, cx):
        tab = ElemInv('this._hinfo', 'index', 'int',
                      lambda c, k, v: Implies(And(k >= 0, k < c.f('this._ysize') * c.f('this._ip', 'u8')), v < c.f('this._ysize')))
        return [('valid', FP_valid(cx)), ('table', tab)]

    def assigns(self, cx):
        return [('r', (cx.this or 'this') + '._out._data')]

    def ensures(self, cx):
        nx, ny, nb = ps_globals(cx)
        ip = cx.f('this._ip', 'u8')
        n, x, y = cx.g('n'), cx.g('x'), cx.g('y')
        rng = And(n >= 0, n < nb, x >= 0, x < nx, y >= 0, y < ny)
        din, dout = cx.old.arr('this._in._data'), cx.arr('this._out._data')
        tot = z3.RealVal(0)
        for j in range(4):
            idx = cx.sel('this._hinfo', y * ip + j, 'index', 'int')
            w = cx.sel('this._hinfo', y * ip + j, 'weight')
            tot = tot + If(j < ip, models.FMUL(z3.Select(din, n * nx * ny + x * ny + idx), w), z3.RealVal(0))
        return [('form', {'C01', 'C04', 'C08'}, Implies(rng, z3.Select(dout, n * nx * ny + x * ny + y) == tot)),
                ('in_unchanged', {'C08', 'C12'}, din == cx.arr('this._in._data')),
                ('table_unchanged', {'C08', 'C12'}, And(cx.arr('this._hinfo', 'index', 'int') == cx.old.arr('this._hinfo', 'index', 'int'),
                                                        cx.arr('this._hinfo', 'weight') == cx.old.arr('this._hinfo', 'weight')))]

    def _done(self, cx, before):
        lab, tg, f = self.ensures(cx)[0]
        return [(lab, Implies(before, f))]

    def _frame(self, cx):
        return [('in_unchanged', cx.old.arr('this._in._data') == cx.arr('this._in._data'))]

    def _inv_n(self, cx):
        n = cx.v('n')
        return [('range', And(n >= 0, n <= cx.f(PS_NB)))] + self._done(cx, cx.g('n') < n) + self._frame(cx)

    def _inv_x(self, cx):
        nx, ny, nb = ps_globals(cx)
        n, x = cx.v('n'), cx.v('x')
        gn, gx = cx.g('n'), cx.g('x')
        return [('range', And(n >= 0, n < nb, x >= 0, x <= nx)), ('offs1', cx.v('offs1') == n * nx * ny)] + \
            self._done(cx, Or(gn < n, And(gn == n, gx < x))) + self._frame(cx)

    def _inv_y(self, cx):
        nx, ny, nb = ps_globals(cx)
        n, x, y = cx.v('n'), cx.v('x'), cx.v('y')
        gn, gx, gy = cx.g('n'), cx.g('x'), cx.g('y')
        return [('range', And(n >= 0, n < nb, x >= 0, x < nx, y >= 0, y <= ny)),
                ('offs1', cx.v('offs1') == n * nx * ny), ('offs', cx.v('offs') == n * nx * ny + x * ny)] + \
            self._done(cx, Or(gn < n, And(gn == n, gx < x), And(gn == n, gx == x, gy < y))) + self._frame(cx)

    @property
    def loops(self):
        ly = LoopSpec(inv=self._inv_y, hints=KickMapApply._hints_y.__get__(self))
        ly.split = KickMapApply._split_y.__get__(self)
        return {'n#0': LoopSpec(inv=self._inv_n), 'x#0': LoopSpec(inv=self._inv_x), 'y#0': ly, 'j#0': LoopSpec(unroll=4)}


# =========================================================================== U10 FokkerPlanckMap::applyTo
class FokkerPlanckApplyTo(Contract):
    name = 'vfps::FokkerPlanckMap::applyTo'
    tu = 'src/SM/FokkerPlanckMap.cpp'
    params = ['pos']
    ref_params = ['pos']
    tags = {'C15', 'C17'}
    cases = [{}]

    pos = KickMapApplyTo.pos

    def setup(self, cx):
        t = cx.this or 'this'
        cx.st.assume(declare_ps(cx, t + '._in'))
        alias_axes(cx)
        nx, ny, nb = ps_globals(cx)
        cx.st.assume(And(Ruler_valid(cx, t + '._in._axis[0]', nx), Ruler_valid(cx, t + '._in._axis[1]', ny)))

    def requires(self, cx):
        nx, ny, nb = ps_globals(cx)
        px, py = self.pos(cx, 'x'), self.pos(cx, 'y')
        n1 = z3.ToReal(ny) - 1
        tab = ElemInv('this._hinfo', 'index', 'int',
                      lambda c, k, v: Implies(And(k >= 0, k < c.f('this._ysize') * c.f('this._ip', 'u8')), v < c.f('this._ysize')))
        ft = cx.f('this._fptrack', 'u8')
        zb = cx.rf((cx.this or 'this') + '._in._axis[1]._zerobin')
        return [('valid', FP_valid(cx)), ('table', tab), ('fptrack', And(ft >= 0, ft <= 3)),
                ('e1', And(cx.rf('this._dampdecr') > 0, cx.rf('this._dampdecr') < 1)),
                ('ongrid', And(px >= 0, px <= n1, py >= 0, py <= n1))]

    def assigns(self, cx):
        p = cx.arg('pos')
        name = p.ref.name if hasattr(p, 'ref') else p.name
        return [('s', name + '.y')]

    def ensures(self, cx):
        nx, ny, nb = ps_globals(cx)
        px, py = self.pos(cx, 'x'), self.pos(cx, 'y')
        ox, oy = self.pos(cx.old, 'x'), self.pos(cx.old, 'y')
        n1 = z3.ToReal(ny) - 1
        ft = cx.f('this._fptrack', 'u8')
        zb = cx.rf((cx.this or 'this') + '._in._axis[1]._zerobin')
        e1 = cx.rf('this._dampdecr')
        out = [('ongrid', {'C15', 'C17'}, And(py >= 0, py <= n1)),
               ('x_untouched', {'C15'}, px == ox),
               ('none', {'C15'}, Implies(ft == 0, py == oy))]
        if cx.ex.randoms:
            xi = cx.ex.randoms[-1]
            raw = oy - ((oy - zb) * e1 + xi)       # Ornstein-Uhlenbeck step about the zero-energy bin
            out.append(('stochastic_ou', {'C15'}, Implies(ft == 3, py == If(raw < 1, z3.RealVal(1), If(raw > n1, n1, raw)))))
        return out

    loops = {'j#0': LoopSpec(unroll=4), 'j#1': LoopSpec(unroll=4)}


# =========================================================================== lemma layer (pure, over contract symbols)
def lemmas_c01_col():
    """C01.col: a source cell s on a grid line whose table row has integer origin T (= trunc(N/2+offset))
    hands weight j to destination d_j = s - (T + node_j - N/2); if the displaced support stays
    `it` cells clear of the border every d_j is a grid cell, so the column sum is sum_j W_j = 1."""
    s, T, N = z3.Ints('s T N')
    out = []
    for it in (1, 2, 3, 4):
        for j in range(it):
            d = s - (T + NODES[it][j] - N / 2)
            interior = And(N >= 2, s >= it, s <= N - 1 - it, s - (T - N / 2) >= it, s - (T - N / 2) <= N - 1 - it)
            # the table stores source lines relative to the grid centre: representable iff 0 <= T+node < N
            representable = And(T + NODES[it][0] >= 0, T + NODES[it][it - 1] < N)
            out.append((f'C01.col.{it}.{j}', {'C01'}, Implies(And(interior, representable), And(d >= 0, d < N))))
            out.append((f'C01.col.anyoffset.{it}.{j}', {'C01'}, Implies(interior, And(d >= 0, d < N, T + NODES[it][j] >= 0, T + NODES[it][j] < N))))
    return out


def lemmas_c08():
    n, lb, pd, x = z3.Ints('n lb pd x')
    return [('C08.shared_rows', {'C08'},
             Implies(And(lb == 0, n >= 0), If(n < lb, n, lb) * pd + x == x))]


def lemmas_c03():
    """kick-drift centroid map (q,p) -> (q - th*(p + t*q), p + t*q): area preserving, trace 2 - th*t,
    independent of the grid shift because positions are measured from the zero bin (Ruler contract: at(zerobin)=0)"""
    th, t, q, p = z3.Reals('th t q p')
    p1 = p + t * q
    q1 = q - th * p1
    a, b, c, d = 1 - th * t, -th, t, z3.RealVal(1)
    out = [('C03.M.form', {'C03'}, And(q1 == a * q + b * p, p1 == c * q + d * p)),
           ('C03.M.det', {'C03'}, a * d - b * c == 1),
           ('C03.M.trace', {'C03'}, a + d == 2 - th * t)]
    # RF and drift offsets (in cells) as displacement of the charge in normalised units
    zb, x, dq, mn = z3.Reals('zb x dq mn')
    qx = mn + x * dq
    out.append(('C03.rf.units', {'C03'}, Implies(And(dq > 0, mn + zb * dq == 0), -(t * (zb - x)) * dq == t * qx)))
    return out


def lemmas_c04():
    """scalar recurrence of the second moment under one damping/diffusion step"""
    v, e, c, D = z3.Reals('v e c D')
    vstar = 1 - c * D * D / 2
    v1 = (1 - 2 * e) * v + 2 * e - c * e * D * D
    pre = And(e > 0, e < z3.RealVal(1) / 2, c >= 0, c <= 1)
    return [('C04.rec.fixed', {'C04'}, Implies(pre, z3.substitute(v1, (v, vstar)) == vstar)),
            ('C04.rec.contract', {'C04'}, Implies(pre, v1 - vstar == (1 - 2 * e) * (v - vstar))),
            ('C04.rec.monotone', {'C04'}, Implies(And(pre, v > vstar), And(v1 < v, v1 > vstar))),
            ('C04.damping_only', {'C04'}, Implies(And(pre, v > 0), (1 - 2 * e) * v - c * e * D * D < v)),
            ('C04.diffusion_only', {'C04'}, Implies(pre, v + 2 * e > v))]


# =========================================================================== U7a constructors of the wake maps
class WakeKickMapCtor(Contract):
    """WakeKickMap(in, out, it, interpol_clamp, oclh): a KickMap in energy direction whose table has ONE ROW SET PER BUNCH
    (_lastbunch == nb-1): every bunch is kicked by its own wake potential (C05/C08); the shared-row shortcut is the RF map's"""
    name = 'vfps::WakeKickMap::WakeKickMap'
    tu = 'src/SM/WakeKickMap.cpp'
    params = ['in', 'out', 'it', 'interpol_clamp', 'oclh']
    tags = {'C05', 'C08', 'C17'}
    ghosts = {'k': 'int'}

    def requires(self, cx):
        nx, ny, nb = ps_globals(cx)
        it = cx.a('it')
        return [('static', PS_static(cx)), ('it', And(it >= 1, it <= 4)), ('tablefits', nx * nb * 4 < 2 ** 32)]

    def assigns(self, cx):
        return [('s', 'this.*'), ('r', 'this._hinfo'), ('r', 'this._offset'), ('len', 'this._offset')]

    def effect(self, cx):
        KickMapCtor.effect(self, cx)

    @property
    def calls(self):
        return {'ctor:vfps::KickMap': Use(KickMapCtor(), inst=lambda cx: [{'k': cx.ghost_of('k')}])}

    def ensures(self, cx):
        nx, ny, nb = ps_globals(cx)
        k = cx.g('k')
        return [('valid', {'C17', 'C08'}, KM_valid(cx)),
                ('energy_direction', {'C05', 'C08'}, cx.f('this._kickdirection', 'u8') == 1),
                ('one_row_set_per_bunch', {'C05', 'C08'}, cx.f('this._lastbunch') == nb - 1),
                ('offset_zero', {'C08'}, Implies(And(k >= 0, k < nx * nb), cx.sel('this._offset', k) == 0))]


class WakePotentialMapCtor(WakeKickMapCtor):
    """WakePotentialMap(in, out, field, it, interpol_clamp, oclh): the same, bound to the field it takes the wake potential from"""
    name = 'vfps::WakePotentialMap::WakePotentialMap'
    tu = 'src/SM/WakePotentialMap.cpp'
    params = ['in', 'out', 'field', 'it', 'interpol_clamp', 'oclh']

    @property
    def calls(self):
        return {'ctor:vfps::WakeKickMap': Use(WakeKickMapCtor(), inst=lambda cx: [{'k': cx.ghost_of('k')}])}


class WakeMapsKeepOwnRows(Contract):
    """Facts of the real AST, for code shapes the constructor contracts above cannot execute: nothing in WakeKickMap.cpp /
    WakePotentialMap.cpp writes KickMap::_lastbunch -- it keeps the value the KickMap constructor gives it (nb-1, contract
    KickMapCtor#lastbunch): one row set per bunch.  (The RF map sets it to 0 on purpose: RFKickMapLinearCtor#shared_map.)"""
    name = 'vfps::WakePotentialMap::*'
    tu = 'src/SM/WakePotentialMap.cpp'
    tags = {'C05', 'C08'}

    def custom_verify(self, scratch, tc):
        from vf.vcg import Exec
        from vf.state import Obligation
        from vf.unit import _walk
        from vf.ast import line_of
        writes = []
        sha = None
        for rel in ('src/SM/WakePotentialMap.cpp', 'src/SM/WakeKickMap.cpp'):
            tu = tc.get(rel)
            sha = sha or tu.sha
            for q, fl in tu.funcs.items():
                if not (q.startswith('vfps::WakePotentialMap::') or q.startswith('vfps::WakeKickMap::')):
                    continue
                for f in fl:
                    for n in _walk(f):
                        if n.get('kind') in ('BinaryOperator', 'CompoundAssignOperator') and (n.get('opcode') or '').endswith('=') and n.get('opcode') not in ('==', '!=', '<=', '>='):
                            lhs = n['inner'][0]
                            if any(x.get('kind') == 'MemberExpr' and x.get('name') == '_lastbunch' for x in _walk(lhs)):
                                writes.append((rel, line_of(n)))
                        if n.get('kind') == 'UnaryOperator' and n.get('opcode') in ('++', '--') and any(x.get('kind') == 'MemberExpr' and x.get('name') == '_lastbunch' for x in _walk(n)):
                            writes.append((rel, line_of(n)))
                        if n.get('kind') == 'CXXCtorInitializer' and (n.get('anyInit') or {}).get('name') == '_lastbunch':
                            writes.append((rel, line_of(n)))
        tu0 = tc.get(self.tu)
        ex = Exec(tu0, None, 'WakePotentialMap')
        ex.default_tags = set(self.tags)
        ex.obls = [Obligation('WakePotentialMap#rows.one_row_set_per_bunch_is_kept', {'C05', 'C08'}, [], z3.BoolVal(not writes), 'postcondition', None,
                              f'writes to KickMap::_lastbunch in the wake maps: {writes}'),
                   Obligation('WakePotentialMap#canary', set(), [], z3.BoolVal(False), 'canary', None, '')]
        return [ex], {'unit': self.name, 'file': self.tu + ' + src/SM/WakeKickMap.cpp', 'sha': sha, 'cases': 1, 'lines': [None, None], 'extract_s': 0}


# =========================================================================== U7 WakePotentialMap::update
class WakePotentialMapUpdate(Contract):
    name = 'vfps::WakePotentialMap::update'
    tu = 'src/SM/WakePotentialMap.cpp'
    params = []
    tags = {'C05', 'C08', 'C17'}
    ghosts = {'k': 'int', 'e': 'int'}

    def setup(self, cx):
        from . import ef
        ccx = Ctx(cx.ex, cx.st, cx._old, cx.args, this='*' + (cx.this or 'this') + '._field')
        ef.ef_setup(ccx)

    def requires(self, cx):
        from . import ef
        nx, ny, nb = ps_globals(cx)
        ccx = Ctx(cx.ex, cx.st, cx._old, cx.args, this='*' + (cx.this or 'this') + '._field')
        return [('valid', KM_valid(cx)), ('xsize', cx.f('this._xsize') == nx), ('field', ef.EF_valid(ccx)),
                ('field_ready', And(ef.PadBunchProfiles().distinct(ccx)))]

    def assigns(self, cx):
        it, ip, kd, pd = KM_fields(cx)
        t = cx.this or 'this'
        f = '*' + t + '._field'
        from . import ef
        return [('r', t + '._offset'), ('r', t + '._hinfo', I(0), cx.len('this._offset') * ip)] + \
               [('r', f + r_[4:]) for r_ in (ef.BP, ef.FF, ef.WL, ef.WPP, 'this._wakepotential')]

    def ensures(self, cx):
        nx, ny, nb = ps_globals(cx)
        k, e = cx.g('k'), cx.g('e')
        t = cx.this or 'this'
        wp = cx.arr('*' + t + '._field._wakepotential')
        offs = cx.arr('this._offset')
        inr = And(k >= 0, k < nb * nx)
        # bunch b, column x receives exactly the wake potential computed for bunch b, column x: same sign, same scale
        return [('copy', {'C05', 'C08'}, Implies(inr, z3.Select(offs, k) == z3.Select(wp, k))),
                ('table', {'C05', 'C08'}, Implies(And(inr, e >= 0, e < cx.f('this._it', 'u8')), row_spec(cx, k, e, offs)))]

    @property
    def calls(self):
        from . import ef

        class WPUse(ef.WakePotential):
            def requires(s_, cx):
                return [('valid', ef.EF_valid(cx)), ('distinct', ef.PadBunchProfiles().distinct(cx))]
        return {'vfps::ElectricField::wakePotential': Use(WPUse()),
                'vfps::KickMap::updateSM': Use(UpdateSM(), inst=lambda cx: [{'g': cx.ghost_of('k'), 'e': cx.ghost_of('e')}])}
