"""Contracts for the source-map classes (src/SM, inc/SM)."""
from .common import *


# =========================================================================== U1
class CalcCoefficiants(Contract):
    name = 'vfps::SourceMap::calcCoefficiants'
    tu = 'src/SM/SourceMap.cpp'
    params = ['ic', 'f', 'it']
    tags = {'C01', 'C02', 'C03'}

    def requires(self, cx):
        ic, it = cx.arg('ic'), cx.a('it')
        return [('it', And(it >= 1, it <= 4)),
                ('room', And(ic.off >= 0, ic.off + it <= cx.st.len_of(ic.region)))]

    def assigns(self, cx):
        ic, it = cx.arg('ic'), cx.a('it')
        return [('r', ic.region, ic.off, ic.off + it)]

    def ensures(self, cx):
        ic, f, it = cx.arg('ic'), cx.a('f'), cx.a('it')
        out = []
        for j in range(4):
            out.append((f'weight{j}', {'C01', 'C02', 'C03'},
                        Implies(it > j, cx.psel(ic, j) == W(it, j, f))))
        return out


def lemmas_weights():
    """pure facts about the Lagrange weights the contracts are stated with (C01/C02):
    partition of unity, reproduction of monomials below the order, unit vector at f=0"""
    f = z3.Real('f')
    x0 = z3.Real('x0')
    out = []
    for n in (1, 2, 3, 4):
        ws = [lagrange(n, j, f) for j in range(n)]
        out.append((f'W.partition.{n}', {'C01', 'C02'}, sum(ws) == 1))
        for k in range(1, n):
            out.append((f'W.moment.{n}.{k}', {'C02', 'C03', 'C15'},
                        sum(w * (x0 + NODES[n][j]) ** k for j, w in enumerate(ws)) == (x0 + f) ** k))
        for j in range(n):
            out.append((f'W.unit_at_0.{n}.{j}', {'C02'},
                        z3.substitute(ws[j], (f, z3.RealVal(0))) == (1 if NODES[n][j] == 0 else 0)))
    return out


# =========================================================================== KickMap invariants
def KM_fields(cx):
    it, ip = cx.f('this._it', 'u8'), cx.f('this._ip', 'u8')
    kd, pd = cx.f('this._meshsize_kd'), cx.f('this._meshsize_pd')
    return it, ip, kd, pd


def KM_valid(cx):
    """what the KickMap constructor establishes"""
    it, ip, kd, pd = KM_fields(cx)
    nx, ny, nb = ps_globals(cx)
    return And(PS_static(cx), it >= 1, it <= 4, ip == it, kd == nx, pd == nx,
               cx.len('this._offset') == pd * nb,
               cx.len('this._hinfo') >= pd * nb * ip, pd * nb * ip < 2 ** 32,
               cx.f('this._lastbunch') < nb)


def KM_table(cx, k):
    """entry k of the table refers to an existing grid line"""
    return cx.sel('this._hinfo', k, 'index', 'int') < cx.f('this._meshsize_kd')


def row_spec(cx, g, e, offs_arr):
    """what table entry e of row g must be, from the statement of C02:
    integer part of (kd/2 + offset) selects the stencil origin, the fractional part the weights;
    a node outside the grid carries zero weight."""
    it, ip, kd, pd = KM_fields(cx)
    P = z3.ToReal(kd / 2) + z3.Select(offs_arr, g)
    T = If(P >= 0, z3.ToInt(P), -z3.ToInt(-P))
    idx = T + node(it, e)
    hidx = cx.sel('this._hinfo', g * ip + e, 'index', 'int')
    hw = cx.sel('this._hinfo', g * ip + e, 'weight')
    ongrid = And(T >= 0, T < kd, idx >= 0, idx < kd)
    return If(ongrid, And(hidx == idx, hw == W(it, e, P - z3.ToReal(T))),
              And(hw == 0, hidx < kd))


def small(model, key, lo, hi, dflt):
    v = model.get(key)
    if isinstance(v, int) and lo <= v <= hi:
        return v
    return dflt


def kick_replay(model):
    """native runs of the real KickMap on the counterexample's sizes (clipped to replayable ones)
    plus neighbouring small configurations"""
    N = small(model, 'vfps::PhaseSpace::_nmeshcellsX', 4, 48, 9)
    nb = small(model, 'vfps::PhaseSpace::_nbunches', 1, 4, 3)
    it = small(model, 'this._it', 1, 4, 3)
    ax = small(model, 'this._kickdirection', 0, 1, 1)
    lb = small(model, 'this._lastbunch', 0, nb - 1, -1)
    runs = [['kick', N, nb, it, ax, lb, 1]]
    for n2 in (2, 3):
        for it2 in (it, 4, 2):
            for ax2 in (ax, 1 - ax):
                for lb2 in (-1, 0):
                    r = ['kick', 9, n2, it2, ax2, lb2, 2]
                    if r not in runs:
                        runs.append(r)
    return {'harness': 'sm_replay', 'runs': runs}


# =========================================================================== U2
class UpdateSM(Contract):
    name = 'vfps::KickMap::updateSM'
    tu = 'src/SM/KickMap.cpp'
    params = []
    tags = {'C01', 'C02', 'C08', 'C15'}
    ghosts = {'g': 'int', 'e': 'int'}

    def requires(self, cx):
        return [('valid', KM_valid(cx))]

    def assigns(self, cx):
        it, ip, kd, pd = KM_fields(cx)
        return [('r', 'this._hinfo'.replace('this', cx.this or 'this'), I(0), cx.len('this._offset') * ip)]

    def ghost_range(self, cx):
        it, ip, kd, pd = KM_fields(cx)
        g, e = cx.g('g'), cx.g('e')
        return And(g >= 0, g < cx.len('this._offset'), e >= 0, e < it)

    def ensures(self, cx):
        g, e = cx.g('g'), cx.g('e')
        offs = cx.arr('this._offset')
        return [('row', {'C01', 'C02', 'C08', 'C15'}, Implies(self.ghost_range(cx), row_spec(cx, g, e, offs))),
                ('offset_unchanged', {'C08'}, offs == cx.old.arr('this._offset'))]

    def _inv_outer(self, cx):
        i = cx.v('i')
        g, e = cx.g('g'), cx.g('e')
        it, ip, kd, pd = KM_fields(cx)
        return [('range', And(i >= 0, i <= cx.len('this._offset'))),
                ('scratch', And(cx.st.len_of('new:ph') == it, cx.st.len_of('new:smc') == it)),
                ('done', Implies(And(self.ghost_range(cx), g < i), row_spec(cx, g, e, cx.arr('this._offset'))))]

    def _inv_inner(self, cx, valid):
        i, j1 = cx.v('i'), cx.v('j1')
        g, e = cx.g('g'), cx.g('e')
        it, ip, kd, pd = KM_fields(cx)
        out = [('range', And(j1 >= 0, j1 <= it)),
               ('outer', And(i >= 0, i < cx.len('this._offset'))),
               ('done', Implies(And(self.ghost_range(cx), g < i), row_spec(cx, g, e, cx.arr('this._offset')))),
               ('cur', Implies(And(self.ghost_range(cx), g == i, e < j1), row_spec(cx, g, e, cx.arr('this._offset'))))]
        return out

    @property
    def loops(self):
        return {'i#0': LoopSpec(inv=self._inv_outer),
                'j1#0': LoopSpec(inv=lambda cx: self._inv_inner(cx, True)),
                'j1#1': LoopSpec(inv=lambda cx: self._inv_inner(cx, False))}

    calls = {'vfps::SourceMap::calcCoefficiants': Use(CalcCoefficiants())}


# =========================================================================== U3
def stencil_sum(cx, data, base_of_src, ok_of_src, row, ip, ipmax=4):
    """sum_j [src_j on grid] data[src_j] * w_j  over the ip entries of table row `row`"""
    kd = cx.f('this._meshsize_kd')
    total = z3.RealVal(0)
    for j in range(ipmax):
        idx = cx.sel('this._hinfo', row * ip + j, 'index', 'int')
        w = cx.sel('this._hinfo', row * ip + j, 'weight')
        s = idx - kd / 2          # displacement in cells
        total = total + If(And(j < ip, ok_of_src(s)), models.FMUL(z3.Select(data, base_of_src(s)), w), z3.RealVal(0))
    return total


class KickMapApply(Contract):
    name = 'vfps::KickMap::apply'
    tu = 'src/SM/KickMap.cpp'
    params = []
    tags = {'C01', 'C02', 'C08', 'C12'}
    ghosts = {'n': 'int', 'x': 'int', 'y': 'int'}
    uf_mul = True      # posts are structural: data*weight only needs congruence

    def setup(self, cx):
        cx.st.assume(declare_ps(cx, (cx.this or 'this') + '._in'))
        cx.st.assume(declare_ps(cx, (cx.this or 'this') + '._out'))

    def requires(self, cx):
        it, ip, kd, pd = KM_fields(cx)
        k = z3.Int('k!tab')
        # every table entry refers to a grid line (established by updateSM, see UpdateSM.ensures)
        tab = z3.ForAll([k], Implies(And(k >= 0, k < pd * cx.f(PS_NB) * ip), KM_table(cx, k)))
        return [('valid', KM_valid(cx)), ('table', tab)]

    def assigns(self, cx):
        t = cx.this or 'this'
        return [('r', t + '._out._data')]

    def ensures(self, cx):
        it, ip, kd, pd = KM_fields(cx)
        nx, ny, nb = ps_globals(cx)
        n, x, y = cx.g('n'), cx.g('x'), cx.g('y')
        rng = And(n >= 0, n < nb, x >= 0, x < nx, y >= 0, y < ny)
        din = cx.old.arr('this._in._data')
        dout = cx.arr('this._out._data')
        cell = n * nx * ny + x * ny + y
        isx = cx.f('this._kickdirection', 'u8') == 0
        # x kick: table row y (shared by all bunches); source (x+s, y)
        sx = stencil_sum(cx, din, lambda s: n * nx * ny + (x + s) * ny + y, lambda s: And(x + s >= 0, x + s < nx), y, ip)
        # y kick: table row of bunch min(n,_lastbunch), coordinate x; source (x, y+s)
        row = If(n < cx.f('this._lastbunch'), n, cx.f('this._lastbunch')) * pd + x
        sy = stencil_sum(cx, din, lambda s: n * nx * ny + x * ny + (y + s), lambda s: And(y + s >= 0, y + s < ny), row, ip)
        return [('x.form', {'C01', 'C02', 'C08'}, Implies(And(rng, isx), z3.Select(dout, cell) == sx)),
                ('y.form', {'C01', 'C02', 'C08'}, Implies(And(rng, Not(isx)), z3.Select(dout, cell) == sy)),
                ('in_unchanged', {'C08', 'C12'}, din == cx.arr('this._in._data')),
                ('table_unchanged', {'C08', 'C12'}, And(cx.arr('this._hinfo', 'index', 'int') == cx.old.arr('this._hinfo', 'index', 'int'),
                                                        cx.arr('this._hinfo', 'weight') == cx.old.arr('this._hinfo', 'weight')))]

    def replay(self, o, model, pid):
        return kick_replay(model)

    # ---- loop invariants: cells before (n,x,y) in iteration order are final
    def _done(self, cx, before):
        """ghost cell already written => it has its final value"""
        posts = self.ensures(cx)
        nx, ny, nb = ps_globals(cx)
        return [(lab, Implies(before, f)) for lab, tg, f in posts[:2]]

    def _ranges(self, cx, names):
        nx, ny, nb = ps_globals(cx)
        lim = {'n': nb, 'x': nx, 'y': ny}
        out = []
        for i, nm in enumerate(names):
            v = cx.v(nm)
            last = (i == len(names) - 1)
            out.append(And(v >= 0, v <= lim[nm]) if last else And(v >= 0, v < lim[nm]))
        return And(*out)

    def _frame(self, cx):
        return [('in_unchanged', cx.old.arr('this._in._data') == cx.arr('this._in._data'))]

    def _inv_n(self, cx):
        n = cx.v('n')
        return [('range', self._ranges(cx, ['n']))] + self._done(cx, cx.g('n') < n) + self._frame(cx)

    def _inv_x(self, cx):
        n, x = cx.v('n'), cx.v('x')
        gn, gx = cx.g('n'), cx.g('x')
        nx, ny, nb = ps_globals(cx)
        offs = [('offs', cx.v('offs') == n * nx * ny)] if self._has(cx, 'offs') and not self._has(cx, 'offs1') else []
        offs += [('offs1', cx.v('offs1') == n * nx * ny)] if self._has(cx, 'offs1') else []
        offs += [('offs2', cx.v('offs2') == If(n < cx.f('this._lastbunch'), n, cx.f('this._lastbunch')) * nx)] if self._has(cx, 'offs2') else []
        return [('range', self._ranges(cx, ['n', 'x']))] + offs + \
            self._done(cx, Or(gn < n, And(gn == n, gx < x))) + self._frame(cx)

    def _inv_y(self, cx):
        n, x, y = cx.v('n'), cx.v('x'), cx.v('y')
        gn, gx, gy = cx.g('n'), cx.g('x'), cx.g('y')
        nx, ny, nb = ps_globals(cx)
        offs = []
        if self._has(cx, 'offs1'):
            offs = [('offs1', cx.v('offs1') == n * nx * ny), ('offs', cx.v('offs') == n * nx * ny + x * ny),
                    ('offs2', cx.v('offs2') == If(n < cx.f('this._lastbunch'), n, cx.f('this._lastbunch')) * nx)]
        else:
            offs = [('offs', cx.v('offs') == n * nx * ny)]
        return [('range', self._ranges(cx, ['n', 'x', 'y']))] + offs + \
            self._done(cx, Or(gn < n, And(gn == n, gx < x), And(gn == n, gx == x, gy < y))) + self._frame(cx)

    def _hints_y(self, cx, cxb):
        """cells are visited in increasing flat order: (gn,gx,gy) before (n,x,y) => cell(g) < cell(cur)"""
        n, x, y = cxb.v('n'), cxb.v('x'), cxb.v('y')
        gn, gx, gy = cx.g('n'), cx.g('x'), cx.g('y')
        nx, ny, nb = ps_globals(cx)
        before = Or(gn < n, And(gn == n, gx < x), And(gn == n, gx == x, gy < y))
        inr = And(gn >= 0, gx >= 0, gx < nx, gy >= 0, gy < ny)
        cg = gn * nx * ny + gx * ny + gy
        cc = n * nx * ny + x * ny + y
        return [('p1', Implies(n - gn - 1 >= 0, (n - gn - 1) * (nx * ny) >= 0)),
                ('p2', Implies(inr, (nx - 1 - gx) * ny >= 0)),
                ('p3', Implies(x - gx - 1 >= 0, (x - gx - 1) * ny >= 0)),
                ('lex', Implies(And(inr, before), cg < cc))]

    def _split_y(self, cx, cxb):
        n, x, y = cxb.v('n'), cxb.v('x'), cxb.v('y')
        same = And(cx.g('n') == n, cx.g('x') == x, cx.g('y') == y)
        return [('cur', same), ('earlier', Not(same))]

    @staticmethod
    def _has(cx, name):
        return any(nm == name and vid in cx.st.env for vid, nm in cx.st.names.items())

    @property
    def loops(self):
        d = {}
        for k in (0, 1):
            d[f'n#{k}'] = LoopSpec(inv=self._inv_n)
            d[f'x#{k}'] = LoopSpec(inv=self._inv_x)
            d[f'y#{k}'] = LoopSpec(inv=self._inv_y, hints=self._hints_y)
            d[f'y#{k}'].split = self._split_y
            d[f'j#{k}'] = LoopSpec(unroll=4)
        return d
