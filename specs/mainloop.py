"""Control skeleton of main()'s simulation loop and final-record block (U24).

Every call in the loop is bound to an *event contract*: its effect on an abstract state whose
locations are the data the properties talk about (grid contents, projections, moments, tables,
tracked particles, file record counters).  Transformations are uninterpreted functions of exactly
the locations the callee's verified contract reads, so equality of two abstract values means
"computed from the same inputs by the same operations"."""
from .common import *

RS = z3.RealSort()
G = 'ghost.'

# abstract locations
LOCS = ['D1', 'D2', 'D3', 'P0', 'P1', 'FIL', 'MOM', 'OFFW', 'TRK', 'CSR', 'RFQ', 'RFOFF']
COUNTERS = ['rows_time', 'rows_ps', 'rows_csr', 'rows_wake', 'rows_trk', 'rows_rf', 'rf_pending', 'rf_applied', 'final_appends', 'phase_after_loop']


def U(name, arity):
    return z3.Function('ev_' + name, *([RS] * (arity + 1)))


def loc(cx, l):
    p = G + l
    if p not in cx.st.scal:
        cx.st.scal[p] = RealV(z3.Real(p))
    return cx.st.scal[p].t


def setloc(cx, l, t):
    cx.st.scal[G + l] = RealV(t)
    cx.ex.logw(('s', G + l))


def cnt(cx, c):
    p = G + c
    if p not in cx.st.scal:
        cx.st.scal[p] = IntV(z3.Int(p), parse_type_str('long'))
        cx.st.assume(cx.st.scal[p].t >= 0)
    return cx.st.scal[p].t


def setcnt(cx, c, t):
    cx.st.scal[G + c] = IntV(t, parse_type_str('long'))
    cx.ex.logw(('s', G + c))


class Event:
    """call-site contract given as a state transformer; records the event name along the path"""

    def __init__(self, name, fn=None, ret=None):
        self.name, self.fn, self.ret = name, fn, ret

    def __call__(self, ex, n, st, objn, argn, this_override=None):
        recv = None
        if objn is not None:
            try:
                recv = ex.ev_obj(objn, st)
            except ExtractionError:
                recv = None
        args = []
        for a in argn:
            try:
                ct = parse_type(a.get('type'))
                args.append(ex.ev_obj(a, st) if ct.kind == 'class' else ex.ev(a, st))
            except ExtractionError:
                args.append(Opaque('arg'))
        cx = Ctx(ex, st, ex.entry, ex.args0)
        if self.fn:
            r = self.fn(cx, recv, args)
            if r is not None:
                return r
        return self.ret if self.ret is not None else VoidV()


def recv_name(recv):
    return getattr(recv, 'name', '?').replace('*', '').replace('arg:', '')


def ev_apply(cx, recv, args):
    """SourceMap::apply of the four maps, identified by the variable holding them; each reads its
    input grid and its table/offsets, writes its output grid (contracts U3/U9/U11/U22)"""
    nm = recv_name(recv)
    if nm == 'wm':
        setloc(cx, 'D2', U('wake_apply', 2)(loc(cx, 'D1'), loc(cx, 'OFFW')))
    elif nm in ('rfm', 'drfm'):
        setloc(cx, 'D1', U('rf_apply', 2)(loc(cx, 'D2'), loc(cx, 'RFQ')))
        isdyn = cx.args['drfm'].null if isinstance(cx.args.get('drfm'), ObjRef) and cx.args['drfm'].null is not None else None
        dyn = z3.Bool('drfm_set')
        # DynamicRFKickMap::apply() computes the kick offsets of THIS step from the front entry of the queue and leaves them in the
        # map (contract dynrf.DynApply: kick_uses_front); the tracked particles are kicked with whatever offsets the map holds
        setloc(cx, 'RFOFF', If(dyn, U('rf_kick_of', 1)(loc(cx, 'RFQ')), loc(cx, 'RFOFF')))
        setloc(cx, 'RFQ', If(dyn, U('rf_next', 1)(loc(cx, 'RFQ')), loc(cx, 'RFQ')))
        setcnt(cx, 'rf_pending', cnt(cx, 'rf_pending') + If(dyn, I(1), I(0)))
        setcnt(cx, 'rf_applied', cnt(cx, 'rf_applied') + If(dyn, I(1), I(0)))
    elif nm == 'drm':
        setloc(cx, 'D3', U('drift_apply', 1)(loc(cx, 'D1')))
    elif nm == 'fpm':
        setloc(cx, 'D1', U('fp_apply', 1)(loc(cx, 'D3')))
    else:
        raise ExtractionError(f'main: apply() on unknown map variable {nm}')


def ev_apply_to_all(cx, recv, args):
    """applyToAll(trackme): every particle is moved by the map's applyTo, which reads the map's current offsets (wake map: the
    wake potential of this step; RF map: the offsets left by its last apply()) or, for the charge-weighted Fokker-Planck model,
    the map's input grid (contracts sm.KickMapApplyTo / sm.FokkerPlanckApplyTo)"""
    nm = recv_name(recv)
    src = {'wm': 'OFFW', 'rfm': 'RFOFF', 'drfm': 'RFOFF', 'fpm': 'D3'}.get(nm)
    setloc(cx, 'TRK', U('track_' + ('rfm' if nm == 'drfm' else nm), 2)(loc(cx, 'TRK'), loc(cx, src) if src else z3.RealVal(0)))


def ev_wake_update(cx, recv, args):
    setloc(cx, 'OFFW', U('wake_update', 1)(loc(cx, 'P0')))


def ev_integrate(cx, recv, args):
    setloc(cx, 'FIL', U('integrate', 1)(loc(cx, 'P0')))


def ev_integrate_normalize(cx, recv, args):
    setloc(cx, 'FIL', U('integrate', 1)(loc(cx, 'P0')))
    setloc(cx, 'D1', U('normalize', 2)(loc(cx, 'D1'), loc(cx, 'FIL')))


def ev_variance(cx, recv, args):
    a = args[0].t if args and isinstance(args[0], IntV) else I(0)
    setloc(cx, 'MOM', U('variance', 4)(z3.ToReal(a), If(a == 0, loc(cx, 'P0'), loc(cx, 'P1')), loc(cx, 'FIL'), loc(cx, 'MOM')))


def ev_yproj(cx, recv, args):
    setloc(cx, 'P1', U('yproj', 1)(loc(cx, 'D1')))


def ev_xproj(cx, recv, args):
    setloc(cx, 'P0', U('xproj', 1)(loc(cx, 'D1')))


def ev_update_csr(cx, recv, args):
    setloc(cx, 'CSR', U('csr', 1)(loc(cx, 'P0')))
    return PtrV('csrspectrum', I(0))


def ev_append_ps(cx, recv, args):
    """HDF5File::append(ps, t, at): AppendType All=0? values are read from the enum in the AST"""
    at = args[2].t if len(args) > 2 and isinstance(args[2], IntV) else I(0)
    AT = cx.ex.enum_by_name
    isps = Or(at == AT['All'], at == AT['PhaseSpace'])
    notps = at != AT['PhaseSpace']
    setcnt(cx, 'rows_ps', cnt(cx, 'rows_ps') + If(isps, I(1), I(0)))
    setcnt(cx, 'rows_time', cnt(cx, 'rows_time') + If(notps, I(1), I(0)))
    setcnt(cx, 'final_appends', cnt(cx, 'final_appends') + If(And(notps, cnt(cx, 'phase_after_loop') == 1), I(1), I(0)))
    cx.st.scal[G + 'last_t'] = RealV(args[1].t if isinstance(args[1], RealV) else z3.ToReal(args[1].t))
    record_check(cx, 'population_of_current_profile', Implies(notps, loc(cx, 'FIL') == U('integrate', 1)(loc(cx, 'P0'))))
    fresh = loc(cx, 'P0') == U('xproj', 1)(loc(cx, 'D1'))
    try:
        renorm = And(cx.a('renormalize') > 0, cx.v('simulationstep') % cx.a('renormalize') == 0)
    except ExtractionError:
        if getattr(cx.ex, 'inline_depth', 0) > 0:
            # the record is appended inside a helper that main calls: the step counter is not in scope there, so whether this is a
            # renormalisation step cannot be told -- undecided, not "no renormalisation"
            raise ExtractionError('main: a record is appended inside a helper function; the step it belongs to is not visible there (the control skeleton has to be adapted)')
        renorm = z3.BoolVal(False)      # initial record, before the loop
    record_check(cx, 'bunch_profile_is_projection_of_stored_grid', Implies(notps, fresh))
    # the same statement away from renormalisation steps (see known_findings.json: region of the open finding)
    record_check(cx, 'bunch_profile_is_projection_outside_renormalisation', Implies(And(notps, Not(renorm)), fresh))
    record_check(cx, 'energy_profile_of_current_grid', Implies(notps, loc(cx, 'P1') == U('yproj', 1)(loc(cx, 'D1'))))
    cx.st.scal[G + 'last_data'] = RealV(U('record', 5)(loc(cx, 'D1'), loc(cx, 'P0'), loc(cx, 'P1'), loc(cx, 'MOM'), loc(cx, 'FIL')))


def record_check(cx, label, f):
    """obligation emitted at an append event: the quantity being recorded was computed from the current grid"""
    cx.ex.ev_n = getattr(cx.ex, 'ev_n', 0) + 1
    cx.ex.oblig(cx.st, f'record.{label}.L{cx.ex.curline}.{cx.ex.ev_n}', f, 'postcondition', {'C10'})


def ev_append_1(cx, recv, args):
    """HDF5File::append(const ElectricField*, bool=true) / append(const WakeKickMap*)"""
    a = args[0]
    nm = recv_name(a) if isinstance(a, ObjRef) else '?'
    if 'rdtn_field' in nm:
        setcnt(cx, 'rows_csr', cnt(cx, 'rows_csr') + 1)
        record_check(cx, 'csr_of_current_profile', loc(cx, 'CSR') == U('csr', 1)(loc(cx, 'P0')))
    elif 'wkm' in nm:
        setcnt(cx, 'rows_wake', cnt(cx, 'rows_wake') + 1)
        record_check(cx, 'wake_of_current_profile', loc(cx, 'OFFW') == U('wake_update', 1)(loc(cx, 'P0')))
    else:
        raise ExtractionError(f'main: append() of unknown object {nm}')


def ev_append_tracks(cx, recv, args):
    setcnt(cx, 'rows_trk', cnt(cx, 'rows_trk') + 1)


def ev_get_past(cx, recv, args):
    r = ObjRef('local:pastmod', 'std::vector<std::array<float, 2>>')
    cx.st.length['local:pastmod'] = cnt(cx, 'rf_pending')
    setcnt(cx, 'rf_pending', I(0))
    return r


def ev_append_rf(cx, recv, args):
    a = args[0]
    n = cx.st.len_of(a.name) if isinstance(a, ObjRef) else I(0)
    setcnt(cx, 'rows_rf', cnt(cx, 'rows_rf') + n)


def ev_print(cx, recv, args):
    INT = parse_type_str('int')

    def code(a, prev):
        """1 if the text says Aborted, 0 if it says Finished, the previous value for any other text; a text chosen by a
        condition (cond ? "Aborted." : "Finished.") gives the corresponding choice of codes"""
        ch = getattr(a, 'choice', None)
        if ch is not None:
            c_, x_, y_ = ch
            return If(c_, code(x_, prev), code(y_, prev))
        if isinstance(a, Opaque) and 'Aborted' in a.what:
            return I(1)
        if isinstance(a, Opaque) and 'Finished' in a.what:
            return I(0)
        return prev
    for a in args:
        prev = cx.st.scal.get(G + 'said_aborted')
        if not isinstance(a, Opaque):
            continue
        if prev is None and getattr(a, 'choice', None) is None and not ('Aborted' in a.what or 'Finished' in a.what):
            continue
        cx.st.scal[G + 'said_aborted'] = IntV(code(a, prev.t if prev is not None else I(-1)), INT)


class MainLoop(Contract):
    name = 'main'
    tu = 'src/main.cpp'
    tu_filter = 'main'
    aux_tus = [('src/main.cpp', 'vfps::')]
    params = ['argc', 'argv']
    tags = {'C05', 'C10', 'C12', 'C14', 'C15', 'C19'}

    def replay(self, o, model, pid):
        """whole-program replay: the real binary, built from the tree under check, run on scenarios whose results are checked
        without any model (record counts against the time axis, cadence independence of the final state, SIGINT handling)"""
        sc = {'C10': ['records'], 'C12': ['cadence'], 'C14': ['interrupt', 'records'], 'C19': ['rfkicks', 'cadence'], 'C11': ['restart']}.get(pid)
        return {'driver': 'main', 'scenarios': sc} if sc else None
    slice_from = 'updatetime'
    canary = True
    safety_tags = {'C17', 'C14'}     # "finishes the step, writes the final record, reports and exits successfully": nothing undefined on the way
    property_inits = {'projection_fresh'}   # ... and so is this entry condition of the loop (C11): a refuted one stands
    property_hints = True      # the per-iteration reference term IS the statement of C12/C05 (step result independent of the output block)

    def slice_setup(self, ex, st):
        # enum values of HDF5File::AppendType from the AST of the aux dump
        ex.enum_by_name = {}
        for tu in ex.aux_tus:
            for i_, v in tu.enumval.items():
                d = tu.byid.get(i_, {})
                if d.get('name') in ('All', 'Defaults', 'PhaseSpace') and 'AppendType' in tu.qual.get(i_, ''):
                    ex.enum_by_name[d['name']] = v
        if set(ex.enum_by_name) != {'All', 'Defaults', 'PhaseSpace'}:
            raise ExtractionError('main: HDF5File::AppendType enumerators not found')
        cx = Ctx(ex, st, st, ex.args0)
        for c in COUNTERS:
            cnt(cx, c)
        for l in LOCS:
            loc(cx, l)
        # start of the loop: the counters of all time-indexed datasets agree (initial records are written by
        # dedicated calls before the loop that do not touch them), nothing pending
        st.assume(And(cnt(cx, 'rows_csr') == cnt(cx, 'rows_time'), cnt(cx, 'rows_trk') == cnt(cx, 'rows_time'), cnt(cx, 'rows_wake') == cnt(cx, 'rows_time'),
                      cnt(cx, 'rf_pending') == 0, cnt(cx, 'rows_rf') == cnt(cx, 'rf_applied'), cnt(cx, 'final_appends') == 0, cnt(cx, 'phase_after_loop') == 0))
        # the tie between the two views of the dynamic RF map (drfm and rfm are the same object when drfm is set)
        st.assume(ex.args0['steps'].t > 0)
        d = ex.args0.get('drfm')
        if isinstance(d, ObjRef):
            st.assume(z3.Bool('drfm_set') == ex.nonnull(d) if d.null is not None else z3.Bool('drfm_set'))

    def requires(self, cx):
        return []

    def assigns(self, cx):
        return [('s', 'ghost.*'), ('s', 'arg:*')]

    domain_after = {}

    # ---- what one loop iteration must do to the physics state, whatever the output cadence (C05 order, C12)
    def reference(self, cx, cxb):
        renorm = And(cxb.a('renormalize') > 0, cxb.v('simulationstep') % cxb.a('renormalize') == 0)
        wkm_set = Not(cxb.arg('wkm').null) if isinstance(cxb.arg('wkm'), ObjRef) and cxb.arg('wkm').null is not None else z3.BoolVal(True)
        D1, P0, OFFW, RFQ, TRK = loc(cxb, 'D1'), loc(cxb, 'P0'), loc(cxb, 'OFFW'), loc(cxb, 'RFQ'), loc(cxb, 'TRK')
        offw = If(wkm_set, U('wake_update', 1)(P0), OFFW)                   # 1. wake potential from the projection left by the previous step
        fil = U('integrate', 1)(P0)
        d1 = If(renorm, U('normalize', 2)(D1, fil), D1)                     # 2. renormalisation schedule depends on the step number only
        d2 = U('wake_apply', 2)(d1, offw)                                   # 3. wake kick
        d1b = U('rf_apply', 2)(d2, RFQ)                                     # 4. RF kick
        d3 = U('drift_apply', 1)(d1b)                                       # 5. drift
        d1c = U('fp_apply', 1)(d3)                                          # 6. damping/diffusion
        p0 = U('xproj', 1)(d1c)                                             # 7. projection for the next step
        dyn = z3.Bool('drfm_set')
        rfoff = If(dyn, U('rf_kick_of', 1)(RFQ), loc(cxb, 'RFOFF'))        # the RF kick of THIS step (C15: particles follow the charge)
        trk = U('track_fpm', 2)(U('track_drm', 2)(U('track_rfm', 2)(U('track_wm', 2)(TRK, offw), rfoff), z3.RealVal(0)), d3)
        return {'D1': d1c, 'D2': d2, 'D3': d3, 'P0': p0, 'OFFW': offw, 'TRK': trk, 'RFOFF': rfoff}

    def _inv(self, cx):
        return [('rows.csr', cnt(cx, 'rows_csr') == cnt(cx, 'rows_time')),
                ('rows.tracks', cnt(cx, 'rows_trk') == cnt(cx, 'rows_time')),
                ('rows.wake', Implies(self.wkm_set(cx), cnt(cx, 'rows_wake') == cnt(cx, 'rows_time'))),
                ('rf.records', cnt(cx, 'rows_rf') + cnt(cx, 'rf_pending') == cnt(cx, 'rf_applied')),
                ('phase', And(cnt(cx, 'phase_after_loop') == 0, cnt(cx, 'final_appends') == 0)),
                ('projection_fresh', loc(cx, 'P0') == U('xproj', 1)(loc(cx, 'D1'))),
                ('hdf', self.hdf_guard(cx))]

    def hdf_guard(self, cx):
        return z3.BoolVal(True)

    @staticmethod
    def wkm_set(cx):
        w = cx.arg('wkm')
        return Not(w.null) if isinstance(w, ObjRef) and w.null is not None else z3.BoolVal(True)

    def _hints(self, cx, cxb):
        ref = self.reference(cx, cxb)
        out = []
        for l in ('OFFW', 'D2', 'D3', 'D1', 'P0', 'TRK', 'RFOFF'):
            out.append((f'step.{l}', loc(cx, l) == ref[l]))
        out.append(('step.counter', cx.v('simulationstep') == cxb.v('simulationstep') + 1))
        return out

    def _exit(self, cx):
        setcnt(cx, 'phase_after_loop', I(1))

    @property
    def loops(self):
        l = LoopSpec(inv=self._inv, hints=self._hints)
        # C11: whatever produced the start distribution (generated, text file, results file), the first step sees the bunch
        # profile OF THAT GRID (the loaders overwrite the data of a freshly constructed Gaussian grid and leave its projections)
        l.label_tags = {'projection_fresh': {'C11'}}
        l.exit_effect = self._exit
        return {'while#0': l}

    def ensures(self, cx):
        hdf = cx.arg('hdf_file')
        hdf_set = Not(hdf.null) if isinstance(hdf, ObjRef) and hdf.null is not None else z3.BoolVal(True)
        ret = cx.ret.t if isinstance(cx.ret, IntV) else I(-1)
        said = cx.st.scal.get(G + 'said_aborted')
        return [('c14.exit_success', {'C14'}, ret == 0),
                ('c14.final_record', {'C14', 'C10'}, Implies(hdf_set, cnt(cx, 'final_appends') == 1)),
                ('c14.final_time', {'C14', 'C10'}, Implies(hdf_set, cx.st.scal[G + 'last_t'].t * cx.a('steps') == z3.ToReal(cx.v('simulationstep')))
                 if (G + 'last_t') in cx.st.scal else z3.BoolVal(False)),
                ('c10.rows.csr', {'C10', 'C14'}, Implies(hdf_set, cnt(cx, 'rows_csr') == cnt(cx, 'rows_time'))),
                ('c10.rows.tracks', {'C10', 'C14'}, Implies(hdf_set, cnt(cx, 'rows_trk') == cnt(cx, 'rows_time'))),
                ('c10.rows.wake', {'C10', 'C14'}, Implies(And(hdf_set, self.wkm_set(cx)), cnt(cx, 'rows_wake') == cnt(cx, 'rows_time'))),
                ('c19.all_records_flushed', {'C19', 'C10'}, Implies(hdf_set, And(cnt(cx, 'rf_pending') == 0, cnt(cx, 'rows_rf') == cnt(cx, 'rf_applied')))),
                ('c14.message', {'C14'}, z3.BoolVal(said is not None)),
                # "report that it was aborted": the closing message is decided by a read of the flag that takes place AFTER the
                # final record has been written (an interrupt arriving during the last step or the final save is still reported),
                # and it says Aborted exactly if that read saw the flag set
                ('c14.message_decided_after_final_record', {'C14'}, self.message_post(cx, said, hdf_set))]

    def message_post(self, cx, said, hdf_set):
        seen = cx.st.scal.get('ghost.abort_seen')
        ph = cx.st.scal.get('ghost.abort_read_phase')
        if said is None or seen is None or ph is None:
            return z3.BoolVal(False)
        return And(said.t == If(seen.t, I(1), I(0)), ph.t >= 1, Implies(hdf_set, ph.t == 2))


    @property
    def calls(self):
        E = Event
        return {
            'WakeKickMap::update': E('wake.update', ev_wake_update),
            'PhaseSpace::integrateAndNormalize': E('ps.integrateAndNormalize', ev_integrate_normalize),
            'PhaseSpace::integrate': E('ps.integrate', ev_integrate),
            'PhaseSpace::normalize': E('ps.normalize', lambda cx, r, a: setloc(cx, 'D1', U('normalize', 2)(loc(cx, 'D1'), loc(cx, 'FIL')))),
            'PhaseSpace::swap': E('ps.swap', lambda cx, r, a: setloc(cx, 'D1', U('swap', 1)(loc(cx, 'D1')))),
            'PhaseSpace::variance': E('ps.variance', ev_variance),
            'PhaseSpace::updateYProjection': E('ps.yproj', ev_yproj),
            'PhaseSpace::updateXProjection': E('ps.xproj', ev_xproj),
            'ElectricField::updateCSR': E('csr.update', ev_update_csr),
            'ElectricField::wakePotential': E('field.wake', lambda cx, r, a: PtrV('wakepotential', I(0))),
            'HDF5File::append/3': E('h5.append.ps', ev_append_ps),
            'HDF5File::append/2': E('h5.append.field', ev_append_1),
            'HDF5File::append/1': E('h5.append.wake', ev_append_1),
            'HDF5File::appendTracks': E('h5.tracks', ev_append_tracks),
            'HDF5File::appendRFKicks': E('h5.rfkicks', ev_append_rf),
            'HDF5File::appendPadded': E('h5.padded'),
            'DynamicRFKickMap::getPastModulation': E('rf.flush', ev_get_past),
            'SourceMap::apply': E('map.apply', ev_apply),
            'SourceMap::applyToAll': E('map.track', ev_apply_to_all),
            'WakeKickMap::apply': E('map.apply', ev_apply),
            'apply': E('map.apply', ev_apply),
            'applyToAll': E('map.track', ev_apply_to_all),
            'printText': E('print', ev_print),
            'status_string': E('status', None, Opaque('status')),
        }
