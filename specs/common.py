"""Shared spec vocabulary: class invariants and mathematical spec functions."""
import z3
from fractions import Fraction
from vf.vcg import LoopSpec, Ctx, ElemInv
from vf.ast import ExtractionError
from vf.unit import Contract, Use
from vf.types import *
from vf import models

I = z3.IntVal
And, Or, Not, Implies, If = z3.And, z3.Or, z3.Not, z3.Implies, z3.If


def Rq(a, b=1):
    return z3.RealVal(a) / z3.RealVal(b) if b != 1 else z3.RealVal(a)


NODES = {1: [0], 2: [0, 1], 3: [-1, 0, 1], 4: [-1, 0, 1, 2]}   # from the statement of C02


def lagrange(n, j, f):
    """Lagrange basis polynomial j on NODES[n], evaluated at f (z3 Real term)"""
    xs = NODES[n]
    num = z3.RealVal(1)
    den = Fraction(1)
    for m, xm in enumerate(xs):
        if m != j:
            num = num * (f - xm)
            den *= (xs[j] - xm)
    return num * Rq(den.denominator, den.numerator) if den.numerator > 0 else num * Rq(-den.denominator, -den.numerator)


def W(it, j, f):
    """weight j of the it-point scheme as a term in symbolic `it`"""
    if not isinstance(j, int):
        t = z3.RealVal(0)
        for jj in (3, 2, 1, 0):
            t = If(j == jj, W(it, jj, f), t)
        return t
    t = z3.RealVal(0)
    for n in (4, 3, 2, 1):
        if j < n:
            t = If(it == n, lagrange(n, j, f), t)
    return t


def node(it, j):
    """stencil node of entry j:  j - (it-1)/2"""
    return j - If(it >= 3, I(1), I(0))


PS_NX = 'vfps::PhaseSpace::_nmeshcellsX'
PS_NY = 'vfps::PhaseSpace::_nmeshcellsY'
PS_NB = 'vfps::PhaseSpace::_nbunches'
PS_NXY = 'vfps::PhaseSpace::_nmeshcells'
PS_NXYB = 'vfps::PhaseSpace::_totalmeshcells'


def ps_globals(cx):
    nx, ny, nb = cx.f(PS_NX), cx.f(PS_NY), cx.f(PS_NB)
    return nx, ny, nb


def PS_static(cx):
    """what PhaseSpace::setSize establishes (square grid, products fit meshindex_t)"""
    nx, ny, nb = ps_globals(cx)
    return And(nx == ny, nx >= 2, nb >= 1, nx * nx * nb < 2 ** 32,
               cx.f(PS_NXY) == nx * ny, cx.f(PS_NXYB) == nx * ny * nb)


def declare_ps(cx, obj):
    """shape of a PhaseSpace object at path obj (what its constructor establishes)"""
    nx, ny, nb = ps_globals(cx)
    st = cx.st
    st.dims[obj + '._data'] = [nb, nx, ny]
    st.dims[obj + '._projection'] = [I(2), nb, nx]
    st.dims[obj + '._moment'] = [I(2), I(4), nb]
    st.dims[obj + '._rms'] = [I(2), nb]
    return And(st.len_of(obj + '._data') == nb * nx * ny,
               st.len_of(obj + '._projection') == 2 * nb * nx,
               st.len_of(obj + '._moment') == 8 * nb,
               st.len_of(obj + '._rms') == 2 * nb,
               st.len_of(obj + '._ws') == nx,
               st.len_of(obj + '._filling') == nb,
               st.len_of(obj + '._filling_set') == nb)


def declare_ruler(cx, obj, steps):
    st = cx.st
    return And(st.len_of(obj + '._data') == steps, cx.f(obj + '._steps') == steps,
               cx.rf(obj + '._delta') > 0)


def split_ghost(var, ghost):
    """case split of a loop's step obligations: ghost index is the element written in this
    iteration / any other element"""
    def f(cx, cxb):
        same = cx.g(ghost) == cxb.v(var)
        return [('cur', same), ('other', Not(same))]
    return f
