"""Contracts for DynamicRFKickMap (src/SM/DynamicRFKickMap.cpp) — C19."""
from .common import *
from .sm import (RFKickMapLinearCtor, RFKickMapSinCtor, RFCalcKick, KickMapApply, KM_valid, SM_axes, rf_offset_spec, row_spec, KickMapCtor,
                 Ruler_valid, SIN)

NEXT, PAST = 'this._next_modulation', 'this._past_modulation'
FL = parse_type_str('float')


def q_entry(cx, region, k, comp):
    return cx.sel(region, k, str(comp))


class CalcModulation(Contract):
    replay = lambda self, o, model, pid: {'driver': 'main', 'scenarios': {'C12': ['cadence'], 'C19': ['rfkicks', 'cadence']}.get(pid, ['rfkicks'])}
    name = 'vfps::DynamicRFKickMap::__calcModulation'
    tu = 'src/SM/DynamicRFKickMap.cpp'
    params = ['steps']
    tags = {'C19'}
    ghosts = {'g': 'int'}

    def assigns(self, cx):
        return []

    def rv(self):
        return 'local:rv'

    def ensures(self, cx):
        g, steps = cx.g('g'), cx.a('steps')
        st = cx.st
        e0 = z3.Select(st.array(self.rv(), '0', FL), g)
        e1 = z3.Select(st.array(self.rv(), '1', FL), g)
        sp = cx.rf('this._syncphase')
        pn, an, ma, mt = cx.rf('this._phasenoise'), cx.rf('this._amplnoise'), cx.rf('this._modampl'), cx.rf('this._modtimedelta')
        inr = And(g >= 0, g < steps)
        return [('length', {'C19'}, And(st.len_of(self.rv()) == steps, st.scal[self.rv() + '.head'].t == 0)),
                ('returns', {'C19'}, z3.BoolVal(isinstance(cx.ret, ObjRef) and cx.ret.name == self.rv())),
                # all amplitudes zero: every step uses the synchronous phase and unit amplitude
                ('zero_amplitudes', {'C19'}, Implies(And(inr, pn == 0, an == 0, ma == 0), And(e0 == sp, e1 == 1))),
                # pure sinusoidal phase modulation with the configured amplitude and angular step
                ('sinusoidal', {'C19'}, Implies(And(inr, pn == 0), e0 == sp + ma * SIN(mt * z3.ToReal(g)))),
                ('amplitude', {'C19'}, Implies(And(inr, an == 0), e1 == 1))]

    def _inv(self, cx):
        i, g, steps = cx.v('i'), cx.g('g'), cx.a('steps')
        st = cx.st
        e0 = z3.Select(st.array(self.rv(), '0', FL), g)
        e1 = z3.Select(st.array(self.rv(), '1', FL), g)
        sp = cx.rf('this._syncphase')
        pn, an, ma, mt = cx.rf('this._phasenoise'), cx.rf('this._amplnoise'), cx.rf('this._modampl'), cx.rf('this._modtimedelta')
        inr = And(g >= 0, g < i)
        return [('range', And(i >= 0, i <= steps)), ('len', And(st.len_of(self.rv()) == i, st.scal[self.rv() + '.head'].t == 0)),
                ('zero', Implies(And(inr, pn == 0, an == 0, ma == 0), And(e0 == sp, e1 == 1))),
                ('sin', Implies(And(inr, pn == 0), e0 == sp + ma * SIN(mt * z3.ToReal(g)))),
                ('ampl', Implies(And(inr, an == 0), e1 == 1))]

    @property
    def loops(self):
        l = LoopSpec(inv=self._inv)
        l.split = split_ghost('i', 'g')
        return {'i#0': l}


class DynRFLinearCtor(RFKickMapLinearCtor):
    """the dynamic map must start in exactly the state of the static map of the SAME model"""
    replay = lambda self, o, model, pid: {'driver': 'main', 'scenarios': {'C12': ['cadence'], 'C19': ['rfkicks', 'cadence']}.get(pid, ['rfkicks'])}
    name = 'vfps::DynamicRFKickMap::DynamicRFKickMap'
    tu = 'src/SM/DynamicRFKickMap.cpp'
    nparams = 15
    params = ['in', 'out', 'xsize', 'ysize', 'angle', 'revolutionpart', 'f_RF', 'phasespread', 'amplspread', 'modampl', 'modtimeincrement',
              'steps', 'it', 'interpol_clamp', 'oclh']
    tags = {'C19', 'C17'}
    ghosts = {'x': 'int', 'e': 'int', 'g': 'int'}
    linear = True

    def requires(self, cx):
        return RFKickMapLinearCtor.requires(self, cx) + [('revpart', cx.a('revolutionpart') > 0)]

    def init__prng(self, ex, st, e):
        st.scal['this._prng'] = Opaque('prng')

    def init__dist(self, ex, st, e):
        st.scal['this._dist'] = Opaque('normal_distribution')

    def ensures(self, cx):
        out = RFKickMapLinearCtor.ensures(self, cx)
        g = cx.g('g')
        sp = cx.rf('this._syncphase')
        zero = And(cx.a('phasespread') == 0, cx.a('amplspread') == 0, cx.a('modampl') == 0)
        out += [('queue', {'C19', 'C12'}, And(cx.len(NEXT) == cx.a('steps'), cx.f(NEXT + '.head', 'u64') == 0)),
                ('zero_amplitudes', {'C19'}, Implies(And(zero, g >= 0, g < cx.a('steps')), And(q_entry(cx, NEXT, g, 0) == sp, q_entry(cx, NEXT, g, 1) == 1)))]
        return out

    @property
    def calls(self):
        return {'ctor:vfps::RFKickMap/7': Use(RFKickMapLinearCtor(), inst=lambda cx: [{'x': cx.ghost_of('x'), 'e': cx.ghost_of('e')}]),
                'ctor:vfps::RFKickMap/9': Use(RFKickMapSinCtor(), inst=lambda cx: [{'x': cx.ghost_of('x'), 'e': cx.ghost_of('e')}]),
                'vfps::DynamicRFKickMap::__calcModulation': Use(CalcModulationUse(), inst=lambda cx: [{'g': cx.ghost_of('g')}]),
                'vfps::RFKickMap::_calcKick': Use(RFCalcKick(), inst=lambda cx: [{'x': cx.ghost_of('x'), 'e': cx.ghost_of('e'), 'k': cx.ghost_of('x')}])}


class CalcModulationUse(CalcModulation):
    """call-site view: the returned queue is a fresh container"""

    def result(self, cx):
        return ObjRef(self.rv(), 'std::queue<std::array<float, 2>>')

    def effect(self, cx):
        st = cx.st
        st.havoc_region(self.rv())
        st.length[self.rv()] = State_fresh_len(self.rv())
        st.scal[self.rv() + '.head'] = IntV(z3.Int('head(' + self.rv() + ')!' + str(id(cx))), parse_type_str('unsigned long'))


def State_fresh_len(region):
    from vf.state import State
    return State.fresh(f'len({region})', z3.IntSort())


class DynRFSinCtor(DynRFLinearCtor):
    nparams = 16
    params = ['in', 'out', 'xsize', 'ysize', 'revolutionpart', 'V_RF', 'f_RF', 'V0', 'phasespread', 'amplspread', 'modampl', 'modtimeincrement',
              'steps', 'it', 'interpol_clamp', 'oclh']
    linear = False


def DRF_valid(cx):
    head = cx.f(NEXT + '.head', 'u64')
    return And(KM_valid(cx), cx.f('this._xsize') == cx.f(PS_NX), cx.f('this._kickdirection', 'u8') == 1,
               head >= 0, head <= cx.len(NEXT), cx.len(PAST) >= 0)


class DynCalcKick(Contract):
    """DynamicRFKickMap::_calcKick(): the static kick law evaluated with the FRONT queue entry"""
    replay = lambda self, o, model, pid: {'driver': 'main', 'scenarios': {'C12': ['cadence'], 'C19': ['rfkicks', 'cadence']}.get(pid, ['rfkicks'])}
    name = 'vfps::DynamicRFKickMap::_calcKick'
    tu = 'src/SM/DynamicRFKickMap.cpp'
    params = []
    tags = {'C19'}
    ghosts = {'x': 'int', 'e': 'int', 'k': 'int'}

    def setup(self, cx):
        cx.st.assume(SM_axes(cx))

    def requires(self, cx):
        return [('valid', DRF_valid(cx)), ('nonempty', cx.f(NEXT + '.head', 'u64') < cx.len(NEXT))]

    def assigns(self, cx):
        return RFCalcKick.assigns(self, cx)

    def ensures(self, cx):
        nx = cx.f(PS_NX)
        x, e = cx.g('x'), cx.g('e')
        h = cx.old.f(NEXT + '.head', 'u64')
        ph, am = cx.old.sel(NEXT, h, '0'), cx.old.sel(NEXT, h, '1')
        offs = cx.arr('this._offset')
        inr = And(x >= 0, x < nx)
        return [('uses_front', {'C19', 'C12'}, Implies(inr, z3.Select(offs, x) == rf_offset_spec(cx, x, ph, am))),
                ('table', {'C19'}, Implies(And(inr, e >= 0, e < cx.f('this._it', 'u8')), row_spec(cx, x, e, offs))),
                ('queue_untouched', {'C19'}, And(cx.f(NEXT + '.head', 'u64') == h, cx.len(NEXT) == cx.old.len(NEXT),
                                                 cx.arr(NEXT, '0') == cx.old.arr(NEXT, '0'), cx.arr(NEXT, '1') == cx.old.arr(NEXT, '1')))]

    @property
    def calls(self):
        return {'vfps::RFKickMap::_calcKick': Use(RFCalcKick(), inst=lambda cx: [{'x': cx.ghost_of('x'), 'e': cx.ghost_of('e'), 'k': cx.ghost_of('k')}])}


class KickMapApplyAbstract(KickMapApply):
    """call-site view of KickMap::apply for the skeleton of DynamicRFKickMap::apply: frame only"""
    ghosts = {}

    def requires(self, cx):
        return [('valid', KM_valid(cx))]

    def ensures(self, cx):
        return []

    def setup(self, cx):
        pass


class DynApply(Contract):
    replay = lambda self, o, model, pid: {'driver': 'main', 'scenarios': {'C12': ['cadence'], 'C19': ['rfkicks', 'cadence']}.get(pid, ['rfkicks'])}
    name = 'vfps::DynamicRFKickMap::apply'
    tu = 'src/SM/DynamicRFKickMap.cpp'
    params = []
    tags = {'C19', 'C12'}
    ghosts = {'x': 'int', 'e': 'int', 'k': 'int'}

    def setup(self, cx):
        cx.st.assume(SM_axes(cx))
        t = cx.this or 'this'
        cx.st.assume(declare_ps(cx, t + '._in'))
        cx.st.assume(declare_ps(cx, t + '._out'))

    def requires(self, cx):
        return [('valid', DRF_valid(cx)), ('nonempty', cx.f(NEXT + '.head', 'u64') < cx.len(NEXT))]

    def assigns(self, cx):
        t = cx.this or 'this'
        return RFCalcKick.assigns(self, cx) + [('r', t + '._out._data'), ('s', cx.R(NEXT) + '.head'), ('r', cx.R(PAST)), ('len', cx.R(PAST))]

    def ensures(self, cx):
        h = cx.old.f(NEXT + '.head', 'u64')
        lp = cx.old.len(PAST)
        return [('consumes_one', {'C19'}, And(cx.f(NEXT + '.head', 'u64') == h + 1, cx.len(NEXT) == cx.old.len(NEXT))),
                ('records_one', {'C19'}, cx.len(PAST) == lp + 1),
                # the modulation recorded for this step is the one the kick was computed with
                ('records_used', {'C19'}, And(cx.sel(PAST, lp, '0') == cx.old.sel(NEXT, h, '0'), cx.sel(PAST, lp, '1') == cx.old.sel(NEXT, h, '1'))),
                # C15: on return _offset still holds THIS step's kick -- main moves the tracked particles with rfm->applyToAll() after
                # rfm->apply(), and KickMap::applyTo reads _offset
                ('kick_uses_front', {'C19', 'C12', 'C15'}, Implies(And(cx.g('x') >= 0, cx.g('x') < cx.f(PS_NX)),
                                                     cx.sel('this._offset', cx.g('x')) == rf_offset_spec(cx, cx.g('x'), cx.old.sel(NEXT, h, '0'), cx.old.sel(NEXT, h, '1')))),
                ('earlier_records_kept', {'C19'}, Implies(And(cx.g('k') >= 0, cx.g('k') < lp), And(cx.sel(PAST, cx.g('k'), '0') == cx.old.sel(PAST, cx.g('k'), '0'),
                                                                                                  cx.sel(PAST, cx.g('k'), '1') == cx.old.sel(PAST, cx.g('k'), '1'))))]

    @property
    def calls(self):
        return {'vfps::DynamicRFKickMap::_calcKick': Use(DynCalcKick(), inst=lambda cx: [{'x': cx.ghost_of('x'), 'e': cx.ghost_of('e'), 'k': cx.ghost_of('k')}]),
                'vfps::KickMap::apply': Use(KickMapApplyAbstract())}


class GetPastModulation(Contract):
    replay = lambda self, o, model, pid: {'driver': 'main', 'scenarios': {'C12': ['cadence'], 'C19': ['rfkicks', 'cadence']}.get(pid, ['rfkicks'])}
    name = 'vfps::DynamicRFKickMap::getPastModulation'
    tu = 'src/SM/DynamicRFKickMap.cpp'
    params = []
    tags = {'C19'}
    ghosts = {'k': 'int'}

    def assigns(self, cx):
        return [('r', cx.R(PAST)), ('len', cx.R(PAST))]

    def ensures(self, cx):
        k = cx.g('k')
        lp = cx.old.len(PAST)
        ok = isinstance(cx.ret, ObjRef)
        rn = cx.ret.name if ok else PAST
        return [('returns_all', {'C19'}, And(z3.BoolVal(ok), cx.st.len_of(rn) == lp)),
                ('same_records', {'C19'}, Implies(And(k >= 0, k < lp), And(z3.Select(cx.st.array(rn, '0', FL), k) == cx.old.sel(PAST, k, '0'),
                                                                          z3.Select(cx.st.array(rn, '1', FL), k) == cx.old.sel(PAST, k, '1')))),
                ('emptied', {'C19'}, cx.len(PAST) == 0)]


def lemmas_c19():
    """bookkeeping: records flushed so far + records pending = kicks applied, under apply (+1 pending) and flush (pending -> flushed)"""
    f, p_, a = z3.Ints('flushed pending applied')
    inv = f + p_ == a
    return [('C19.count.apply', {'C19'}, Implies(inv, f + (p_ + 1) == a + 1)),
            ('C19.count.flush', {'C19'}, Implies(inv, (f + p_) + 0 == a)),
            ('C19.zero_times_noise', {'C19'}, z3.ForAll([z3.Real('xi')], z3.Real('xi') * 0 == 0))]
