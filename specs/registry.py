"""Which units and lemmas serve which property (DESIGN §4/§5)."""
from . import sm, ps, ef, z, mainspec, dynrf, mainloop, io, leaf, sig

A_IDEAL = 'A-IDEAL: float/double arithmetic treated as real arithmetic, source literals exact (rounding not modelled)'
A_SUMCOMM = 'L-SUMCOMM: column sums = 1 => total conserved (and the epsilon-bound variant) is machine-checked by Lean 4 + Mathlib on every run (lemmas/SumComm.lean); that the code operator has the matrix form of the lemma is what the apply() contracts prove'
A_LIB = 'library containers (std::vector, boost::multi_array, shared_ptr) behave as sequences/references (models in vf/models.py)'
DROPS = 'extraction drops: preprocessor-disabled OpenCL/OpenGL/PNG branches, destructors of temporaries, text output, exception propagation'

PENDING = 'not yet claimed: units for this property are still being brought under contract (see DESIGN.md §10)'
NOT_APPLICABLE = {
}

SM_KICK = [sm.CalcCoefficiants, sm.UpdateSM, sm.KickMapApply, sm.SourceMapCtor, sm.SourceMapCtor7, sm.KickMapCtor,
           sm.RFCalcKick, sm.RFKickMapLinearCtor, sm.RFKickMapSinCtor, sm.DriftMapCtor, sm.WakePotentialMapUpdate, sm.WakeKickMapCtor, sm.WakePotentialMapCtor, sm.WakeMapsKeepOwnRows]
SM_FP = [sm.FokkerPlanckCtor, sm.FokkerPlanckApply]
Z_UNITS = [z.FreeSpaceCSRCalc, z.ResistiveWallCalc, z.ResistiveWallScale, z.ConstImpedanceCalc, z.ParallelPlatesCalc, z.ImpedanceAddAssign,
           z.ImpedanceCtorRuler, z.ImpedanceCtorVec, z.ImpedanceCtorZero, z.FreeSpaceCSRCtor, z.ResistiveWallCtor, z.ConstImpedanceCtor,
           z.ParallelPlatesCtor, z.CollimatorCtor, z.MakeImpedance, z.ImpedanceReadData, z.ImpedanceSwap, z.ImpedanceAssign]
TECH = 'contract-based deductive verification: contracts (specs/*.py) enforced on the real functions by a VCG over the clang AST, z3 (cvc5 second opinion); lemma layer over contract symbols'

def _kick_sweep():
    runs = []
    for N in (8, 9, 16):
        for nb in (1, 2, 3):
            for it in (1, 2, 3, 4):
                for ax in (0, 1):
                    runs.append(['kick', N, nb, it, ax, -1, N + nb + it])
    runs += [['rf', 16, nb, it, lin, 3] for nb in (1, 2, 3) for it in (2, 4) for lin in (0, 1)]
    runs += [['conserve', 16, 2, it, ax, m, 8] for it in (1, 2, 3, 4) for ax in (0, 1) for m in (-5, -1, 0, 3, 5)]
    return {'harness': 'sm_replay', 'runs': runs}


PROPERTIES = {
    'C01': {
        'units': SM_KICK + SM_FP + [sm.IdentityApply, mainspec.MapDispatch],
        'native_sweep': _kick_sweep(),
        'lemmas': [sm.lemmas_weights, sm.lemmas_c01_col, sm.lemmas_fp, sm.lemmas_fp_transition],
        'lean': [('lemmas/SumComm.lean', 'L-SUMCOMM.total_conserved_of_column_sums_one', {'C01'})],
        'level': 'proof',
        'claim': 'every transport operator (kick maps via table rows, Fokker-Planck stencil, identity) has interior column sums 1 '
                 '(FP: within e1 next to the zero-energy bin): functional posts of apply + row contracts of the table builders + weight lemmas; '
                 'unbounded in grid size, bunch count, order, offsets; ideal arithmetic',
        'assumptions': [A_IDEAL, A_SUMCOMM, A_LIB, DROPS, 'WakePotentialMap::update is covered under C05/C06 (same KickMap::updateSM/apply contracts)'],
        'explanation': 'column sums of each step operator from the contracts of the table builders and of apply',
        'technique': TECH,
    },
    'C02': {
        'units': [sm.CalcCoefficiants, sm.UpdateSM, sm.KickMapApply, mainspec.MapDispatch],
        'leaves': [leaf.CalcCoeffZeroLeaf],
        'lemmas': [sm.lemmas_weights],
        # thorough tier, labelled bounded stand-in (exhaustive over the finite domain / fixed sizes), never counted as proved:
        'native_sweep': {'harness': 'sm_replay', 'runs': [['weights', it_] for it_ in (1, 2, 3, 4)] +
                         [['wholecell', N_, nb_, it_, ax_, 5] for N_ in (8, 16, 17) for nb_ in (1, 2) for it_ in (1, 2, 3, 4) for ax_ in (0, 1)]},
        'level': 'other',
        'claim': 'weights are the Lagrange basis on the stated nodes (partition of unity, reproduction of monomials below the order, unit vector at f=0) and '
                 'the table row/stencil selection of updateSM/apply is proved for all sizes in ideal arithmetic; bit-precisely (CBMC, IEEE single) the weights at offset fraction +-0 are exactly one unit weight and zeros for all four schemes. '
                 'Thorough tier, bounded stand-in only: native enumeration of ALL 1 065 353 216 single-precision offsets in [0,1) per scheme through the real calcCoefficiants (sum and moments within 8 ulp), and bit-for-bit comparison of every representable whole-cell displacement on grids 8/16/17 with 1-2 bunches',
        'assumptions': [A_IDEAL, A_LIB, DROPS],
        'uncovered': ['bit-for-bit equality of whole-cell shifts as a proof for all grid sizes (bit-precise only for the weights; the table/apply part is ideal-arithmetic proof + bounded native comparison)', 'sign of a zero cell after a whole-cell shift (0*a + 1*(-0) is +0)', 'RotationMap::genHInfo (not used by main)'],
        'explanation': 'polynomial-reproduction lemmas over the contract weights plus the functional contracts of updateSM and apply; level other because rounding is not modelled',
        'technique': TECH,
    },
    'C08': {
        'units': SM_KICK + SM_FP + [sm.IdentityApply, mainspec.MapDispatch],
        'native_sweep': _kick_sweep(),
        'lemmas': [sm.lemmas_c08],
        'technique': TECH,
        'level': 'proof',
        'claim': 'every transport map transforms bunch n using only bunch n data and the table rows belonging to n (or the shared rows); frames proved; unbounded in grid size, bunch count, interpolation order',
        'assumptions': [A_IDEAL, A_LIB, DROPS],
        'explanation': 'per-bunch functional postconditions (ghost cell n,x,y) and frames of every transport map',
    },
    'C15': {
        'units': [sm.KickMapApplyTo, sm.FokkerPlanckApplyTo, sm.SourceMapApplyToAll, sm.UpdateSM, sm.CalcCoefficiants, io.HDF5AppendTracks, mainspec.MainTrackingFile, mainloop.MainLoop, mainspec.MapDispatch, io.ProgramOptionsGetters, io.ProgramOptionsPrecedence, dynrf.DynApply, dynrf.DynCalcKick],
        'leaves': [leaf.FPApplyToLeaf, leaf.KickApplyToLeaf, leaf.PSxLeaf, leaf.PSyLeaf],
        'lemmas': [sm.lemmas_weights],
        'main_scenarios': ['tracking'],
        'level': 'other',
        'claim': 'every particle read from the tracking file starts on the grid whatever the file holds, at the k-th pair of the file (position on the position axis, energy on the energy axis; main reading loop; clamps bit-precisely for every float incl. NaN); applyToAll moves every particle exactly once per map; a tracked particle is displaced by minus the linearly interpolated offset (the displacement of the charge, by the k=1 moment lemma), every map keeps both '
                 'coordinates on the grid, the stochastic model is an Ornstein-Uhlenbeck step about the zero-energy bin; for every real position/offset (ideal arithmetic)',
        'assumptions': [A_IDEAL, A_LIB, DROPS, 'random draws are unconstrained reals', 'HDF5File::appendTracks requires every coordinate in [0, N-1] — the range the tracking maps are proved to keep'],
        'uncovered': ['statistical statement that an ensemble keeps mean and width (consequence of the OU step, not machine-checked)',
                      'grid sizes above 64 in the bit-precise leaf units of KickMap::applyTo / FokkerPlanckMap::applyTo (CBMC, every IEEE input incl. NaN/inf, sizes up to 64); the VCG covers all sizes in ideal arithmetic'],
        'explanation': 'posts of KickMap::applyTo and FokkerPlanckMap::applyTo for all four tracking models',
        'technique': TECH,
    },
    'C09': {
        'units': [ps.RulerCtor, ps.SimpsonWeights, ps.UpdateXProjection, ps.UpdateYProjection, ps.Integrate, ps.Normalize,
                  ps.Average, ps.Variance, ps.Swap, ps.Assign, ps.PhaseSpaceCtor, ps.PhaseSpaceCtor8, ps.PhaseSpaceCtor12, ps.PhaseSpaceCopyCtor, ps.CreateFromProjections, ps.Gaus, mainspec.MainStartDistribution, io.ProgramOptionsGetters],
        'lemmas': [ps.lemmas_normalize],
        'native_sweep': {'harness': 'ps_replay', 'runs': [['moments', N_, nb_, sd_] for N_ in (8, 9, 16, 17, 33) for nb_ in (1, 2, 3, 5) for sd_ in (1, 2)]},
        'level': 'proof',
        'claim': 'all four PhaseSpace constructors establish the container sizes of the class invariant, copy nominal shares and given data cell by cell, take over / build the axes, and leave projections, populations and integral as the verified methods derive them from the data (a copy therefore carries the data of its original and the quantities derived from it); normalize scales every cell of bunch n by set/filling (empty buckets to zero) and nothing else; projections are the Simpson-weighted sums; '
                 'integral, mean, variance and rms of bunch n are the stated sums over bunch n own projection and charge only; swap/assignment carry data and everything '
                 'derived from it; unbounded in grid size and bunch count, ideal arithmetic',
        'assumptions': [A_IDEAL, A_LIB, DROPS, 'finite sums are spec functions introduced by unfolding instances of their recursive definitions',
                        'inside the main PhaseSpace constructor the Gaussian branch (gaus, setProjection, createFromProjections) is bound to frame-only contracts; gaus and createFromProjections are verified as units of their own (sampled unit Gaussian; outer product rescaled to the nominal shares)'],
        'uncovered': ['discretisation error of Simpson sums for Gaussians (numerical analysis, not a code property)', 'that the constructor passes the Gaussian rows to createFromProjections (setProjection is frame-only)'],
        'explanation': 'functional postconditions with ghost indices over every PhaseSpace method named by the property',
        'technique': TECH,
    },
    'C06': {
        'units': [ef.PadBunchProfiles, ef.WakePotential, ef.ElectricFieldScale, ef.ElectricFieldCtor, ef.ElectricFieldCtor11, ef.InitWakeLossFFT, mainspec.MainFields, io.ProgramOptionsGetters],
        'native_sweep': {'harness': 'ef_replay', 'runs': ef.EF_RUNS + [['wake', 16, '1', 0, n_, 7] for n_ in (32, 33, 34, 50, 97, 128)] + [['fftw', 2, 64], ['fftw', 127, 129], ['fftw', 255, 257], ['fftw', 511, 513], ['fftw', 1023, 1025], ['fftw', 2048, 2048]]},
        'lemmas': [],
        'level': 'proof',
        'claim': 'both ElectricField constructors establish the class invariant the methods rely on (transform buffers of the impedance length, zero-initialised, FFT plans bound to exactly those buffers, per-bunch tables); wakePotential = scale * IDFT_herm( Z[i]*DFT(train)[i] for i < n/2, zero from n/2 ) read back at bucket*spacing + x, where the train holds every bunch profile at '
                 'bucket*spacing and zeros elsewhere; FFTW represented by its contract (uninterpreted DFT/IDFT of the buffer contents); unbounded in lengths, patterns, spacing',
        'assumptions': [A_IDEAL, A_LIB, DROPS, 'A-FFTW-R2C: r2c writes DFT(in)[0..n/2]', 'A-FFTW-C2R: c2r returns the Hermitian inverse transform of in[0..n/2] and may overwrite in[0..n/2) only (both FFTW contracts are probed natively against a naive DFT through the real fft:: wrappers in the thorough tier: ef_replay fftw)',
                        'complex multiplication kept symbolic (same products in code and spec); the scale factor Ib*dt*c/(sigma_z*dE)/N is the constructor contract (C05)'],
        'uncovered': ['padded length computed in main is proved under C17'],
        'explanation': 'functional posts with ghost indices on padBunchProfiles and wakePotential',
        'technique': TECH,
    },
    'C18': {
        'units': [ef.PadBunchProfiles, ef.WakePotential, ef.UpdateCSR, ef.ElectricFieldCtor, ef.ElectricFieldCtor11, ef.InitWakeLossFFT, mainspec.MainWiring],
        'native_sweep': {'harness': 'ef_replay', 'runs': ef.EF_RUNS + [['wake', 16, '11', 16, n_, 8] for n_ in (34, 38, 42, 46, 50, 54, 58, 62, 66, 70)] + [['fftw', 2, 64], ['fftw', 127, 129], ['fftw', 255, 257], ['fftw', 511, 513], ['fftw', 1023, 1025], ['fftw', 2048, 2048]]},
        'lemmas': [],
        'level': 'other',
        'claim': 'every cell a transform reads is determined by the current profile/impedance or is a never-written zero: train layout incl. zeros outside the bunch ranges, '
                 'loss spectrum rewritten below n/2 and zero from n/2, class invariants re-established by wakePotential; for all lengths and patterns. '
                 'updateCSR on an object with non-zero bunch spacing is outside the claim; that main computes the CSR spectrum on an object of its own is an obligation (main#wiring.csr_field_is_an_object_of_its_own)',
        'assumptions': [A_IDEAL, A_LIB, DROPS, 'A-FFTW-R2C', 'A-FFTW-C2R (observed: c2r never modifies in[k >= n/2])'],
        'uncovered': ['interleaving updateCSR with wakePotential on one object with spacing > 0 (updateCSR writes the profile at offset 0, not re-zeroed)', 'bit-identity (ideal arithmetic)'],
        'explanation': 'freshness expressed functionally: posts fix the value of every transform input cell',
        'technique': TECH,
    },
    'C07': {
        'units': [ef.UpdateCSR, ef.WakePotential, z.FreeSpaceCSRCalc, z.ResistiveWallCalc, z.ConstImpedanceCalc, z.ParallelPlatesCalc, z.CollimatorCtor, z.MakeImpedance, ef.ElectricFieldScale],
        'lemmas': [],
        'lean': [('lemmas/Parseval.lean', 'L-PARSEVAL.power_eq_wake_loss', {'C07'})],
        'level': 'other',
        'claim': 'every spectrum sample equals renorm * g(f_i) * Re Z[i] * |F_n[i]|^2 with the impedance and cut-off of THIS call (g = 1 or 1 - exp(-(f_i/f_c)^2)) and F_n the forward transform of bunch n current profile over the untouched padding; '
                 'for a passive impedance the CSR spectrum is non-negative at every frequency and bunch, the integrated power is the frequency step times the sum of the spectrum and is non-negative '
                 '(with or without cutoff); passivity of the impedance models and of the factory sum is proved under C16',
        'assumptions': [A_IDEAL, A_LIB, DROPS, 'L-PARSEVAL: sum_j rho_j W_j = sum_k c_k Re Z_k |F_k|^2 for W_j = sum_k c_k Re(Z_k F_k e_jk) is machine-checked by Lean 4 + Mathlib on every run (lemmas/Parseval.lean); that FFTW c2r of the half spectrum IS that sum (c_0 = 1, c_k = 2) is the FFTW contract A-FFTW-C2R', 'libm: 0 < exp(x), exp(x) <= 1 for x <= 0', 'multiplication abstracted to its sign rules'],
        'uncovered': ['monotonicity in the cutoff', 'the Nyquist term when the transform length is even (statement excludes it)'],
        'explanation': 'sign and summation posts of updateCSR',
        'technique': TECH,
    },
    'C16': {
        'units': Z_UNITS + [io.ProgramOptionsGetters, mainspec.MainFields],
        'native_sweep': {'harness': 'ef_replay', 'runs': [['z', n_] for n_ in list(range(2, 40)) + [255, 256, 257, 1023, 1024]] + z.FACTORY_SWEEP + [['zfile']]},
        'lemmas': [],
        'level': 'other',
        'claim': 'every impedance model (free-space CSR, parallel plates, resistive wall, constant, collimator) returns exactly n samples (n >= 2), zero above n/2, non-negative real part; '
                 'cube-root law (free space), square-root law with a frequency-independent prefactor and Im = -Re (resistive wall), positive constant resistance Z0/pi*ln(outer/inner) (collimator); '
                 'every model constructor stores exactly what its __calcImpedance returns for the same arguments; operator+= is the element-wise sum over the common length; '
                 'the factory returns nullptr iff nothing is selected and otherwise the element-wise sum of exactly the selected models with the stated arguments (CSR models at f0 = c/(2 pi R), wall at f_rev with L = c/f_rev and radius |gap|/2) plus the file samples',
        'assumptions': [A_IDEAL, A_LIB, DROPS, 'libm: pow(x>=0,y) >= 0, sqrt(x>=0) >= 0, log(x>1) > 0; Airy functions uninterpreted',
                        'Impedance::readData is under contract for C17 (no value used that was not read; std::istream modelled by its fail/eof flags); what it returns is otherwise an arbitrary vector of any length',
                        'model value symbols Z_<Model>(args,k) in the factory contract are definitional: each model constructor is a deterministic function of its arguments',
                        'ParallelPlatesCSR: the mode count 2*f*gap/c converted to uint32_t is below 2^31 (domain assumption on the derived value, VacuumGap*f_max < 3e17 m/s)',
                        'catch(...) in ParallelPlatesCSR is modelled as a nondeterministic jump to the handler with the try-body writes havoced'],
        'uncovered': ['parallel-plates value law (Airy sums): only shape and passivity are proved', 'causality (one-sidedness of the wake) and asymptotics (wide gaps, below cutoff)', 'n in {0,1}', 'finiteness of the samples (ideal arithmetic has no infinities)'],
        'explanation': 'shape, passivity and closed-form posts of the __calcImpedance functions',
        'technique': TECH,
    },
    'C03': {
        'units': [mainspec.MainMaps, sm.RFCalcKick, sm.RFKickMapLinearCtor, sm.RFKickMapSinCtor, sm.DriftMapCtor, sm.KickMapCtor, sm.UpdateSM, sm.KickMapApply,
                  sm.CalcCoefficiants, ps.RulerCtor, mainspec.MainConfig, mainspec.MainPhysics, mainspec.MainGrid, mainspec.MainUnits, mainspec.MainWiring, mainspec.MapDispatch, io.ProgramOptionsGetters],
        'lemmas': [sm.lemmas_c03, sm.lemmas_weights],
        'level': 'other',
        'claim': 'one-step law: the RF map displaces row x by tan(angle)*(zerobin-x) cells (sinusoidal: the stated sine law), the drift displaces row y by slip*p(y)/delta_q with slip0 = angle = 2*pi/steps, '
                 'positions measured from the zero bin of the (possibly shifted) axis; the resulting centroid map has determinant 1 and trace 2-theta*tan(theta); closure over a full period follows analytically and is not machine-checked',
        'assumptions': [A_IDEAL, A_LIB, DROPS, 'tan/sin uninterpreted'],   # equal cell sizes in q and p: no longer assumed, obligation main#post.both_axes_span_PhaseSpaceSize (MainGrid)
        'uncovered': ['orbit closure after steps iterations (analytic consequence of the one-step matrix)', 'small-amplitude linearisation of the sinusoidal model'],
        'explanation': 'contracts of the RF and drift map builders, of the axis, and of main configuration arithmetic, plus matrix lemma',
        'technique': TECH,
    },
    'C04': {
        'units': [sm.FokkerPlanckCtor, sm.FokkerPlanckApply, ps.Variance, ps.Average, ps.RulerCtor, mainspec.MainPhysics, mainspec.MainWiring, mainspec.MapDispatch, mainspec.MainMaps, io.ProgramOptionsGetters],
        'lemmas': [sm.lemmas_fp, sm.lemmas_c04, ps.lemmas_ruler],
        'level': 'other',
        'claim': 'per-step moment law of the damping/diffusion operator the constructor builds (all four variants, both stencils): m0=1, mean -> (1-e1)*mean, second moment -> (1-2e1)v + 2e1 - c*e1*delta^2 with 0<=c<=1, '
                 'e1 = 2/(fs*t_damp*steps); reported spread is the square root of the second moment of the bunch own projection; the scalar recurrence contracts to 1 - c*delta^2/2',
        'assumptions': [A_IDEAL, A_LIB, DROPS],
        'uncovered': ['coupling with the rotation and numerical diffusion of the interpolation over many damping times (whole-run statement)'],
        'explanation': 'row contract of the stencil table + pure moment lemmas + recurrence lemma',
        'technique': TECH,
    },
    'C17': {
        'main_scenarios': ['voltage'],
        'units': SM_KICK + SM_FP + [sm.IdentityApply, sm.KickMapApplyTo, sm.FokkerPlanckApplyTo, sm.SourceMapApplyToAll,
                                    ps.RulerCtor, ps.SimpsonWeights, ps.UpdateXProjection, ps.UpdateYProjection, ps.Integrate, ps.Normalize, ps.Average, ps.Variance, ps.Swap, ps.MakePSFromTXTLoop, ps.PhaseSpaceCtor, ps.PhaseSpaceCtor8, ps.PhaseSpaceCtor12, ps.PhaseSpaceCopyCtor, ps.CreateFromProjections, ps.Gaus,
                                    ef.PadBunchProfiles, ef.WakePotential, ef.UpdateCSR, ef.ElectricFieldCtor, ef.ElectricFieldCtor11, ef.InitWakeLossFFT,
                                    mainspec.MainConfig, mainspec.MainVoltage, mainspec.MainTrackingFile, mainspec.MainStartDistribution, mainspec.MainMaps, mainspec.MainFields, io.HDF5FileSources, io.HDF5AppendField, io.HDF5AppendTracks, io.HDF5MakeDatasetInfo3f, io.HDF5MakeDatasetInfo1f, io.HDF5MakeDatasetInfo1u, io.HDF5MakeDatasetInfo2f, io.HDF5MakeDatasetInfo4f, io.HDF5AppendData3f, io.HDF5AppendData2f, io.HDF5AppendData1f, io.HDF5AppendData4f, io.HDF5AppendData2a, io.HDF5AppendData3p, io.ReadPhaseSpace, io.ProgramOptionsGetters] + Z_UNITS,
        'leaves': [leaf.UpperPow2Leaf, leaf.FPApplyToLeaf, leaf.KickApplyToLeaf, leaf.PSxLeaf, leaf.PSyLeaf],
        'lemmas': [],
        'level': 'other',
        'claim': 'every array subscript, pointer range (copy_n/fill_n/inner_product/FFT buffers), float-to-integer conversion, signed overflow, unsigned index product and division in the units under contract '
                 'is proved defined under the class invariants, and main establishes the padded-buffer precondition for every bucket; unbounded in all sizes',
        'assumptions': ['documented option domain assumed where main hands options to the map constructors unvalidated (slice main/maps): InterpolationPoints in 1..4, derivation 4 only with GridSize >= 4, FPType in 0..3, RF frequency and revolution part positive, three momentum-compaction terms; slice main/fields: padded and spaced buffer lengths in [GridSize, 2^32) (lower bound proved by the configuration slice), fmax, f_rev, R_bend positive, E0 and sE non-zero', A_IDEAL, A_LIB, DROPS, 'libraries are memory safe when their stated preconditions hold', 'documented option domain (see MainConfig.requires and domain_after)'],
        'uncovered': ['functions not under contract: the Gaussian start distribution inside the PhaseSpace constructor (frame-only), the file-opening and line-counting prologue of makePSFromTXT (its particle loop is under contract with std::istream modelled by fail/eof flags), HDF5File, ProgramOptions, RotationMap, Display',
                      'uninitialised reads (tables are written before use by construction order, checked only where a unit reads what it wrote)',
                      ],
        'explanation': 'automatic safety obligations of all units',
        'technique': TECH,
    },
    'C19': {
        'main_scenarios': ['rfkicks'],
        'units': [mainspec.MainWiring, mainspec.MapDispatch, mainspec.MainMaps, io.ProgramOptionsGetters, dynrf.CalcModulation, dynrf.DynRFLinearCtor, dynrf.DynRFSinCtor, dynrf.DynCalcKick, dynrf.DynApply, dynrf.GetPastModulation, io.HDF5AppendData2a, io.HDF5FileSources, mainloop.MainLoop,
                  sm.RFCalcKick, sm.RFKickMapLinearCtor, sm.RFKickMapSinCtor],
        'lemmas': [dynrf.lemmas_c19],
        'level': 'other',
        'claim': 'both dynamic constructors leave the RF sub-object in exactly the state of the static constructor of the same model (clang-resolved base constructor is what is executed); with all amplitudes zero every queue entry is (synchronous phase, 1), '
                 'so every kick equals the static kick; apply() computes the kick from the front entry, records exactly that entry and consumes it; getPastModulation returns all records and empties the list; '
                 'pure sinusoidal modulation has the configured amplitude and angular step',
        'assumptions': [A_IDEAL, A_LIB, DROPS, 'random draws are unconstrained reals', 'std::queue / std::vector models'],
        'uncovered': ['that the HDF5 library stores what DataSet::write is handed (HDF5File::appendRFKicks -> _appendData are under contract up to the library calls)'],
        'explanation': 'constructor-state and queue contracts of DynamicRFKickMap',
        'technique': TECH,
    },
    'C05': {
        'units': [mainloop.MainLoop, mainspec.MainConfig, mainspec.MainPhysics, mainspec.MainGrid, mainspec.MainUnits, mainspec.MainFields, mainspec.MainWiring, mainspec.MapDispatch, io.ProgramOptionsGetters, sm.WakePotentialMapUpdate, sm.WakeKickMapCtor, sm.WakePotentialMapCtor, sm.WakeMapsKeepOwnRows, ef.ElectricFieldScale, sm.RFCalcKick, sm.DriftMapCtor, sm.FokkerPlanckCtor, ef.WakePotential, sm.UpdateSM, sm.KickMapApply],
        'lemmas': [sm.lemmas_fp, sm.lemmas_c03],
        'level': 'other',
        'claim': 'the ingredients of the stationary (Haissinski) relation are proved on the code: within one step the wake potential is computed from the projection left by the previous step, then wake kick, RF kick, drift, '
                 'damping/diffusion, projection — in this order for every output cadence; the wake kick offsets are scale*IDFT(Z*DFT(profile)) read back per bunch; RF and drift laws; unit-variance diffusion moments; dt and revolution part. '
                 'The derivation from these facts to ln rho + q^2/2 - (1/dtheta) int W = const is in lemmas/C05.md and is not machine-checked',
        'assumptions': [A_IDEAL, A_LIB, DROPS, 'event contracts of the control skeleton abstract each callee by an uninterpreted function of the locations its verified contract reads; which grid each map reads and writes and which variables its constructor receives are obligations over main construction sites (main#wiring.*)'],
        'uncovered': ['the equilibrium statement itself'],
        'explanation': 'control skeleton of main + contracts of the force-law units',
        'technique': TECH,
    },
    'C12': {
        'main_scenarios': ['cadence'],
        'units': [mainloop.MainLoop, mainspec.MainWiring, mainspec.MapDispatch, io.ProgramOptionsGetters, ps.Integrate, ps.Variance, ps.UpdateYProjection, ps.UpdateXProjection, ef.UpdateCSR, sm.KickMapApply, sm.FokkerPlanckApply, sm.IdentityApply, dynrf.DynApply, dynrf.DynCalcKick, dynrf.DynRFLinearCtor, dynrf.DynRFSinCtor],
        'lemmas': [],
        'level': 'other',
        'claim': 'one loop iteration maps the physics state (three grids, x-projection, wake offsets, tracked particles) to the same value whether or not the output block runs: proved on main by a relational invariant over event contracts; '
                 'the frames of the observation functions (integrate, variance, updateYProjection, updateCSR) and of the transport maps are proved on their own code',
        'assumptions': [A_IDEAL, A_LIB, DROPS, 'FFTW plans deterministic', 'HDF5File::append* and Display do not write simulation state (not under contract)', 'bit-identity is argued from equal operations on equal inputs, not from IEEE semantics'],
        'uncovered': ['verbosity and file name independence', 'equality of two separate program runs'],
        'explanation': 'relational step invariant on the control skeleton plus frame postconditions',
        'technique': TECH,
    },
    'C14': {
        'main_scenarios': ['interrupt', 'records'],
        'units': [mainloop.MainLoop, io.HDF5AppendData3f, io.HDF5AppendData4f, sig.SigintHandler, sig.SignalSetup],
        'lemmas': [],
        'level': 'other',
        'claim': 'the SIGINT handler writes Display::abort = true and nothing else; main binds SIGINT to it exactly once, before the loop, by a call that keeps it installed (so repeated interrupts are idempotent); with the abort flag modelled as a monotone flag that may become set at every read, the loop can only be left at its head (a step in progress completes), the final-record block then appends exactly one record for the state reached when a file is open, '
                 'all time-indexed datasets have equal length at exit, pending RF records are flushed, a closing message is printed and main returns EXIT_SUCCESS',
        'assumptions': [DROPS, 'signal delivery does not make library calls fail', 'set-up phase between the installation of the handler and the loop: covered only in so far as the request is neither cleared nor read there (main#signal.request_never_cleared, request_not_consumed_before_the_loop), so it reaches the loop condition; exceptions thrown during set-up while a request is pending are not modelled', 'signal(2) has BSD semantics (glibc): the handler stays installed'],
        'uncovered': ['signals during set-up beyond the two facts proved (handler installed by the first statement; main never stores anything but true into the flag) — the set-up code is not enumerated statement by statement', 'HDF5 library behaviour under EINTR', 'identity of earlier records with the uninterrupted run (follows from C12 claim)'],
        'explanation': 'posts of the control skeleton at function exit',
        'technique': TECH,
    },
    'C10': {
        'main_scenarios': ['records'],
        'units': [mainloop.MainLoop, mainspec.MainWiring, mainspec.MapDispatch, mainspec.MainUnits, io.HDF5FileUnits, ps.PhaseSpaceCtor12, ps.RulerCtor, ef.ElectricFieldScale, io.ProgramOptionsGetters, io.ProgramOptionsPrecedence, io.ProgramOptionsSave, ps.UpdateXProjection, ps.UpdateYProjection, ps.Integrate, ps.Variance, ef.WakePotential, ef.UpdateCSR, io.HDF5FileSources, io.HDF5AppendField, io.HDF5AppendTracks, io.HDF5MakeDatasetInfo3f, io.HDF5MakeDatasetInfo1f, io.HDF5MakeDatasetInfo1u, io.HDF5MakeDatasetInfo2f, io.HDF5MakeDatasetInfo4f, io.HDF5AppendData3f, io.HDF5AppendData2f, io.HDF5AppendData1f, io.HDF5AppendData4f, io.HDF5AppendData2a, io.HDF5AppendData3p, io.ReadPhaseSpace, io.MakePSFromHDF5],
        'lemmas': [],
        'level': 'other',
        'claim': 'partial: every record of a multi-row dataset takes row b from row b of its source (dataset extents vs buffer layout; for /CSR/Spectrum proved on the row copy of append(ElectricField*)) and no append reads beyond its source buffer; at every output event and at exit the CSR, wake-potential and particle datasets receive as many records as the time axis; the time value of the final record is simulationstep/steps; the derived quantities appended are the ones '
                 'computed by the verified projection/moment/CSR functions from the current grid (refresh calls precede the append in the skeleton); pending RF records are flushed at exit; '
                 'unit factors: each of the 26 attributes the file constructor attaches is written from the quantity of its name (metres/seconds from the position axis\' unit-scale table, eV from the energy axis\', amperes/coulombs from the grid\'s current/charge, period and turns from the values main hands in, volts / W/Hz / W from the field), the grid carries the bl, dE, Qb, Ib that main derives from the recorded parameters by the documented formulas (generated and loaded start grids alike)',
        'assumptions': [DROPS, 'HDF5File: the pairing dataset <- source accessor, the record extents of every dataset against the layout of its source buffer (class invariants of PhaseSpace / ElectricField / KickMap), and one record per append call are obligations over AST facts; append(const ElectricField*, bool) is enforced by the VCG with _appendData bound to a capture of pointer and buffer contents; the HDF5 library is trusted to transfer exactly the selected extents'],
        'uncovered': ['frequency axis values', 'time values of intermediate records', 'the physics of the unit formulas themselves (they are pinned as documented: natural bunch length, energy spread, charge, synchrotron period, W/Hz and W factors)', 'factor4Ohms of the impedance (a constant of the class)'],
        'explanation': 'ghost row counters on the control skeleton',
        'technique': TECH,
    },
    'C11': {
        'main_scenarios': ['restart'],
        'units': [io.ReadPhaseSpace, io.MakePSFromHDF5, io.HDF5FileSources, mainspec.MainStartDistribution, mainloop.MainLoop, io.ProgramOptionsGetters, io.ProgramOptionsPrecedence],
        'native_sweep': {'harness': 'h5start_replay', 'runs': [['all']], 'hdf5': True},
        'lemmas': [],
        'level': 'other',
        'claim': 'loading and refusing: HDF5File::readPhaseSpace selects exactly the requested record of /PhaseSpace/data (use_step counted from the end when negative, -1 = last), the whole record for the square grids Inovesa writes, '
                 'reads it into a single-bunch phase space whose grid size is the one stored in the file and whose buffer the read fits; a multi-bunch record, an unexpected rank, a file without records or an unusable grid size is refused by an exception '
                 '(every failure of the loader is caught, reported and turned into a null result by makePSFromHDF5; main goes on only with what the loader delivered, otherwise it ends after naming the file; the file name reaches main as the user gave it). '
                 'That continuing for T2 periods ends in the phase space of an uninterrupted run is a statement about two whole executions: not a contract; the thorough tier runs it on the real binary (scenario restart: three renormalisation settings, and missing / non-HDF5 / directory start files)',
        'assumptions': [A_LIB, DROPS, 'HDF5 library: getSimpleExtentDims reports the extents of the dataset (record count < 2^48, per-record extents < 2^31), selectHyperslab(count,start) selects prod(count) points starting at start, '
                        'DataSet::read transfers as many elements as the memory data space holds, a null extent array with positive rank is reported as an error (observed: rank-2 file)',
                        'every other member call on an H5:: object is bound to a generic contract: may write through its pointer arguments, returns an arbitrary value'],
        'uncovered': ['equality of the continued run with the uninterrupted run (two program executions)', 'bit-exactness of the stored values (HDF5 type conversion is library behaviour)', 'that the H5::H5File constructor throws for a missing or unreadable file (library behaviour; what happens WHEN it throws is under contract: makePSFromHDF5#a_failed_load_yields_a_message_and_null, main#post.run_continues_only_with_the_loaded_start_distribution)'],
        'explanation': 'contract of HDF5File::readPhaseSpace with the HDF5 calls bound to stated library contracts',
        'technique': TECH,
    },
    'C13': {
        'native_sweep': {'harness': 'po_replay', 'runs': [['getters'], ['roundtrip']], 'hdf5': True},
        'units': [io.ProgramOptionsSave, io.ProgramOptionsGetters],
        'lemmas': [],
        'level': 'other',
        'claim': 'writer logic only: every option registered in the constructor (name and value type as resolved by clang) that is not in the writer own skip list has a value type the writer can write; alpha0 is replaced by 0 only when a synchrotron frequency is given; every legacy alias the writer skips has its value copied by parse() into the stored value of the canonical option bound to the same member; entries are left out by name only (or, if by their defaulted flag, no stored value is modified in place); '
                 'the parent config name is written as a comment',
        'assumptions': ['boost::program_options parses what the writer prints (text round trip of numbers, repeated keys for vector options) — not modelled', 'AST pattern extraction of the registration table (59 options found on the pinned tree; fewer than 40 aborts)'],
        'uncovered': ['that the C++ stream prints / boost parses max_digits10 digits exactly (library behaviour; the number of digits written is an obligation, the round trip is exercised natively by po_replay)', 'options given in a parent config file (stored by program_options like any other; exercised natively by po_replay)', 'that rerunning reproduces the results'],
        'explanation': 'obligations over facts extracted from the real AST of the constructor and of save()',
        'technique': 'contract over AST-extracted registration/dispatch tables (writer covers every registered value type), z3 for the alpha0 branch condition',
    },
    'C20': {
        'main_scenarios': ['options'],
        'units': [io.ProgramOptionsPrecedence, io.ProgramOptionsSave, io.ProgramOptionsGetters],
        'native_sweep': {'harness': 'po_replay', 'runs': [['getters'], ['roundtrip']], 'hdf5': True},
        'lemmas': [],
        'level': 'other',
        'claim': 'partial — Inovesa\'s own part of the option handling, with boost::program_options bound to four stated library contracts (A-PO-STORE, A-PO-NOTIFY, A-PO-THROW, A-PO-DEFAULT): the command line is stored before the config file; a config file knows every run option the command line knows; each legacy name is accepted in config files only, its value reaches the stored value and the member of the current name, and it yields to the current name when that is given itself (entry erased before the final notify); '
                 'options accepted for compatibility only are bound to variables main never reads; a config file that does not exist is reported and refused; main reports a parse error with a non-zero status, returns at once on a refused invocation, and parses before anything is built; every accessor returns the member of the option of its meaning',
        'assumptions': ['A-PO-STORE: variables_map::store never replaces a value stored earlier unless it is defaulted', 'A-PO-NOTIFY: notify applies every stored value to its bound variable, in option-name order',
                        'A-PO-THROW: parse_command_line / parse_config_file / store throw a std::exception on an unknown option or a malformed value', 'A-PO-DEFAULT: an option not given has defaulted() == true and carries the registered default',
                        'AST pattern extraction of the registration table, the option groups, the guards of the alias copies and main\'s prologue (a change of shape gives exit 2, not a verdict)'],
        'uncovered': ['a malformed value in a config file for an option that is ALSO given on the command line is never looked at (boost store() skips options that already have a value): the run goes on with the command-line value, no message (observed: StepsPerTs=abc in the file with -N 10); the refusals are claimed for values that would be used', 'the library behaviour itself (exercised on every thorough run by the whole-program scenario `options` and by po_replay, not proved)', 'the documented default values (no machine-readable source to compare with)', 'legal-value domains of individual options'],
        'explanation': 'obligations over facts extracted from the real AST of the ProgramOptions constructor, parse() and the prologue of main',
        'technique': 'contract over AST-extracted facts (store order, option groups, guard chains of the legacy-name copies, catch handlers) under enumerated library contracts for boost::program_options; whole-program scenarios as bounded stand-in for the library part',
    },
}
