"""Which units and lemmas serve which property (DESIGN §4/§5)."""
from . import sm

A_IDEAL = 'A-IDEAL: float/double arithmetic treated as real arithmetic, source literals exact (rounding not modelled)'
A_SUMCOMM = 'L-SUMCOMM: interchange of finite double sums (column sums = 1 => total conserved) not machine-checked'
A_LIB = 'library containers (std::vector, boost::multi_array, shared_ptr) behave as sequences/references (models in vf/models.py)'
DROPS = 'extraction drops: preprocessor-disabled OpenCL/OpenGL/PNG branches, destructors of temporaries, text output, exception propagation'

PENDING = 'not yet claimed: units for this property are still being brought under contract (see DESIGN.md §10)'
NOT_APPLICABLE = {
    'C11': 'relation between two complete program executions through an HDF5 file; no function contract expresses it (DESIGN §6)',
    'C20': 'behaviour is produced inside boost::program_options; a contract proof would be about an axiomatisation of boost (DESIGN §6)',
}
for _p in ('C01 C02 C03 C04 C05 C06 C07 C09 C10 C12 C13 C14 C15 C16 C17 C18 C19').split():
    NOT_APPLICABLE[_p] = PENDING

PROPERTIES = {
    'C08': {
        'units': [sm.CalcCoefficiants, sm.UpdateSM, sm.KickMapApply],
        'lemmas': [],
        'level': 'proof',
        'claim': 'every transport map transforms bunch n using only bunch n data and the table rows belonging to n (or the shared rows); frames proved; unbounded in grid size, bunch count, interpolation order',
        'assumptions': [A_IDEAL, A_LIB, DROPS],
        'explanation': 'per-bunch functional postconditions (ghost cell n,x,y) and frames of every transport map',
    },
}
