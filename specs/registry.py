"""Which units and lemmas serve which property (DESIGN §4/§5)."""
from . import sm

A_IDEAL = 'A-IDEAL: float/double arithmetic treated as real arithmetic, source literals exact (rounding not modelled)'
A_SUMCOMM = 'L-SUMCOMM: interchange of finite double sums (column sums = 1 => total conserved) not machine-checked'
A_LIB = 'library containers (std::vector, boost::multi_array, shared_ptr) behave as sequences/references (models in vf/models.py)'
DROPS = 'extraction drops: preprocessor-disabled OpenCL/OpenGL/PNG branches, destructors of temporaries, text output, exception propagation'

PROPERTIES = {
    'C08': {
        'units': [sm.CalcCoefficiants, sm.UpdateSM, sm.KickMapApply],
        'lemmas': [],
        'level': 'proof',
        'assumptions': [A_IDEAL, A_LIB, DROPS],
        'explanation': 'per-bunch functional postconditions (ghost cell n,x,y) and frames of every transport map',
    },
}
