"""Which units and lemmas serve which property (DESIGN §4/§5)."""
from . import sm, ps

A_IDEAL = 'A-IDEAL: float/double arithmetic treated as real arithmetic, source literals exact (rounding not modelled)'
A_SUMCOMM = 'L-SUMCOMM: interchange of finite double sums (column sums = 1 => total conserved) not machine-checked'
A_LIB = 'library containers (std::vector, boost::multi_array, shared_ptr) behave as sequences/references (models in vf/models.py)'
DROPS = 'extraction drops: preprocessor-disabled OpenCL/OpenGL/PNG branches, destructors of temporaries, text output, exception propagation'

PENDING = 'not yet claimed: units for this property are still being brought under contract (see DESIGN.md §10)'
NOT_APPLICABLE = {
    'C11': 'relation between two complete program executions through an HDF5 file; no function contract expresses it (DESIGN §6)',
    'C20': 'behaviour is produced inside boost::program_options; a contract proof would be about an axiomatisation of boost (DESIGN §6)',
}
for _p in ('C03 C04 C05 C06 C07 C10 C12 C13 C14 C16 C17 C18 C19').split():
    NOT_APPLICABLE[_p] = PENDING

SM_KICK = [sm.CalcCoefficiants, sm.UpdateSM, sm.KickMapApply, sm.SourceMapCtor, sm.SourceMapCtor7, sm.KickMapCtor,
           sm.RFCalcKick, sm.RFKickMapLinearCtor, sm.RFKickMapSinCtor, sm.DriftMapCtor]
SM_FP = [sm.FokkerPlanckCtor, sm.FokkerPlanckApply]
TECH = 'contract-based deductive verification: contracts (specs/*.py) enforced on the real functions by a VCG over the clang AST, z3 (cvc5 second opinion); lemma layer over contract symbols'

PROPERTIES = {
    'C01': {
        'units': SM_KICK + SM_FP + [sm.IdentityApply],
        'lemmas': [sm.lemmas_weights, sm.lemmas_c01_col, sm.lemmas_fp, sm.lemmas_fp_transition],
        'level': 'proof',
        'claim': 'every transport operator (kick maps via table rows, Fokker-Planck stencil, identity) has interior column sums 1 '
                 '(FP: within e1 next to the zero-energy bin): functional posts of apply + row contracts of the table builders + weight lemmas; '
                 'unbounded in grid size, bunch count, order, offsets; ideal arithmetic',
        'assumptions': [A_IDEAL, A_SUMCOMM, A_LIB, DROPS, 'WakePotentialMap::update is covered under C05/C06 (same KickMap::updateSM/apply contracts)'],
        'explanation': 'column sums of each step operator from the contracts of the table builders and of apply',
        'technique': TECH,
    },
    'C02': {
        'units': [sm.CalcCoefficiants, sm.UpdateSM, sm.KickMapApply],
        'lemmas': [sm.lemmas_weights],
        'level': 'other',
        'claim': 'weights are the Lagrange basis on the stated nodes (partition of unity, reproduction of monomials below the order, unit vector at f=0) and '
                 'the table row/stencil selection of updateSM/apply is proved for all sizes in ideal arithmetic; bit-exactness of whole-cell shifts and the rounding of the '
                 '2^30 fractional weights are not covered by this check',
        'assumptions': [A_IDEAL, A_LIB, DROPS],
        'uncovered': ['bit-for-bit equality of whole-cell shifts (needs IEEE semantics)', 'rounding error of the weights over all 2^30 single-precision offsets', 'RotationMap::genHInfo'],
        'explanation': 'polynomial-reproduction lemmas over the contract weights plus the functional contracts of updateSM and apply; level other because rounding is not modelled',
        'technique': TECH,
    },
    'C08': {
        'units': SM_KICK + SM_FP + [sm.IdentityApply],
        'lemmas': [sm.lemmas_c08],
        'technique': TECH,
        'level': 'proof',
        'claim': 'every transport map transforms bunch n using only bunch n data and the table rows belonging to n (or the shared rows); frames proved; unbounded in grid size, bunch count, interpolation order',
        'assumptions': [A_IDEAL, A_LIB, DROPS],
        'explanation': 'per-bunch functional postconditions (ghost cell n,x,y) and frames of every transport map',
    },
    'C15': {
        'units': [sm.KickMapApplyTo, sm.FokkerPlanckApplyTo, sm.UpdateSM, sm.CalcCoefficiants],
        'lemmas': [sm.lemmas_weights],
        'level': 'other',
        'claim': 'a tracked particle is displaced by minus the linearly interpolated offset (the displacement of the charge, by the k=1 moment lemma), every map keeps both '
                 'coordinates on the grid, the stochastic model is an Ornstein-Uhlenbeck step about the zero-energy bin; for every real position/offset (ideal arithmetic)',
        'assumptions': [A_IDEAL, A_LIB, DROPS, 'random draws are unconstrained reals', 'HDF5File::appendTracks index obligation is part of C17'],
        'uncovered': ['statistical statement that an ensemble keeps mean and width (consequence of the OU step, not machine-checked)', 'NaN/inf inputs (ideal arithmetic has none)'],
        'explanation': 'posts of KickMap::applyTo and FokkerPlanckMap::applyTo for all four tracking models',
        'technique': TECH,
    },
    'C09': {
        'units': [ps.RulerCtor, ps.SimpsonWeights, ps.UpdateXProjection, ps.UpdateYProjection, ps.Integrate, ps.Normalize,
                  ps.Average, ps.Variance, ps.Swap, ps.Assign],
        'lemmas': [ps.lemmas_normalize],
        'level': 'proof',
        'claim': 'normalize scales every cell of bunch n by set/filling (empty buckets to zero) and nothing else; projections are the Simpson-weighted sums; '
                 'integral, mean, variance and rms of bunch n are the stated sums over bunch n own projection and charge only; swap/assignment carry data and everything '
                 'derived from it; unbounded in grid size and bunch count, ideal arithmetic',
        'assumptions': [A_IDEAL, A_LIB, DROPS, 'finite sums are spec functions introduced by unfolding instances of their recursive definitions',
                        'PhaseSpace constructors (Gaussian start distribution, copy constructor) are not under contract: the copy constructor delegates to the main constructor which recomputes projections and integral by the verified methods'],
        'uncovered': ['discretisation error of Simpson sums for Gaussians (numerical analysis, not a code property)', 'PhaseSpace constructors'],
        'explanation': 'functional postconditions with ghost indices over every PhaseSpace method named by the property',
        'technique': TECH,
    },
}
