"""Contracts for ElectricField (src/PS/ElectricField.cpp) — FFTW by its stated contract."""
from .common import *
from .sm import Ruler_valid
from .ps import PS_valid

BP, FF, WL, WPP = 'this._bp_padded_fft', 'this._formfactor_fft', 'this._wakelosses_fft', 'this._wakepotential_padded'
FLOATT = parse_type_str('float')


def ef_setup(cx):
    """pointer members and plans as the constructors bind them (ElectricField ctor / _initWakeLossFFT)"""
    st, t = cx.st, cx.this or 'this'
    r = lambda p: p.replace('this', t, 1)
    st.scal[t + '._bp_padded'] = PtrV(r(BP), I(0))
    st.scal[t + '._bp_padded_fft'] = PtrV(r(BP), I(0))
    st.scal[t + '._formfactor'] = PtrV(r(FF), I(0))
    st.scal[t + '._formfactor_fft'] = PtrV(r(FF), I(0))
    st.scal[t + '._wakelosses'] = PtrV(r(WL), I(0))
    st.scal[t + '._wakelosses_fft'] = PtrV(r(WL), I(0))
    st.scal[t + '._wakepotential_padded'] = PtrV(r(WPP), I(0))
    nmax = cx.f('this._nmax', 'u64')
    st.scal[t + '._fft_bunchprofile'] = models.Plan('r2c', nmax, PtrV(r(BP), I(0)), PtrV(r(FF), I(0)))
    st.scal[t + '._fft_wakelosses'] = models.Plan('c2r', nmax, PtrV(r(WL), I(0)), PtrV(r(WPP), I(0)))
    nx, ny, nb = ps_globals(cx)
    st.dims[t + '._wakepotential'] = [nb, nx]
    st.dims[t + '._csrspectrum'] = [nb, nmax]
    st.dims[t + '._isrspectrum'] = [nb, nmax]
    st.dims[t + '._csrintensity'] = [nb]
    st.assume(declare_ps(cx, t + '._phasespace'))


def EF_valid(cx, spaced=True):
    """class invariant of ElectricField.  spaced: bunches sit in disjoint slots of the padded buffer (needed by padBunchProfiles /
    wakePotential only; the radiation field of main is built with spacing 0 for any number of bunches and only runs updateCSR)"""
    nx, ny, nb = ps_globals(cx)
    nmax, sp = cx.f('this._nmax', 'u64'), cx.f('this._spacing_bins', 'u64')
    z = 'this._impedance'
    return And(PS_static(cx), nmax >= nx, nmax >= 2, nmax < 2 ** 32, sp < 2 ** 32,
               cx.f('this._nbunches') == nb, cx.len('this._bucket') == nb,
               cx.len(BP) == nmax, cx.len(FF) == nmax, cx.len(WL) == nmax, cx.len(WPP) == nmax,
               cx.len('this._wakepotential') == nb * nx, cx.len('this._csrspectrum') == nb * nmax, cx.len('this._csrintensity') == nb,
               cx.f(z + '._nfreqs', 'u64') == nmax, cx.len(z + '._data') == nmax,
               Ruler_valid(cx, (cx.this or 'this') + '._axis_freq', nmax),
               Or(nb == 1, sp >= nx) if spaced else z3.BoolVal(True))


def bucket_inv():
    """every bunch fits into the padded buffer at its bucket position (established by main's config slice, U23)"""
    return ElemInv('this._bucket', '', 'int',
                   lambda c, k, v: Implies(And(k >= 0, k < c.f(PS_NB)), v * c.f('this._spacing_bins', 'u64') + c.f(PS_NX) <= c.f('this._nmax', 'u64')))


def outside_all(cx, k):
    """k is not inside any bunch's range of the padded buffer"""
    nx, ny, nb = ps_globals(cx)
    b = z3.Int('b!out')
    sp = cx.f('this._spacing_bins', 'u64')
    bk = z3.Select(cx.arr('this._bucket', '', 'int'), b)
    return z3.ForAll([b], Implies(And(b >= 0, b < nb), Or(k < bk * sp, k >= bk * sp + nx)))


EF_RUNS = [['wake', 16, '1', 0, 64, 1], ['wake', 16, '101', 20, 250, 2], ['wake', 16, '1011', 33, 258, 3], ['wake', 8, '11', 9, 30, 4],
           ['wake', 12, '10011', 13, 74, 5], ['wake', 16, '11', 17, 66, 6],
           ['wake', 16, '1', 0, 64, 101], ['wake', 16, '101', 20, 250, 102]]       # seeds >= 100: impedance table with a zero tail


class EFMethod(Contract):
    tu = 'src/PS/ElectricField.cpp'
    params = []

    def replay(self, o, model, pid):
        return {'harness': 'ef_replay', 'runs': EF_RUNS}

    def setup(self, cx):
        ef_setup(cx)

    def requires(self, cx):
        return [('valid', EF_valid(cx)), ('buckets_fit', bucket_inv())]


# =========================================================================== U16
class PadBunchProfiles(EFMethod):
    name = 'vfps::ElectricField::padBunchProfiles'
    tags = {'C06', 'C17', 'C18'}
    ghosts = {'b': 'int', 'x': 'int', 'k': 'int'}

    def requires(self, cx):
        # distinct buckets (main: one entry per non-empty bucket, strictly decreasing numbers)
        return EFMethod.requires(self, cx) + [('distinct', self.distinct(cx))]

    def distinct(self, cx):
        b1, b2 = z3.Ints('b1!d b2!d')
        nb = cx.f(PS_NB)
        bk = cx.arr('this._bucket', '', 'int')
        return z3.ForAll([b1, b2], Implies(And(b1 >= 0, b1 < b2, b2 < nb), z3.Select(bk, b1) > z3.Select(bk, b2)))

    def assigns(self, cx):
        return [('r', cx.R(BP))]

    def ensures(self, cx):
        nx, ny, nb = ps_globals(cx)
        b, x = cx.g('b'), cx.g('x')
        sp = cx.f('this._spacing_bins', 'u64')
        bk = cx.sel('this._bucket', b, '', 'int')
        return [('placed', {'C06', 'C18'}, Implies(And(b >= 0, b < nb, x >= 0, x < nx),
                                                   cx.sel(BP, bk * sp + x) == cx.old.sel('this._phasespace._projection', b * nx + x))),
                ('outside_unchanged', {'C18', 'C06'}, Implies(outside_all(cx, cx.g('k')), cx.sel(BP, cx.g('k')) == cx.old.sel(BP, cx.g('k')))),
                ('frame', {'C12', 'C18'}, cx.arr('this._phasespace._projection') == cx.old.arr('this._phasespace._projection'))]

    def _inv(self, cx):
        nx, ny, nb = ps_globals(cx)
        b, gb, gx = cx.v('b'), cx.g('b'), cx.g('x')
        sp = cx.f('this._spacing_bins', 'u64')
        bk = cx.sel('this._bucket', gb, '', 'int')
        return [('range', And(b >= 0, b <= nb)),
                ('done', Implies(And(gb >= 0, gb < b, gx >= 0, gx < nx), cx.sel(BP, bk * sp + gx) == cx.old.sel('this._phasespace._projection', gb * nx + gx))),
                ('outside', Implies(outside_all(cx, cx.g('k')), cx.sel(BP, cx.g('k')) == cx.old.sel(BP, cx.g('k')))),
                ('frame', cx.arr('this._phasespace._projection') == cx.old.arr('this._phasespace._projection'))]

    def _hints(self, cx, cxb):
        nx, ny, nb = ps_globals(cx)
        b, gb = cxb.v('b'), cx.g('b')
        sp = cx.f('this._spacing_bins', 'u64')
        bkb, bkg = cx.sel('this._bucket', b, '', 'int'), cx.sel('this._bucket', gb, '', 'int')
        return [('order', Implies(And(gb >= 0, gb < b, b < nb), bkg > bkb)),
                ('gap', Implies(And(gb >= 0, gb < b, b < nb), (bkg - bkb - 1) * sp >= 0)),
                ('disjoint', Implies(And(gb >= 0, gb < b, b < nb), bkg * sp >= bkb * sp + nx)),
                ('p', Implies(And(b >= 0, b < nb), (nb - 1 - b) * nx >= 0))]

    @property
    def loops(self):
        l = LoopSpec(inv=self._inv, hints=self._hints)
        l.split = split_ghost('b', 'b')
        return {'b#0': l}


def cmul(ar, ai, br, bi):
    m = models.FMUL
    return m(ar, br) - m(ai, bi), m(ar, bi) + m(ai, br)


# =========================================================================== U17
class WakePotential(EFMethod):
    name = 'vfps::ElectricField::wakePotential'
    tags = {'C05', 'C06', 'C07', 'C17', 'C18'}
    ghosts = {'b': 'int', 'x': 'int', 'i': 'int', 'k': 'int'}
    uf_mul = True

    def requires(self, cx):
        nmax = cx.f('this._nmax', 'u64')
        k = z3.Int('k!pz')
        # buffers allocated zeroed and only ever rewritten in the places rewritten on every call (class invariant)
        upper = lambda leaf: ElemInv(WL, leaf, 'real', lambda c, kk, v: Implies(And(kk >= c.f('this._nmax', 'u64') / 2, kk < c.f('this._nmax', 'u64')), v == 0))
        return EFMethod.requires(self, cx) + [('distinct', PadBunchProfiles().distinct(cx)),
                                              ('wl_upper_zero_re', upper('re')), ('wl_upper_zero_im', upper('im')),
                                              ('pad_zero_outside', z3.ForAll([k], Implies(And(k >= 0, k < nmax, outside_all(cx, k)), cx.sel(BP, k) == 0)))]

    def assigns(self, cx):
        return [('r', cx.R(BP)), ('r', cx.R(FF)), ('r', cx.R(WL)), ('r', cx.R(WPP)), ('r', cx.R('this._wakepotential'))]

    def ensures(self, cx):
        nx, ny, nb = ps_globals(cx)
        nmax, sp = cx.f('this._nmax', 'u64'), cx.f('this._spacing_bins', 'u64')
        b, x, i, k = cx.g('b'), cx.g('x'), cx.g('i'), cx.g('k')
        log = cx.ex.fft_log
        out = []
        if cx.ex.unit != self.short() and not cx.ex.unit.startswith(self.short()):
            # call-site view (another unit is being verified): frame only; the functional posts above are used through C06
            return [('frame', {'C12', 'C18'}, And(cx.arr('this._phasespace._projection') == cx.old.arr('this._phasespace._projection')))]
        if len(log) != 2 or log[0][0] != 'r2c' or log[1][0] != 'c2r':
            return [('transforms', {'C06'}, z3.BoolVal(False))]
        pad_in = log[0][1]
        wre, wim = log[1][1], log[1][2]
        bk = cx.sel('this._bucket', b, '', 'int')
        zre, zim = cx.sel('this._impedance._data', i, 're'), cx.sel('this._impedance._data', i, 'im')
        fre, fim = models.DFT_RE(pad_in, I(0), nmax, i), models.DFT_IM(pad_in, I(0), nmax, i)
        pre_, pim_ = cmul(zre, zim, fre, fim)
        inb = And(b >= 0, b < nb, x >= 0, x < nx)
        out += [('train.bunch', {'C06', 'C18'}, Implies(inb, z3.Select(pad_in, bk * sp + x) == cx.old.sel('this._phasespace._projection', b * nx + x))),
                ('train.zero', {'C06', 'C18'}, Implies(And(k >= 0, k < nmax, outside_all(cx, k)), z3.Select(pad_in, k) == 0)),
                ('product', {'C06', 'C05', 'C07', 'C18'}, Implies(And(i >= 0, i < nmax / 2), And(z3.Select(wre, i) == pre_, z3.Select(wim, i) == pim_))),
                ('halfspectrum', {'C06', 'C07', 'C18'}, Implies(And(i >= nmax / 2, i < nmax), And(z3.Select(wre, i) == 0, z3.Select(wim, i) == 0))),
                ('readback', {'C06', 'C05', 'C07', 'C18'}, Implies(inb, cx.sel('this._wakepotential', b * nx + x) ==
                                                            models.FMUL(cx.rf('this._wakescaling'), models.IDFT_H(wre, wim, nmax, nmax / 2, bk * sp + x)))),
                ('result', {'C05', 'C06'}, And(z3.BoolVal(isinstance(cx.ret, PtrV) and cx.ret.region == cx.R('this._wakepotential')), cx.ret.off == 0)),
                # class invariant re-established (so that the next call is again history free)
                ('inv.wl_upper_zero', {'C18'}, Implies(And(i >= nmax / 2, i < nmax), And(cx.sel(WL, i, 're') == 0, cx.sel(WL, i, 'im') == 0))),
                ('inv.pad_zero_outside', {'C18'}, Implies(And(k >= 0, k < nmax, outside_all(cx, k)), cx.sel(BP, k) == 0)),
                # the form-factor buffer is shared with updateCSR, which reads ALL nmax elements: what lies above n/2 (never
                # written by the forward transform) must stay what it was, or a later CSR spectrum depends on this call
                ('inv.formfactor_upper_untouched', {'C18'}, Implies(And(i > nmax / 2, i < nmax), And(cx.sel(FF, i, 're') == cx.old.sel(FF, i, 're'),
                                                                                                   cx.sel(FF, i, 'im') == cx.old.sel(FF, i, 'im')))),
                ('frame', {'C12', 'C18'}, And(cx.arr('this._phasespace._projection') == cx.old.arr('this._phasespace._projection'),
                                               cx.arr('this._impedance._data', 're') == cx.old.arr('this._impedance._data', 're')))]
        return out

    def result(self, cx):
        return PtrV(cx.R('this._wakepotential'), I(0))

    def _inv_i(self, cx):
        nmax = cx.f('this._nmax', 'u64')
        i, gi = cx.v('i'), cx.g('i')
        log = cx.ex.fft_log
        pad_in = log[0][1]
        zre, zim = cx.sel('this._impedance._data', gi, 're'), cx.sel('this._impedance._data', gi, 'im')
        fre, fim = models.DFT_RE(pad_in, I(0), nmax, gi), models.DFT_IM(pad_in, I(0), nmax, gi)
        pre_, pim_ = cmul(zre, zim, fre, fim)
        return [('range', And(i >= 0, i <= nmax / 2)),
                ('done', Implies(And(gi >= 0, gi < i), And(cx.sel(WL, gi, 're') == pre_, cx.sel(WL, gi, 'im') == pim_))),
                ('upper', Implies(And(gi >= nmax / 2, gi < nmax), And(cx.sel(WL, gi, 're') == 0, cx.sel(WL, gi, 'im') == 0))),
                ('ff', And(cx.arr(FF, 're') == cx.pre_arr(FF, 're'), cx.arr(FF, 'im') == cx.pre_arr(FF, 'im'))),
                ('pad', cx.arr(BP) == cx.pre_arr(BP))]

    def _inv_b(self, cx):
        nx, ny, nb = ps_globals(cx)
        nmax, sp = cx.f('this._nmax', 'u64'), cx.f('this._spacing_bins', 'u64')
        b, gb, gx = cx.v('b'), cx.g('b'), cx.g('x')
        return [('range', And(b >= 0, b <= nb))] + self._wp_done(cx, gb < b)

    def _wp_done(self, cx, before):
        nx, ny, nb = ps_globals(cx)
        nmax, sp = cx.f('this._nmax', 'u64'), cx.f('this._spacing_bins', 'u64')
        gb, gx = cx.g('b'), cx.g('x')
        log = cx.ex.fft_log
        wre, wim = log[1][1], log[1][2]
        bk = cx.sel('this._bucket', gb, '', 'int')
        return [('done', Implies(And(gb >= 0, gx >= 0, gx < nx, before), cx.sel('this._wakepotential', gb * nx + gx) ==
                                 models.FMUL(cx.rf('this._wakescaling'), models.IDFT_H(wre, wim, nmax, nmax / 2, bk * sp + gx)))),
                ('bufs', And(cx.arr(WPP) == cx.pre_arr(WPP), cx.arr(WL, 're') == cx.pre_arr(WL, 're'), cx.arr(WL, 'im') == cx.pre_arr(WL, 'im'), cx.arr(BP) == cx.pre_arr(BP)))]

    def _inv_x(self, cx):
        nx, ny, nb = ps_globals(cx)
        b, x, gb, gx = cx.v('b'), cx.v('x'), cx.g('b'), cx.g('x')
        return [('range', And(b >= 0, b < nb, x >= 0, x <= nx))] + self._wp_done(cx, Or(gb < b, And(gb == b, gx < x)))

    def _hints_x(self, cx, cxb):
        nx, ny, nb = ps_globals(cx)
        b, x, gb, gx = cxb.v('b'), cxb.v('x'), cx.g('b'), cx.g('x')
        return [('p1', Implies(b - gb - 1 >= 0, (b - gb - 1) * nx >= 0)),
                ('lex', Implies(And(gb >= 0, gx >= 0, gx < nx, Or(gb < b, And(gb == b, gx < x))), gb * nx + gx < b * nx + x)),
                ('p2', Implies(And(b >= 0, b < nb), (nb - 1 - b) * nx >= 0)), ('top', b * nx + x < nb * nx)]

    @property
    def loops(self):
        li = LoopSpec(inv=self._inv_i)
        li.split = split_ghost('i', 'i')
        li.defs = lambda cx, cxb: [cx.elem_fact(WL, 're', cx.g('i')), cx.elem_fact(WL, 'im', cx.g('i'))]
        lx = LoopSpec(inv=self._inv_x, hints=self._hints_x)
        same = lambda cx, cxb: And(cx.g('b') == cxb.v('b'), cx.g('x') == cxb.v('x'))
        lx.split = lambda cx, cxb: [('cur', same(cx, cxb)), ('other', Not(same(cx, cxb)))]
        return {'i#0': li, 'b#0': LoopSpec(inv=self._inv_b), 'x#0': lx}

    @property
    def calls(self):
        return {'vfps::ElectricField::padBunchProfiles': Use(PadBunchProfiles(), inst=lambda cx: [{'b': cx.ghost_of('b'), 'x': cx.ghost_of('x'), 'k': cx.ghost_of('k')}])}


# =========================================================================== U18
class UpdateCSR(EFMethod):
    name = 'vfps::ElectricField::updateCSR'
    params = ['cutoff_frequency']
    tags = {'C07', 'C17', 'C18', 'C12'}
    ghosts = {'n': 'int', 'i': 'int', 'k': 'int'}
    uf_mul = 'sign'      # only the sign rules of multiplication are needed
    uf_div = True
    # concrete sizes for the bounded re-check (used only after the loop contracts stopped fitting)
    bounded_cases = [(lambda nb_, nm_: (lambda cx: [cx.f(PS_NX) == 2, cx.f(PS_NY) == 2, cx.f(PS_NB) == nb_, cx.f('this._nmax', 'u64') == nm_]))(a_, b_) for a_, b_ in ((1, 2), (2, 3), (1, 3))]
    GIN = 'ghost.csr_in'  # ghost: the sequence handed to the forward transform in the iteration of ghost bunch n

    @property
    def calls(self):
        def fft(ex, n, st, objn, argn, this_override=None):
            r = models.fft_call(ex, n, st, 'fft_execute', argn)
            kind, a, _b, nn = ex.fft_log[-1]
            cx = Ctx(ex, st, ex.entry, ex.args0)
            old = st.array(self.GIN, '', parse_type_str('float'))
            st.arr[(self.GIN, '')] = z3.If(cx.v('n') == ex.unit_ghosts['n'], a, old)
            ex.logw(('r', self.GIN))
            return r
        return {'fft_execute': fft}

    def law(self, cx, gi, ffre, ffim):
        """spectrum sample = renorm * g(f_i) * Re Z[i] * |F[i]|^2 with g = 1 (no cutoff) or 1 - exp(-(f_i/f_c)^2):
        the current impedance and the cutoff passed to THIS call (C07, C10)"""
        ex = cx.ex
        ex.cur_state = None
        fm = ex.fmul
        renorm0, fc = cx.rf('this._formfactorrenorm'), cx.a('cutoff_frequency')
        t = (cx.this or 'this')
        x = ex.fdiv(fm(cx.rf(t + '._axis_freq._scale[Hertz]'), cx.sel('this._axis_freq._data', gi)), fc)
        g = 1 - models.uf('exp')(-fm(x, x))
        renorm = If(fc > 0, fm(renorm0, g), renorm0)
        zre = cx.sel('this._impedance._data', gi, 're')
        return fm(fm(renorm, zre), fm(ffre, ffre) + fm(ffim, ffim))

    def law_ghost_bunch(self, cx, gi):
        nmax = cx.f('this._nmax', 'u64')
        gin = cx.arr(self.GIN)
        half = nmax / 2
        ffre = If(gi <= half, models.DFT_RE(gin, I(0), nmax, gi), cx.old.sel(FF, gi, 're'))
        ffim = If(gi <= half, models.DFT_IM(gin, I(0), nmax, gi), cx.old.sel(FF, gi, 'im'))
        return self.law(cx, gi, ffre, ffim)

    def gin_is_padded_profile(self, cx, gn):
        """the transformed sequence of bunch gn: its current bunch profile in [0,nx), the untouched padding above"""
        nx, ny, nb = ps_globals(cx)
        k = cx.g('k')
        gin = cx.arr(self.GIN)
        return And(Implies(And(k >= 0, k < nx), z3.Select(gin, k) == cx.old.sel('this._phasespace._projection', gn * nx + k)),
                   Implies(k >= nx, z3.Select(gin, k) == cx.old.sel(BP, k)))

    def requires(self, cx):
        # passive impedance: non-negative real part at every frequency (established by the impedance models, C16)
        passive = ElemInv('this._impedance._data', 're', 'real', lambda c, k, v: Implies(And(k >= 0, k < c.f('this._nmax', 'u64')), v >= 0))
        # no assumption on spacing or buckets: main's radiation field has spacing 0 with any number of bunches
        return [('valid', EF_valid(cx, spaced=False)), ('passive', passive), ('df', cx.rf('this._axis_freq._delta') > 0), ('renorm', cx.rf('this._formfactorrenorm') >= 0)]

    def assigns(self, cx):
        nx = cx.f(PS_NX)
        return [('r', cx.R(BP), I(0), nx), ('r', cx.R(FF)), ('r', cx.R('this._csrspectrum')), ('r', cx.R('this._csrintensity')), ('r', self.GIN)]

    def ensures(self, cx):
        nx, ny, nb = ps_globals(cx)
        nmax = cx.f('this._nmax', 'u64')
        n, i = cx.g('n'), cx.g('i')
        inr = And(n >= 0, n < nb, i >= 0, i < nmax)
        spec = cx.arr('this._csrspectrum')
        return [('spectrum_nonneg', {'C07'}, Implies(inr, z3.Select(spec, n * nmax + i) >= 0)),
                ('spectrum_law', {'C07', 'C10', 'C18'}, Implies(inr, z3.Select(spec, n * nmax + i) == self.law_ghost_bunch(cx, i))),
                ('transform_input', {'C07', 'C18'}, Implies(And(n >= 0, n < nb), self.gin_is_padded_profile(cx, n))),
                ('power_is_sum', {'C07', 'C10'}, Implies(And(n >= 0, n < nb), cx.sel('this._csrintensity', n) ==
                                                         models.recfun('SUMSCALED')(spec, n * nmax, cx.rf('this._axis_freq._delta'), nmax))),
                ('power_nonneg', {'C07'}, Implies(And(n >= 0, n < nb), cx.sel('this._csrintensity', n) >= 0)),
                ('frame', {'C12'}, And(cx.arr('this._phasespace._projection') == cx.old.arr('this._phasespace._projection'),
                                      cx.arr('this._phasespace._data') == cx.old.arr('this._phasespace._data'),
                                      cx.arr('this._impedance._data', 're') == cx.old.arr('this._impedance._data', 're')))]

    def bounded_defs(self, cx, K):
        nmax = cx.f('this._nmax', 'u64')
        n = cx.g('n')
        return [models.unfold_sumscaled(cx.arr('this._csrspectrum'), n * nmax, cx.rf('this._axis_freq._delta'), I(k)) for k in range(K + 1)]

    def _frame(self, cx):
        return [('frame', And(cx.arr('this._phasespace._projection') == cx.old.arr('this._phasespace._projection'),
                              cx.arr('this._phasespace._data') == cx.old.arr('this._phasespace._data'),
                              cx.arr('this._impedance._data', 're') == cx.old.arr('this._impedance._data', 're'),
                              cx.arr('this._impedance._data', 'im') == cx.old.arr('this._impedance._data', 'im')))]

    def _inv_n(self, cx):
        nx, ny, nb = ps_globals(cx)
        nmax = cx.f('this._nmax', 'u64')
        n, gn, gi = cx.v('n'), cx.g('n'), cx.g('i')
        spec = cx.arr('this._csrspectrum')
        S = models.recfun('SUMSCALED')
        return [('range', And(n >= 0, n <= nb)),
                ('done', Implies(And(gn >= 0, gn < n, gi >= 0, gi < nmax), z3.Select(spec, gn * nmax + gi) >= 0)),
                ('law', Implies(And(gn >= 0, gn < n, gi >= 0, gi < nmax), z3.Select(spec, gn * nmax + gi) == self.law_ghost_bunch(cx, gi))),
                ('gin', Implies(And(gn >= 0, gn < n), self.gin_is_padded_profile(cx, gn))),
                ('pad', Implies(cx.g('k') >= nx, cx.sel(BP, cx.g('k')) == cx.old.sel(BP, cx.g('k')))),
                ('ffup', Implies(gi > nmax / 2, And(cx.sel(FF, gi, 're') == cx.old.sel(FF, gi, 're'), cx.sel(FF, gi, 'im') == cx.old.sel(FF, gi, 'im')))),
                ('power', Implies(And(gn >= 0, gn < n), And(cx.sel('this._csrintensity', gn) == S(spec, gn * nmax, cx.rf('this._axis_freq._delta'), nmax),
                                                           cx.sel('this._csrintensity', gn) >= 0)))] + self._frame(cx)

    def _inv_i(self, cx):
        nx, ny, nb = ps_globals(cx)
        nmax = cx.f('this._nmax', 'u64')
        n, i, gn, gi = cx.v('n'), cx.v('i'), cx.g('n'), cx.g('i')
        spec = cx.arr('this._csrspectrum')
        S = models.recfun('SUMSCALED')
        return [('range', And(n >= 0, n < nb, i >= 0, i <= nmax)),
                ('done', Implies(And(gn >= 0, gi >= 0, gi < nmax, Or(gn < n, And(gn == n, gi < i))), z3.Select(spec, gn * nmax + gi) >= 0)),
                ('law', Implies(And(gn >= 0, gi >= 0, gi < nmax, Or(gn < n, And(gn == n, gi < i))), z3.Select(spec, gn * nmax + gi) == self.law_ghost_bunch(cx, gi))),
                ('gin', Implies(And(gn >= 0, gn <= n), self.gin_is_padded_profile(cx, gn))),
                ('pad', Implies(cx.g('k') >= nx, cx.sel(BP, cx.g('k')) == cx.old.sel(BP, cx.g('k')))),
                ('ffup', Implies(gi > nmax / 2, And(cx.sel(FF, gi, 're') == cx.old.sel(FF, gi, 're'), cx.sel(FF, gi, 'im') == cx.old.sel(FF, gi, 'im')))),
                ('ffcur', Implies(And(gn == n, gi >= 0, gi <= nmax / 2), And(cx.sel(FF, gi, 're') == models.DFT_RE(cx.arr(self.GIN), I(0), nmax, gi),
                                                                            cx.sel(FF, gi, 'im') == models.DFT_IM(cx.arr(self.GIN), I(0), nmax, gi)))),
                ('power', Implies(And(gn >= 0, gn < n), And(cx.sel('this._csrintensity', gn) == S(spec, gn * nmax, cx.rf('this._axis_freq._delta'), nmax),
                                                           cx.sel('this._csrintensity', gn) >= 0))),
                ('acc', And(cx.sel('this._csrintensity', n) == S(spec, n * nmax, cx.rf('this._axis_freq._delta'), i), cx.sel('this._csrintensity', n) >= 0))] + self._frame(cx)

    def _defs_i(self, cx, cxb):
        nmax = cx.f('this._nmax', 'u64')
        n, i = cxb.v('n'), cxb.v('i')
        spec = cx.arr('this._csrspectrum')
        d = cx.rf('this._axis_freq._delta')
        gn = cx.g('n')
        out = [models.unfold_sumscaled(spec, n * nmax, d, i),
               # the sum over row gn only reads row gn: unchanged rows have unchanged sums (extensionality of the finite sum)
               models.sumscaled_frame(cxb.arr('this._csrspectrum'), spec, gn * nmax, d, nmax, n * nmax + i),
               models.sumscaled_frame(cxb.arr('this._csrspectrum'), spec, n * nmax, d, i, n * nmax + i)]
        return out

    def _hints_i(self, cx, cxb):
        nx, ny, nb = ps_globals(cx)
        nmax = cx.f('this._nmax', 'u64')
        n, i, gn, gi = cxb.v('n'), cxb.v('i'), cx.g('n'), cx.g('i')
        return [('p1', Implies(n - gn - 1 >= 0, (n - gn - 1) * nmax >= 0)),
                ('lex', Implies(And(gn >= 0, gi >= 0, gi < nmax, Or(gn < n, And(gn == n, gi < i))), gn * nmax + gi < n * nmax + i)),
                ('rowlt', Implies(And(gn >= 0, gn < n), gn * nmax + nmax <= n * nmax)),
                ('p2', Implies(And(n >= 0, n < nb), (nb - 1 - n) * nmax >= 0)), ('top', n * nmax + i < nb * nmax)]

    @property
    def loops(self):
        li = LoopSpec(inv=self._inv_i, hints=self._hints_i)
        li.defs = self._defs_i
        same = lambda cx, cxb: And(cx.g('n') == cxb.v('n'), cx.g('i') == cxb.v('i'))
        li.split = lambda cx, cxb: [('cur', same(cx, cxb)), ('other', Not(same(cx, cxb)))]
        ln = LoopSpec(inv=self._inv_n)
        ln.defs = lambda cx, cxb: [models.unfold_sumscaled(cx.arr('this._csrspectrum'), cxb.v('n') * cx.f('this._nmax', 'u64'), cx.rf('this._axis_freq._delta'), I(0))]
        return {'n#0': ln, 'i#0': li}


# =========================================================================== U15 (scale factors of the constructors)
class ElectricFieldScale(Contract):
    """the wake scaling factor of the delegating constructor and its division by the transform length (C05/C06):
    Ib*dt*c/(sigma_z*dE_cell)/N with sigma_z = scale("Meter") of the position axis and dE_cell = delta_p*sigma_delta*E0.
    Checked on the initialiser expressions of the two real constructors, evaluated symbolically."""
    name = 'vfps::ElectricField::ElectricField'
    tu = 'src/PS/ElectricField.cpp'
    tags = {'C05', 'C06', 'C10'}

    def custom_verify(self, scratch, tc):
        from vf.vcg import Exec
        from vf.state import State
        from vf.unit import bind_param, _walk
        from vf.ast import params, ctor_inits
        tu = tc.get(self.tu)
        ctors = tu.funcs.get('vfps::ElectricField::ElectricField', [])
        main8 = [f for f in ctors if len(params(f)) == 8]
        deleg = [f for f in ctors if len(params(f)) == 11]
        if len(main8) != 1 or len(deleg) != 1:
            raise ExtractionError(f'ElectricField constructors: found {len(main8)} with 8 and {len(deleg)} with 11 parameters')
        out = []
        # ---- 8-parameter constructor: _wakescaling(wakescalining/_nmax), volts
        ex = Exec(tu, main8[0], 'ElectricField::ElectricField')
        ex.default_tags = set(self.tags)
        st = State()
        args = {}
        for i, p in enumerate(params(main8[0])):
            nm, v = bind_param(ex, st, p, i)
            args[nm] = v
        ex.args0 = args
        ex.entry = st.copy()
        inits = {i_['anyInit']['name']: i_ for i_ in ctor_inits(main8[0]) if 'anyInit' in i_}
        for need in ('_wakescaling', '_nmax', 'volts'):
            if need not in inits:
                raise ExtractionError(f'ElectricField constructor: member initialiser {need} not found')
        imp = args['impedance']
        nmax = ex.ev(inits['_nmax']['inner'][0], st)
        st.scal['this._nmax'] = IntV(nmax.t, parse_type_str('unsigned long'))
        nfreq = st.scal.get(imp.name + '._nfreqs')
        ex.oblig(st, 'nmax_is_impedance_length', nmax.t == (nfreq.t if nfreq is not None else -1), 'postcondition', {'C06', 'C17'})
        st.assume(nmax.t > 0)
        ws = ex.ev(inits['_wakescaling']['inner'][0], st)
        ex.oblig(st, 'wakescaling_divided_by_transform_length', ws.t * z3.ToReal(nmax.t) == args['wakescalining'].t, 'postcondition', {'C05', 'C06'})
        ps = args['ps']
        vol = ex.ev(inits['volts']['inner'][0], st)
        d1 = st.scal.get(ps.name + '._axis[1]._delta')
        sev = st.scal.get(ps.name + '._axis[1]._scale[ElectronVolt]')
        st.assume(args['revolutionpart'].t != 0)
        ex.oblig(st, 'volts_factor', vol.t * args['revolutionpart'].t == (d1.t * sev.t if d1 is not None and sev is not None else -1), 'postcondition', {'C10'})
        # ---- form-factor renormalisation: the squared grid spacing of the position axis (the DFT of the sampled profile times the spacing
        # approximates the continuous transform; squared because the spectrum is quadratic in the form factor) — the factor that makes
        # "integrated CSR power = one half of sum(profile x unscaled wake potential)" (C07) come out
        if '_formfactorrenorm' not in inits:
            raise ExtractionError('ElectricField constructor: member initialiser _formfactorrenorm not found')
        ffr = ex.ev(inits['_formfactorrenorm']['inner'][0], st)
        d0 = st.scal.get(ps.name + '._axis[0]._delta')
        from vf.models import real as _real
        ex.oblig(st, 'formfactor_renormalisation', _real(ffr) == (d0.t * d0.t if d0 is not None else -1), 'postcondition', {'C07', 'C10'},
                 '_formfactorrenorm = (grid spacing of the position axis)^2')
        # ---- radiated-power factors attached to /CSR/Spectrum (W/Hz) and /CSR/Intensity (W), and the frequency step in hertz
        for need in ('factor4WattPerHertz', 'factor4Watts', '_axis_freq'):
            if need not in inits:
                raise ExtractionError(f'ElectricField constructor: member initialiser {need} not found')
        from vf.models import find_string_literal, real
        hz = None
        for pr in _walk(inits['_axis_freq']):
            if pr.get('kind') == 'CXXConstructExpr' and 'std::pair<' in pr.get('type', {}).get('qualType', '') and len(pr.get('inner', [])) == 2 and find_string_literal(pr['inner'][0]) == 'Hertz':
                hz = ex.ev(pr['inner'][1], st)
        if hz is None:
            raise ExtractionError('ElectricField constructor: the frequency ruler is not built with a "Hertz" scale')
        sm0 = st.scal.get(ps.name + '._axis[0]._scale[Meter]')
        cc_ = models.CONST_GLOBALS['vfps::physcons::c']
        st.assume(z3.And(args['f_rev'].t != 0, sm0.t != 0) if sm0 is not None else z3.BoolVal(True))
        ex.oblig(st, 'hertz_per_frequency_step', real(hz) * (sm0.t if sm0 is not None else 0) == Rq(cc_.numerator, cc_.denominator), 'postcondition', {'C10', 'C07'},
                 'scale("Hertz") of the frequency ruler = c / (metres per natural bunch length)')
        wph = ex.ev(inits['factor4WattPerHertz']['inner'][0], st)
        ohm = st.scal.get(imp.name + '.factor4Ohms')
        cur = st.scal.get(ps.name + '.current')
        ex.oblig(st, 'watt_per_hertz_factor', real(wph) * args['f_rev'].t == (2 * ohm.t * cur.t * cur.t if ohm is not None and cur is not None else -1), 'postcondition', {'C10', 'C07'},
                 '2 * Z0-factor of the impedance * I^2 / f_rev')
        st.scal['this.factor4WattPerHertz'] = RealV(real(wph), parse_type_str('double'))
        st.scal['this._axis_freq._scale[Hertz]'] = RealV(real(hz), parse_type_str('double'))
        wat = ex.ev(inits['factor4Watts']['inner'][0], st)
        ex.oblig(st, 'watt_factor', real(wat) == real(wph) * real(hz), 'postcondition', {'C10', 'C07'}, 'W/Hz factor times hertz per frequency step')
        ex.oblig(st, 'canary', z3.BoolVal(False), 'canary', set())
        # ---- delegating constructor: the scale argument handed to the 8-parameter one
        ex2 = Exec(tu, deleg[0], 'ElectricField::ElectricField(delegating)')
        ex2.default_tags = set(self.tags)
        st2 = State()
        a2 = {}
        for i, p in enumerate(params(deleg[0])):
            nm, v = bind_param(ex2, st2, p, i)
            a2[nm] = v
        ex2.args0 = a2
        ex2.entry = st2.copy()
        di = [i_ for i_ in ctor_inits(deleg[0]) if 'delegatingInit' in i_ or 'baseInit' in i_]
        if len(di) != 1:
            raise ExtractionError('ElectricField delegating constructor: delegating initialiser not found')
        ce = di[0]['inner'][0]
        while ce['kind'] in ('ExprWithCleanups', 'CXXBindTemporaryExpr', 'MaterializeTemporaryExpr'):
            ce = ce['inner'][0]
        cargs = ce.get('inner', [])
        if len(cargs) != 8:
            raise ExtractionError(f'ElectricField delegating constructor forwards {len(cargs)} arguments, expected 8')
        scale = ex2.ev(cargs[7], st2)
        ps2 = a2['ps']
        sm_ = st2.scal.get(ps2.name + '._axis[0]._scale[Meter]')
        dl1 = st2.scal.get(ps2.name + '._axis[1]._delta')
        if sm_ is None or dl1 is None:
            raise ExtractionError('ElectricField delegating constructor: scale expression does not read scale("Meter") of axis 0 and delta of axis 1')
        st2.assume(z3.And(sm_.t > 0, dl1.t > 0, a2['sigma_delta'].t > 0, a2['E0'].t > 0))
        cc = models.CONST_GLOBALS['vfps::physcons::c']
        want = a2['Ib'].t * a2['dt'].t * Rq(cc.numerator, cc.denominator) / sm_.t / (dl1.t * a2['sigma_delta'].t * a2['E0'].t)
        ex2.oblig(st2, 'wake_scale_formula', scale.t == want, 'postcondition', {'C05', 'C06', 'C10'},
                  'Ib*dt*c/(sigma_z*dE_cell): sigma_z = scale(Meter) of the position axis, dE_cell = delta_p*sigma_delta*E0')
        rp_forwarded = ex2.ev(cargs[6], st2)
        ex2.oblig(st2, 'revolutionpart_forwarded', rp_forwarded.t == a2['revolutionpart'].t, 'postcondition', {'C05', 'C10'})
        sp_forwarded = ex2.ev(cargs[3], st2)
        ex2.oblig(st2, 'spacing_forwarded', sp_forwarded.t == a2['spacing_bins'].t, 'postcondition', {'C06'})
        ex2.oblig(st2, 'canary', z3.BoolVal(False), 'canary', set())
        info = {'unit': self.name, 'file': self.tu + ' + inc/PS/ElectricField.hpp', 'sha': tu.sha, 'cases': 1, 'lines': [None, None], 'extract_s': 0,
                'note': 'initialiser expressions of both constructors evaluated symbolically; buffer allocation and FFT plan binding are not covered'}
        return [ex, ex2], info


# =========================================================================== U15 constructors: the class invariant is established
def ef_ctor_posts(cx, wake):
    """what the ElectricField constructors establish of EF_valid: buffer extents equal to the impedance length, zeroed
    transform buffers, plans bound to exactly those buffers with that length, per-bunch output tables"""
    nx, ny, nb = ps_globals(cx)
    nmax = cx.f('this._nmax', 'u64')
    k = cx.g('k')
    st = cx.st

    def ptr_to(member, region_len):
        p = st.scal.get(cx.R('this.' + member))
        return z3.BoolVal(isinstance(p, PtrV) and p.region is not None) if p is not None else z3.BoolVal(False), p

    out = []
    okbp, bp = ptr_to('_bp_padded', nmax)
    okff, ff = ptr_to('_formfactor', nmax)
    plan = st.scal.get(cx.R('this._fft_bunchprofile'))
    out.append(('forward_buffers', {'C06', 'C17', 'C18'},
                And(okbp, okff, st.len_of(bp.region) == nmax if isinstance(bp, PtrV) and bp.region else False, bp.off == 0 if isinstance(bp, PtrV) else False,
                    st.len_of(ff.region) == nmax if isinstance(ff, PtrV) and ff.region else False, ff.off == 0 if isinstance(ff, PtrV) else False)))
    if isinstance(bp, PtrV) and bp.region and isinstance(ff, PtrV) and ff.region:
        FL = parse_type_str('float')
        out.append(('forward_buffers_zeroed', {'C06', 'C18'}, Implies(And(k >= 0, k < nmax),
                    And(z3.Select(st.array(bp.region, '', FL), k) == 0, z3.Select(st.array(ff.region, 're', FL), k) == 0, z3.Select(st.array(ff.region, 'im', FL), k) == 0))))
        out.append(('forward_plan', {'C06', 'C17', 'C18'},
                    And(z3.BoolVal(isinstance(plan, models.Plan) and plan.kind == 'r2c' and plan.inp.region == bp.region and plan.out.region == ff.region),
                        plan.n == nmax if isinstance(plan, models.Plan) else False, plan.inp.off == 0 if isinstance(plan, models.Plan) else False,
                        plan.out.off == 0 if isinstance(plan, models.Plan) else False)))
    out.append(('tables', {'C06', 'C07', 'C17'}, And(cx.len('this._wakepotential') == nb * nx, cx.len('this._csrspectrum') == nb * nmax, cx.len('this._csrintensity') == nb,
                                                     cx.f('this._nbunches') == nb)))
    if wake:
        okwl, wl = ptr_to('_wakelosses', nmax)
        okwp, wp = ptr_to('_wakepotential_padded', nmax)
        plan2 = st.scal.get(cx.R('this._fft_wakelosses'))
        out.append(('backward_buffers', {'C06', 'C17', 'C18'},
                    And(okwl, okwp, st.len_of(wl.region) == nmax if isinstance(wl, PtrV) and wl.region else False, wl.off == 0 if isinstance(wl, PtrV) else False,
                        st.len_of(wp.region) == nmax if isinstance(wp, PtrV) and wp.region else False, wp.off == 0 if isinstance(wp, PtrV) else False)))
        if isinstance(wl, PtrV) and wl.region and isinstance(wp, PtrV) and wp.region:
            FL = parse_type_str('float')
            out.append(('backward_buffers_zeroed', {'C06', 'C18'}, Implies(And(k >= 0, k < nmax),
                        And(z3.Select(st.array(wl.region, 're', FL), k) == 0, z3.Select(st.array(wl.region, 'im', FL), k) == 0, z3.Select(st.array(wp.region, '', FL), k) == 0))))
            out.append(('backward_plan', {'C06', 'C17', 'C18'},
                        And(z3.BoolVal(isinstance(plan2, models.Plan) and plan2.kind == 'c2r' and plan2.inp.region == wl.region and plan2.out.region == wp.region),
                            plan2.n == nmax if isinstance(plan2, models.Plan) else False)))
    return out


class ElectricFieldCtor(Contract):
    """ElectricField(ps, impedance, bucketnumber, spacing_bins, oclh, f_rev, revolutionpart, wakescaling): the object
    used for the CSR spectrum; the forward-transform half of the class invariant"""
    name = 'vfps::ElectricField::ElectricField'
    tu = 'src/PS/ElectricField.cpp'
    nparams = 8
    params = ['ps', 'impedance', 'bucketnumber', 'spacing_bins', 'oclh', 'f_rev', 'revolutionpart', 'wakescalining']
    tags = {'C06', 'C07', 'C17', 'C18'}
    ghosts = {'k': 'int'}

    def setup(self, cx):
        cx.st.assume(declare_ps(cx, cx.arg('ps').name))

    def requires(self, cx):
        nx, ny, nb = ps_globals(cx)
        ps, z = cx.arg('ps').name, cx.arg('impedance').name
        from .sm import Ruler_valid
        return [('static', PS_static(cx)), ('ps_axes', And(Ruler_valid(cx, ps + '._axis[0]', nx), Ruler_valid(cx, ps + '._axis[1]', ny))),
                ('impedance', And(cx.f(z + '._nfreqs', 'u64') >= 2, cx.f(z + '._nfreqs', 'u64') < 2 ** 32, cx.len(z + '._data') == cx.f(z + '._nfreqs', 'u64'))),
                # the constructor dereferences the impedance pointer at once (impedance->nFreqs())
                ('impedance_not_null', Not(cx.arg('impedance').null) if getattr(cx.arg('impedance'), 'null', None) is not None else z3.BoolVal(True)),
                ('revolutionpart', cx.a('revolutionpart') != 0), ('f_rev', cx.a('f_rev') != 0)]

    def assigns(self, cx):
        return [('s', 'this.*'), ('r', 'this.*'), ('len', 'this.*')]

    @property
    def calls(self):
        from .z import RulerTemp
        return {'ctor:vfps::Ruler<float>': RulerTemp()}

    def ensures(self, cx):
        z = cx.arg('impedance').name
        bn = cx.arg('bucketnumber').name
        k = cx.g('k')
        return ef_ctor_posts(cx, wake=False) + \
            [('nmax_is_impedance_length', {'C06', 'C17'}, cx.f('this._nmax', 'u64') == cx.old.f(z + '._nfreqs', 'u64')),
             ('buckets_copied', {'C06'}, And(cx.len('this._bucket') == cx.old.len(bn), cx.sel('this._bucket', k, '', 'int') == cx.old.sel(bn, k, '', 'int'))),
             ('spacing', {'C06'}, cx.f('this._spacing_bins', 'u64') == cx.a('spacing_bins'))]


def ef_backward_posts(cx):
    return [o for o in ef_ctor_posts(cx, wake=True) if o[0].startswith('backward')]


class InitWakeLossFFT(Contract):
    """_initWakeLossFFT(): zeroed loss spectrum and padded wake potential of the transform length, backward plan bound to them"""
    name = 'vfps::ElectricField::_initWakeLossFFT'
    tu = 'src/PS/ElectricField.cpp'
    params = []
    tags = {'C06', 'C17', 'C18'}
    ghosts = {'k': 'int'}

    def requires(self, cx):
        return [('nmax', And(cx.f('this._nmax', 'u64') >= 2, cx.f('this._nmax', 'u64') < 2 ** 32))]

    def assigns(self, cx):
        return [('s', 'this._wakelosses_fft'), ('s', 'this._wakelosses'), ('s', 'this._wakepotential_padded'), ('s', 'this._fft_wakelosses'),
                ('r', 'this._wakelosses_fft'), ('len', 'this._wakelosses_fft'), ('r', 'this._wakepotential_padded'), ('len', 'this._wakepotential_padded')]

    def ensures(self, cx):
        return ef_backward_posts(cx)


class InitWakeLossFFTUse(InitWakeLossFFT):
    """call-site view (delegating constructor): binds the members the way the verified body does"""

    def effect(self, cx):
        st, t = cx.st, cx.this or 'this'
        nmax = cx.f('this._nmax', 'u64')
        zero = z3.K(z3.IntSort(), z3.RealVal(0))
        FL = parse_type_str('float')
        wl, wp = t + '._wakelosses_fft', t + '._wakepotential_padded'
        st.length[wl], st.length[wp] = nmax, nmax
        st.arr[(wl, 're')], st.arr[(wl, 'im')], st.arr[(wp, '')] = zero, zero, zero
        for k_ in ((wl, 're'), (wl, 'im'), (wp, '')):
            st.leafct[k_] = FL
        st.scal[t + '._wakelosses_fft'] = PtrV(wl, I(0))
        st.scal[t + '._wakelosses'] = PtrV(wl, I(0))
        st.scal[t + '._wakepotential_padded'] = PtrV(wp, I(0))
        st.scal[t + '._fft_wakelosses'] = models.Plan('c2r', nmax, PtrV(wl, I(0)), PtrV(wp, I(0)))


class ElectricFieldCtor11(Contract):
    """ElectricField(ps, impedance, bucketnumber, spacing_bins, oclh, f_rev, revolutionpart, Ib, E0, sigma_delta, dt): the
    object used for the wake potential — delegates and then sets up the backward transform: the whole class invariant"""
    name = 'vfps::ElectricField::ElectricField'
    tu = 'src/PS/ElectricField.cpp'
    nparams = 11
    params = ['ps', 'impedance', 'bucketnumber', 'spacing_bins', 'oclh', 'f_rev', 'revolutionpart', 'Ib', 'E0', 'sigma_delta', 'dt']
    tags = {'C06', 'C17', 'C18'}
    ghosts = {'k': 'int'}

    def setup(self, cx):
        cx.st.assume(declare_ps(cx, cx.arg('ps').name))

    def requires(self, cx):
        return ElectricFieldCtor.requires(self, cx) + [('scale_domain', And(cx.a('E0') != 0, cx.a('sigma_delta') != 0))]

    def assigns(self, cx):
        return [('s', 'this.*'), ('r', 'this.*'), ('len', 'this.*')]

    @property
    def calls(self):
        return {'ctor:vfps::ElectricField': Use(ElectricFieldCtorUse(), inst=lambda cx: [{'k': cx.ghost_of('k')}]),
                '_initWakeLossFFT': Use(InitWakeLossFFTUse(), inst=lambda cx: [{'k': cx.ghost_of('k')}])}

    def ensures(self, cx):
        z = cx.arg('impedance').name
        bn = cx.arg('bucketnumber').name
        k = cx.g('k')
        return ef_ctor_posts(cx, wake=True) + \
            [('nmax_is_impedance_length', {'C06', 'C17'}, cx.f('this._nmax', 'u64') == cx.old.f(z + '._nfreqs', 'u64')),
             ('buckets_copied', {'C06'}, And(cx.len('this._bucket') == cx.old.len(bn), cx.sel('this._bucket', k, '', 'int') == cx.old.sel(bn, k, '', 'int'))),
             ('spacing', {'C06'}, cx.f('this._spacing_bins', 'u64') == cx.a('spacing_bins'))]


class ElectricFieldCtorUse(ElectricFieldCtor):
    """call-site view of the 8-parameter constructor"""

    def effect(self, cx):
        st, t = cx.st, cx.this or 'this'
        z = cx.arg('impedance').name
        nmax = cx.f(z + '._nfreqs', 'u64')
        st.scal[t + '._nmax'] = IntV(nmax, parse_type_str('unsigned long'))
        zero = z3.K(z3.IntSort(), z3.RealVal(0))
        FL = parse_type_str('float')
        bp, ff = t + '._bp_padded_fft', t + '._formfactor_fft'
        st.length[bp], st.length[ff] = nmax, nmax
        st.arr[(bp, '')], st.arr[(ff, 're')], st.arr[(ff, 'im')] = zero, zero, zero
        for k_ in ((bp, ''), (ff, 're'), (ff, 'im')):
            st.leafct[k_] = FL
        for m_, r_ in (('_bp_padded_fft', bp), ('_bp_padded', bp), ('_formfactor_fft', ff), ('_formfactor', ff)):
            st.scal[t + '.' + m_] = PtrV(r_, I(0))
        st.scal[t + '._fft_bunchprofile'] = models.Plan('r2c', nmax, PtrV(bp, I(0)), PtrV(ff, I(0)))
