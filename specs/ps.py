"""Contracts for PhaseSpace and Ruler (src/PS/PhaseSpace.cpp, inc/PS/Ruler.hpp)."""
from .common import *
from .sm import Ruler_valid, ruler_fields

SP = models.sumprod
SA = models.sumarr


# =========================================================================== U12 Ruler
class RulerCtor(Contract):
    name = 'vfps::Ruler::Ruler'
    tu = 'src/PS/PhaseSpace.cpp'
    nparams = 4
    params = ['steps', 'min', 'max', 'scale']
    tags = {'C03', 'C04', 'C09', 'C17'}
    ghosts = {'g': 'int'}

    def requires(self, cx):
        return [('steps', cx.a('steps') >= 2)]

    def assigns(self, cx):
        return [('s', 'this.*'), ('r', 'this._data'), ('len', 'this._data')]

    def ensures(self, cx):
        r = ruler_fields(cx, 'this')
        steps, mn, mx = cx.a('steps'), cx.a('min'), cx.a('max')
        g = cx.g('g')
        return [('ordered', {'C17'}, mx > mn),
                ('fields', {'C09', 'C03'}, And(r['steps'] == steps, r['mn'] == mn, r['mx'] == mx)),
                ('delta', {'C03', 'C04', 'C09'}, And(r['delta'] > 0, r['delta'] * z3.ToReal(steps - 1) == mx - mn)),
                ('len', {'C17'}, cx.len('this._data') == steps),
                ('affine', {'C03', 'C04', 'C09'}, Implies(And(g >= 0, g < steps), cx.sel('this._data', g) == mn + z3.ToReal(g) * r['delta'])),
                # the zero bin is where the axis passes through 0, wherever the grid is centred
                ('zerobin', {'C03', 'C04'}, mn + r['zb'] * r['delta'] == 0),
                # the unit-scale table is the one handed in (C10: unit factors of the results file; C03/C05: metres and eV of the kicks)
                ('scale_table', {'C10', 'C03', 'C05'}, self.scale_copied(cx))]

    def scale_copied(self, cx):
        a = cx.args.get('scale')
        if not isinstance(a, ObjRef):
            return z3.BoolVal(True)         # defaulted (empty table): nothing to say about any key
        return And(*[cx.rf(f'this._scale[{K}]') == cx.old.rf(f'{a.name}[{K}]') for K in models.SCALE_KEYS])

    def _inv(self, cx):
        i, g = cx.v('i'), cx.g('g')
        r = ruler_fields(cx, 'this')
        return [('range', And(i >= 0, i <= cx.a('steps'))),
                ('scratch', cx.st.len_of('new:meshaxis_tmp') == cx.a('steps')),
                ('done', Implies(And(g >= 0, g < i), z3.Select(cx.st.array('new:meshaxis_tmp', '', parse_type_str('float')), g) == cx.a('min') + z3.ToReal(g) * r['delta']))]

    @property
    def loops(self):
        l = LoopSpec(inv=self._inv)
        l.split = split_ghost('i', 'g')
        return {'i#0': l}


def lemmas_ruler():
    """difference form of the affine axis (used by the Fokker-Planck moment lemmas)"""
    mn, d = z3.Reals('mn d')
    a = z3.Int('a')
    out = []
    for c in (-2, -1, 1, 2):
        out.append((f'Ruler.diff.{c}', {'C04', 'C01'}, (mn + z3.ToReal(a + c) * d) == (mn + z3.ToReal(a) * d) + c * d))
    return out


# =========================================================================== PhaseSpace invariants
def PS_valid(cx, obj='this'):
    nx, ny, nb = ps_globals(cx)
    t = (cx.this or 'this') if obj == 'this' else obj
    return And(PS_static(cx), declare_ps(cx, t),
               Ruler_valid(cx, t + '._axis[0]', nx), Ruler_valid(cx, t + '._axis[1]', ny))


def proj_base(cx, a, n):
    nx, ny, nb = ps_globals(cx)
    return (a * nb + n) * nx


def ps_replay_spec(model):
    """native runs of the real PhaseSpace against the direct oracle: the counterexample's sizes (scaled up to a grid the
    constructor accepts) and a few uneven multi-bunch configurations"""
    def sm(key, lo, hi, d):
        v = model.get(key)
        return v if isinstance(v, int) and lo <= v <= hi else d
    N = max(8, sm(PS_NX, 2, 64, 17))
    nb = sm(PS_NB, 1, 5, 3)
    runs = [['moments', N, nb, 1]]
    for r in (['moments', 17, 3, 2], ['moments', 16, 2, 3], ['moments', 9, 4, 4], ['moments', 33, 1, 5]):
        if r not in runs:
            runs.append(r)
    return {'harness': 'ps_replay', 'runs': runs}


def _size_case(nx_, nb_):
    return lambda cx: [cx.f(PS_NX) == nx_, cx.f(PS_NY) == nx_, cx.f(PS_NB) == nb_]


class PSMethod(Contract):
    tu = 'src/PS/PhaseSpace.cpp'
    params = []
    # concrete sizes for the bounded re-check (used only after a loop obligation failed)
    bounded_cases = [_size_case(2, 1), _size_case(3, 2), _size_case(2, 3)]

    def replay(self, o, model, pid):
        return ps_replay_spec(model)

    def requires(self, cx):
        return [('valid', PS_valid(cx))]

    def unchanged(self, cx, *regions):
        return And(*[cx.arr('this.' + r) == cx.old.arr('this.' + r) for r in regions])


# =========================================================================== U14
class SimpsonWeights(PSMethod):
    name = 'vfps::PhaseSpace::simpsonWeights'
    tags = {'C09', 'C17'}
    ghosts = {'g': 'int'}

    def requires(self, cx):
        nx, ny, nb = ps_globals(cx)
        return [('static', PS_static(cx)), ('axis', Ruler_valid(cx, (cx.this or 'this') + '._axis[0]', nx))]

    def weight(self, cx, g):
        nx, ny, nb = ps_globals(cx)
        h3 = cx.rf('this._axis[0]._delta') / 3
        # composite Simpson: h/3 * (1, 4, 2, 4, ..., 1)
        return If(Or(g == 0, g == nx - 1), h3, If(g % 2 == 1, 4 * h3, 2 * h3))

    def ensures(self, cx):
        nx, ny, nb = ps_globals(cx)
        g = cx.g('g')
        rv = cx.ret
        return [('len', {'C17', 'C09'}, cx.st.len_of(rv.name) == nx),
                ('simpson', {'C09'}, Implies(And(g >= 0, g < nx), z3.Select(cx.st.array(rv.name, '', parse_type_str('float')), g) == self.weight(cx, g)))]

    def _inv(self, cx):
        nx, ny, nb = ps_globals(cx)
        x, g = cx.v('x'), cx.g('g')
        rv = 'local:rv'
        a = cx.st.array(rv, '', parse_type_str('float'))
        return [('range', And(x >= 1, Or(x <= nx - 1, x == 1))), ('len', cx.st.len_of(rv) == nx),
                ('dc', cx.v('dc') == If(x % 2 == 1, z3.RealVal(1), z3.RealVal(-1))),
                ('done', Implies(And(g >= 0, g < x), z3.Select(a, g) == self.weight(cx, g)))]

    @property
    def loops(self):
        l = LoopSpec(inv=self._inv)
        l.split = split_ghost('x', 'g')
        return {'x#0': l}


class UpdateXProjection(PSMethod):
    name = 'vfps::PhaseSpace::updateXProjection'
    tags = {'C09', 'C10', 'C12', 'C17'}
    ghosts = {'n': 'int', 'x': 'int', 'k': 'int'}

    def assigns(self, cx):
        nx, ny, nb = ps_globals(cx)
        return [('r', (cx.this or 'this') + '._projection', I(0), nb * nx)]

    def value(self, cx, n, x):
        nx, ny, nb = ps_globals(cx)
        return SP()(cx.old.arr('this._data'), (n * nx + x) * ny, cx.old.arr('this._ws'), I(0), ny)

    def ensures(self, cx):
        nx, ny, nb = ps_globals(cx)
        n, x, k = cx.g('n'), cx.g('x'), cx.g('k')
        return [('proj', {'C09', 'C10'}, Implies(And(n >= 0, n < nb, x >= 0, x < nx), cx.sel('this._projection', n * nx + x) == self.value(cx, n, x))),
                ('yproj_unchanged', {'C12', 'C09'}, Implies(k >= nb * nx, cx.sel('this._projection', k) == cx.old.sel('this._projection', k))),
                ('frame', {'C12'}, self.unchanged(cx, '_data', '_ws', '_filling'))]

    def _inv_n(self, cx):
        nx, ny, nb = ps_globals(cx)
        n, gn, gx, k = cx.v('n'), cx.g('n'), cx.g('x'), cx.g('k')
        return [('range', And(n >= 0, n <= nb)),
                ('done', Implies(And(gn >= 0, gn < n, gx >= 0, gx < nx), cx.sel('this._projection', gn * nx + gx) == self.value(cx, gn, gx))),
                ('yproj', Implies(k >= nb * nx, cx.sel('this._projection', k) == cx.old.sel('this._projection', k))),
                ('frame', self.unchanged(cx, '_data', '_ws', '_filling'))]

    def _inv_x(self, cx):
        nx, ny, nb = ps_globals(cx)
        n, x, gn, gx, k = cx.v('n'), cx.v('x'), cx.g('n'), cx.g('x'), cx.g('k')
        return [('range', And(n >= 0, n < nb, x >= 0, x <= nx)),
                ('done', Implies(And(gn >= 0, gx >= 0, gx < nx, Or(gn < n, And(gn == n, gx < x))), cx.sel('this._projection', gn * nx + gx) == self.value(cx, gn, gx))),
                ('yproj', Implies(k >= nb * nx, cx.sel('this._projection', k) == cx.old.sel('this._projection', k))),
                ('frame', self.unchanged(cx, '_data', '_ws', '_filling'))]

    def _hints(self, cx, cxb):
        nx, ny, nb = ps_globals(cx)
        n, x, gn, gx = cxb.v('n'), cxb.v('x'), cx.g('n'), cx.g('x')
        before = Or(gn < n, And(gn == n, gx < x))
        inr = And(gn >= 0, gx >= 0, gx < nx)
        return [('p1', Implies(n - gn - 1 >= 0, (n - gn - 1) * nx >= 0)),
                ('lex', Implies(And(inr, before), gn * nx + gx < n * nx + x)),
                ('p2', Implies(And(n >= 0, n < nb), (nb - 1 - n) * nx >= 0)),
                ('top', n * nx + x < nb * nx)]

    @property
    def loops(self):
        lx = LoopSpec(inv=self._inv_x, hints=self._hints)
        lx.split = lambda cx, cxb: [('cur', And(cx.g('n') == cxb.v('n'), cx.g('x') == cxb.v('x'))), ('other', Not(And(cx.g('n') == cxb.v('n'), cx.g('x') == cxb.v('x'))))]
        return {'n#0': LoopSpec(inv=self._inv_n), 'x#0': lx}


SS = lambda: models.recfun('SUMSTRIDE')
SV = lambda: models.recfun('SUMVAR')


class UpdateYProjection(PSMethod):
    name = 'vfps::PhaseSpace::updateYProjection'
    tags = {'C09', 'C10', 'C12', 'C17'}
    ghosts = {'n': 'int', 'y': 'int', 'k': 'int'}

    def assigns(self, cx):
        nx, ny, nb = ps_globals(cx)
        return [('r', (cx.this or 'this') + '._projection', nb * nx, 2 * nb * nx)]

    def value(self, cx, n, y, upto=None):
        nx, ny, nb = ps_globals(cx)
        return SS()(cx.old.arr('this._data'), n * nx * ny + y, ny, cx.old.arr('this._ws'), nx if upto is None else upto)

    def ensures(self, cx):
        nx, ny, nb = ps_globals(cx)
        n, y, k = cx.g('n'), cx.g('y'), cx.g('k')
        return [('proj', {'C09', 'C10'}, Implies(And(n >= 0, n < nb, y >= 0, y < ny), cx.sel('this._projection', (nb + n) * nx + y) == self.value(cx, n, y))),
                ('xproj_unchanged', {'C12', 'C09'}, Implies(And(k >= 0, k < nb * nx), cx.sel('this._projection', k) == cx.old.sel('this._projection', k))),
                ('frame', {'C12'}, self.unchanged(cx, '_data', '_ws', '_filling'))]

    def bounded_defs(self, cx, K):
        nx, ny, nb = ps_globals(cx)
        n, y = cx.g('n'), cx.g('y')
        return [models.unfold_sumstride(cx.old.arr('this._data'), n * nx * ny + y, ny, cx.old.arr('this._ws'), I(k)) for k in range(K + 1)]

    def _common(self, cx):
        nx, ny, nb = ps_globals(cx)
        k = cx.g('k')
        return [('xproj', Implies(And(k >= 0, k < nb * nx), cx.sel('this._projection', k) == cx.old.sel('this._projection', k))),
                ('frame', self.unchanged(cx, '_data', '_ws', '_filling'))]

    def _done(self, cx, before):
        nx, ny, nb = ps_globals(cx)
        gn, gy = cx.g('n'), cx.g('y')
        return ('done', Implies(And(gn >= 0, gy >= 0, gy < ny, before), cx.sel('this._projection', (nb + gn) * nx + gy) == self.value(cx, gn, gy)))

    def _inv_n(self, cx):
        nx, ny, nb = ps_globals(cx)
        n = cx.v('n')
        return [('range', And(n >= 0, n <= nb)), self._done(cx, cx.g('n') < n)] + self._common(cx)

    def _inv_y(self, cx):
        nx, ny, nb = ps_globals(cx)
        n, y = cx.v('n'), cx.v('y')
        gn, gy = cx.g('n'), cx.g('y')
        return [('range', And(n >= 0, n < nb, y >= 0, y <= ny)), self._done(cx, Or(gn < n, And(gn == n, gy < y)))] + self._common(cx)

    def _inv_x(self, cx):
        nx, ny, nb = ps_globals(cx)
        n, y, x = cx.v('n'), cx.v('y'), cx.v('x')
        gn, gy = cx.g('n'), cx.g('y')
        return [('range', And(n >= 0, n < nb, y >= 0, y < ny, x >= 0, x <= nx)),
                ('acc', cx.sel('this._projection', (nb + n) * nx + y) == self.value(cx, n, y, x)),
                self._done(cx, Or(gn < n, And(gn == n, gy < y)))] + self._common(cx)

    def _defs_x(self, cx, cxb):
        nx, ny, nb = ps_globals(cx)
        n, y, x = cxb.v('n'), cxb.v('y'), cxb.v('x')
        return [models.unfold_sumstride(cx.old.arr('this._data'), n * nx * ny + y, ny, cx.old.arr('this._ws'), x)]

    def _hints(self, cx, cxb):
        nx, ny, nb = ps_globals(cx)
        n, y, gn, gy = cxb.v('n'), cxb.v('y'), cx.g('n'), cx.g('y')
        before = Or(gn < n, And(gn == n, gy < y))
        inr = And(gn >= 0, gy >= 0, gy < ny)
        return [('p1', Implies(n - gn - 1 >= 0, (n - gn - 1) * nx >= 0)),
                ('lex', Implies(And(inr, before), (nb + gn) * nx + gy < (nb + n) * nx + y)),
                ('p2', Implies(And(n >= 0, n < nb), (nb - 1 - n) * nx >= 0)),
                ('top', And((nb + n) * nx + y < 2 * nb * nx, (nb + n) * nx + y >= nb * nx))]

    @property
    def loops(self):
        lx = LoopSpec(inv=self._inv_x, hints=self._hints)
        lx.defs = self._defs_x
        same = lambda cx, cxb: And(cx.g('n') == cxb.v('n'), cx.g('y') == cxb.v('y'))
        lx.split = lambda cx, cxb: [('cur', same(cx, cxb)), ('other', Not(same(cx, cxb)))]
        ly = LoopSpec(inv=self._inv_y, hints=self._hints)
        ly.split = lx.split
        return {'n#0': LoopSpec(inv=self._inv_n), 'y#0': ly, 'x#0': lx}


class Integrate(PSMethod):
    name = 'vfps::PhaseSpace::integrate'
    tags = {'C09', 'C10', 'C12', 'C17'}
    ghosts = {'n': 'int'}

    def assigns(self, cx):
        t = cx.this or 'this'
        return [('r', t + '._filling'), ('s', t + '._integral')]

    def value(self, cx, n):
        nx, ny, nb = ps_globals(cx)
        return SP()(cx.old.arr('this._projection'), n * nx, cx.old.arr('this._ws'), I(0), nx)

    def ensures(self, cx):
        nx, ny, nb = ps_globals(cx)
        n = cx.g('n')
        return [('filling', {'C09', 'C10'}, Implies(And(n >= 0, n < nb), cx.sel('this._filling', n) == self.value(cx, n))),
                ('integral', {'C09'}, cx.rf('this._integral') == SA()(cx.arr('this._filling'), I(0), nb)),
                ('frame', {'C12'}, self.unchanged(cx, '_data', '_ws', '_projection'))]

    def _inv(self, cx):
        nx, ny, nb = ps_globals(cx)
        n, gn = cx.v('n'), cx.g('n')
        return [('range', And(n >= 0, n <= nb)),
                ('done', Implies(And(gn >= 0, gn < n), cx.sel('this._filling', gn) == self.value(cx, gn))),
                ('frame', self.unchanged(cx, '_data', '_ws', '_projection'))]

    def _hints(self, cx, cxb):
        nx, ny, nb = ps_globals(cx)
        n = cxb.v('n')
        return [('p', Implies(And(n >= 0, n < nb), (nb - 1 - n) * nx >= 0)), ('top', n * nx + nx <= 2 * nb * nx)]

    @property
    def loops(self):
        l = LoopSpec(inv=self._inv, hints=self._hints)
        l.split = split_ghost('n', 'n')
        return {'n#0': l}


class Normalize(PSMethod):
    name = 'vfps::PhaseSpace::normalize'
    tags = {'C09', 'C12', 'C17'}
    ghosts = {'n': 'int', 'x': 'int', 'y': 'int'}
    returns_ref = True
    uf_mul = False

    def assigns(self, cx):
        return [('r', (cx.this or 'this') + '._data')]

    def value(self, cx, n, x, y):
        """statement of C09: rescale bunch n by set filling over measured filling; empty buckets to zero"""
        nx, ny, nb = ps_globals(cx)
        s_, f_ = cx.old.sel('this._filling_set', n), cx.old.sel('this._filling', n)
        return If(s_ > 0, cx.old.sel('this._data', n * nx * ny + x * ny + y) * (s_ / f_), z3.RealVal(0))

    def ensures(self, cx):
        nx, ny, nb = ps_globals(cx)
        n, x, y = cx.g('n'), cx.g('x'), cx.g('y')
        rng = And(n >= 0, n < nb, x >= 0, x < nx, y >= 0, y < ny)
        return [('scaled', {'C09'}, Implies(rng, cx.sel('this._data', n * nx * ny + x * ny + y) == self.value(cx, n, x, y))),
                ('frame', {'C12', 'C09'}, self.unchanged(cx, '_filling', '_filling_set', '_ws', '_projection'))]

    def _state(self, cx, before):
        nx, ny, nb = ps_globals(cx)
        gn, gx, gy = cx.g('n'), cx.g('x'), cx.g('y')
        cell = gn * nx * ny + gx * ny + gy
        inr = And(gn >= 0, gn < nb, gx >= 0, gx < nx, gy >= 0, gy < ny)
        return [('done', Implies(And(inr, before), cx.sel('this._data', cell) == self.value(cx, gn, gx, gy))),
                ('todo', Implies(And(inr, Not(before)), cx.sel('this._data', cell) == cx.old.sel('this._data', cell))),
                ('frame', self.unchanged(cx, '_filling', '_filling_set', '_ws', '_projection'))]

    def _inv_n(self, cx):
        nx, ny, nb = ps_globals(cx)
        n = cx.v('n')
        return [('range', And(n >= 0, n <= nb))] + self._state(cx, cx.g('n') < n)

    def _inv_x(self, cx):
        nx, ny, nb = ps_globals(cx)
        n, x = cx.v('n'), cx.v('x')
        gn, gx = cx.g('n'), cx.g('x')
        return [('range', And(n >= 0, n < nb, x >= 0, x <= nx))] + self._state(cx, Or(gn < n, And(gn == n, gx < x)))

    def _inv_y(self, cx):
        nx, ny, nb = ps_globals(cx)
        n, x, y = cx.v('n'), cx.v('x'), cx.v('y')
        gn, gx, gy = cx.g('n'), cx.g('x'), cx.g('y')
        return [('range', And(n >= 0, n < nb, x >= 0, x < nx, y >= 0, y <= ny))] + \
            self._state(cx, Or(gn < n, And(gn == n, gx < x), And(gn == n, gx == x, gy < y)))

    def _hints(self, cx, cxb):
        nx, ny, nb = ps_globals(cx)
        n, x, y = cxb.v('n'), cxb.v('x'), cxb.v('y')
        gn, gx, gy = cx.g('n'), cx.g('x'), cx.g('y')
        inr = And(gn >= 0, gx >= 0, gx < nx, gy >= 0, gy < ny)
        lt = Or(gn < n, And(gn == n, gx < x), And(gn == n, gx == x, gy < y))
        gt = Or(gn > n, And(gn == n, gx > x), And(gn == n, gx == x, gy > y))
        cg, cc = gn * nx * ny + gx * ny + gy, n * nx * ny + x * ny + y
        return [('p1', Implies(n - gn - 1 >= 0, (n - gn - 1) * (nx * ny) >= 0)), ('p1b', Implies(gn - n - 1 >= 0, (gn - n - 1) * (nx * ny) >= 0)),
                ('p2', Implies(inr, (nx - 1 - gx) * ny >= 0)), ('p2b', (nx - 1 - x) * ny >= 0),
                ('p3', Implies(x - gx - 1 >= 0, (x - gx - 1) * ny >= 0)), ('p3b', Implies(gx - x - 1 >= 0, (gx - x - 1) * ny >= 0)),
                ('lex', Implies(And(inr, lt), cg < cc)), ('lexb', Implies(And(inr, gt), cg > cc))]

    @property
    def loops(self):
        d = {'n#0': LoopSpec(inv=self._inv_n)}
        same = lambda cx, cxb: And(cx.g('n') == cxb.v('n'), cx.g('x') == cxb.v('x'), cx.g('y') == cxb.v('y'))
        for k in (0, 1):
            d[f'x#{k}'] = LoopSpec(inv=self._inv_x)
            ly = LoopSpec(inv=self._inv_y, hints=self._hints)
            ly.split = lambda cx, cxb: [('cur', same(cx, cxb)), ('other', Not(same(cx, cxb)))]
            d[f'y#{k}'] = ly
        return d


def lemmas_normalize():
    """C09: if filling[n] is the Simpson integral of bunch n (a linear functional L of its data) then after
    scaling every cell by set/filling the integral is L(data)*set/filling = set  (filling != 0)"""
    L, s_, f_ = z3.Reals('L s f')
    return [('C09.normalize.integral', {'C09'}, Implies(And(f_ != 0, L == f_), L * (s_ / f_) == s_))]


class Average(PSMethod):
    name = 'vfps::PhaseSpace::average'
    params = ['axis']
    cases = [{'axis': 0}, {'axis': 1}]
    tags = {'C09', 'C10', 'C12', 'C17', 'C04'}
    ghosts = {'n': 'int'}

    def assigns(self, cx):
        nx, ny, nb = ps_globals(cx)
        a = cx.a('axis')
        return [('r', (cx.this or 'this') + '._moment', (a * 4 + 0) * nb, (a * 4 + 0) * nb + nb)]

    def mean(self, cx, n, upto=None):
        """first moment of bunch n's own projection, normalised by its own charge (statement of C09)"""
        nx, ny, nb = ps_globals(cx)
        a = cx.a('axis')
        ax = f'this._axis[{0 if self.case_axis(cx) == 0 else 1}]'
        s = SP()(cx.old.arr('this._projection'), (a * nb + n) * nx, cx.arr(ax + '._data'), I(0), nx if upto is None else upto)
        return If(cx.old.sel('this._filling_set', n) > 0, s * (cx.rf(ax + '._delta') / cx.old.sel('this._filling', n)), z3.RealVal(0))

    @staticmethod
    def case_axis(cx):
        v = z3.simplify(cx.a('axis'))
        return v.as_long()

    def ensures(self, cx):
        nx, ny, nb = ps_globals(cx)
        n, a = cx.g('n'), cx.a('axis')
        return [('mean', {'C09', 'C10', 'C04'}, Implies(And(n >= 0, n < nb), cx.sel('this._moment', (a * 4) * nb + n) == self.mean(cx, n))),
                ('frame', {'C12'}, self.unchanged(cx, '_data', '_ws', '_projection', '_filling', '_filling_set'))]

    def bounded_defs(self, cx, K):
        nx, ny, nb = ps_globals(cx)
        n, a = cx.g('n'), cx.a('axis')
        ax = f'this._axis[{self.case_axis(cx)}]'
        return [models.unfold_sumprod(cx.old.arr('this._projection'), (a * nb + n) * nx, cx.arr(ax + '._data'), I(0), I(k)) for k in range(K + 1)]

    def _inv_n(self, cx):
        nx, ny, nb = ps_globals(cx)
        n, gn, a = cx.v('n'), cx.g('n'), cx.a('axis')
        return [('range', And(n >= 0, n <= nb)), ('maxi', cx.v('maxi') == nx),
                ('done', Implies(And(gn >= 0, gn < n), cx.sel('this._moment', (a * 4) * nb + gn) == self.mean(cx, gn))),
                ('frame', self.unchanged(cx, '_data', '_ws', '_projection', '_filling', '_filling_set'))]

    def _inv_i(self, cx):
        nx, ny, nb = ps_globals(cx)
        n, i, a = cx.v('n'), cx.v('i'), cx.a('axis')
        ax = f'this._axis[{self.case_axis(cx)}]'
        return self._inv_n(cx)[1:] + [('range_i', And(n >= 0, n < nb, i >= 0, i <= nx, cx.old.sel('this._filling_set', n) > 0)),
                                      ('acc', cx.v('avg') == SP()(cx.old.arr('this._projection'), (a * nb + n) * nx, cx.arr(ax + '._data'), I(0), i))]

    def _defs_i(self, cx, cxb):
        nx, ny, nb = ps_globals(cx)
        n, i, a = cxb.v('n'), cxb.v('i'), cx.a('axis')
        ax = f'this._axis[{self.case_axis(cx)}]'
        return [models.unfold_sumprod(cx.old.arr('this._projection'), (a * nb + n) * nx, cx.arr(ax + '._data'), I(0), i)]

    def _hints(self, cx, cxb):
        nx, ny, nb = ps_globals(cx)
        n, a = cxb.v('n'), cx.a('axis')
        return [('p', Implies(And(n >= 0, n < nb), (nb - 1 - n) * nx >= 0)), ('top', (a * nb + n) * nx + nx <= 2 * nb * nx)]

    @property
    def loops(self):
        ln = LoopSpec(inv=self._inv_n, hints=self._hints)
        ln.split = split_ghost('n', 'n')
        li = LoopSpec(inv=self._inv_i, hints=self._hints)
        li.defs = self._defs_i
        return {'n#0': ln, 'i#0': li}


class Variance(PSMethod):
    name = 'vfps::PhaseSpace::variance'
    params = ['axis']
    cases = [{'axis': 0}, {'axis': 1}]
    tags = {'C09', 'C10', 'C12', 'C17', 'C04'}
    ghosts = {'n': 'int'}

    def assigns(self, cx):
        nx, ny, nb = ps_globals(cx)
        a = cx.a('axis')
        t = cx.this or 'this'
        return [('r', t + '._moment', (a * 4) * nb, (a * 4 + 2) * nb), ('r', t + '._rms', a * nb, a * nb + nb)]

    def var(self, cx, n, upto=None):
        """second moment of bunch n's own projection about its own mean, normalised by its own charge"""
        nx, ny, nb = ps_globals(cx)
        a = cx.a('axis')
        ax = f'this._axis[{Average.case_axis(cx)}]'
        m = cx.sel('this._moment', (a * 4) * nb + n)
        s = SV()(cx.old.arr('this._projection'), (a * nb + n) * nx, cx.arr(ax + '._data'), I(0), m, nx if upto is None else upto)
        return If(cx.old.sel('this._filling_set', n) > 0, s * (cx.rf(ax + '._delta') / cx.old.sel('this._filling', n)), z3.RealVal(0))

    def ensures(self, cx):
        nx, ny, nb = ps_globals(cx)
        n, a = cx.g('n'), cx.a('axis')
        avg = Average()
        inr = And(n >= 0, n < nb)
        return [('mean', {'C09', 'C10', 'C04'}, Implies(inr, cx.sel('this._moment', (a * 4) * nb + n) == avg.mean(cx, n))),
                ('variance', {'C09', 'C10', 'C04'}, Implies(inr, cx.sel('this._moment', (a * 4 + 1) * nb + n) == self.var(cx, n))),
                ('rms', {'C09', 'C10', 'C04'}, Implies(inr, cx.sel('this._rms', a * nb + n) == models.uf('sqrt')(cx.sel('this._moment', (a * 4 + 1) * nb + n)))),
                ('frame', {'C12'}, self.unchanged(cx, '_data', '_ws', '_projection', '_filling', '_filling_set'))]

    def bounded_defs(self, cx, K):
        nx, ny, nb = ps_globals(cx)
        n, a = cx.g('n'), cx.a('axis')
        ax = f'this._axis[{Average.case_axis(cx)}]'
        m = cx.sel('this._moment', (a * 4) * nb + n)
        return [models.unfold_sumvar(cx.old.arr('this._projection'), (a * nb + n) * nx, cx.arr(ax + '._data'), I(0), m, I(k)) for k in range(K + 1)] + \
               [models.unfold_sumprod(cx.old.arr('this._projection'), (a * nb + n) * nx, cx.arr(ax + '._data'), I(0), I(k)) for k in range(K + 1)]

    def _inv_n(self, cx):
        nx, ny, nb = ps_globals(cx)
        n, gn, a = cx.v('n'), cx.g('n'), cx.a('axis')
        avg = Average()
        inr = And(gn >= 0, gn < nb)
        return [('range', And(n >= 0, n <= nb)), ('maxi', cx.v('maxi') == nx),
                ('mean', Implies(inr, cx.sel('this._moment', (a * 4) * nb + gn) == avg.mean(cx, gn))),
                ('done', Implies(And(gn >= 0, gn < n), And(cx.sel('this._moment', (a * 4 + 1) * nb + gn) == self.var(cx, gn),
                                                          cx.sel('this._rms', a * nb + gn) == models.uf('sqrt')(cx.sel('this._moment', (a * 4 + 1) * nb + gn))))),
                ('frame', self.unchanged(cx, '_data', '_ws', '_projection', '_filling', '_filling_set'))]

    def _inv_i(self, cx):
        nx, ny, nb = ps_globals(cx)
        n, i, a = cx.v('n'), cx.v('i'), cx.a('axis')
        ax = f'this._axis[{Average.case_axis(cx)}]'
        m = cx.sel('this._moment', (a * 4) * nb + n)
        return self._inv_n(cx)[1:] + [('range_i', And(n >= 0, n < nb, i >= 0, i <= nx, cx.old.sel('this._filling_set', n) > 0)),
                                      ('acc', cx.v('var') == SV()(cx.old.arr('this._projection'), (a * nb + n) * nx, cx.arr(ax + '._data'), I(0), m, i))]

    def _defs_i(self, cx, cxb):
        nx, ny, nb = ps_globals(cx)
        n, i, a = cxb.v('n'), cxb.v('i'), cx.a('axis')
        ax = f'this._axis[{Average.case_axis(cx)}]'
        m = cx.sel('this._moment', (a * 4) * nb + n)
        return [models.unfold_sumvar(cx.old.arr('this._projection'), (a * nb + n) * nx, cx.arr(ax + '._data'), I(0), m, i)]

    _hints = Average._hints

    @property
    def loops(self):
        ln = LoopSpec(inv=self._inv_n, hints=self._hints)
        ln.split = split_ghost('n', 'n')
        li = LoopSpec(inv=self._inv_i, hints=self._hints)
        li.defs = self._defs_i
        return {'n#0': ln, 'i#0': li}

    @property
    def calls(self):
        return {'vfps::PhaseSpace::average': Use(Average(), inst=lambda cx: [{'n': cx.ghost_of('n')}])}


# =========================================================================== U13 swap / assignment
DERIVED = ['._data', '._projection', '._filling', '._moment', '._rms']


class Swap(Contract):
    replay = lambda self, o, model, pid: ps_replay_spec(model)
    name = 'vfps::PhaseSpace::swap'
    tu = 'src/PS/PhaseSpace.cpp'
    params = ['other']
    tags = {'C09', 'C17'}

    def setup(self, cx):
        cx.st.assume(declare_ps(cx, cx.this or 'this'))
        cx.st.assume(declare_ps(cx, cx.arg('other').name))

    def requires(self, cx):
        return [('static', PS_static(cx))]

    def assigns(self, cx):
        t, o = cx.this or 'this', cx.arg('other').name
        out = []
        for obj in (t, o):
            out += [('r', obj + r) for r in DERIVED] + [('len', obj + r) for r in DERIVED] + [('s', obj + '._integral')]
        return out

    ghosts = {'k': 'int'}

    def ensures(self, cx):
        o = cx.arg('other').name
        k = cx.g('k')
        out = []
        for r in DERIVED:
            # a phase space and everything derived from its data travel together (statement of C09: same data,
            # projections and integral, therefore the same moments).  Element by element inside the container (ghost index),
            # so that an implementation exchanging the elements instead of the containers satisfies it as well
            ln = cx.old.len('this' + r)
            inr = And(k >= 0, k < ln)
            out.append((f'this{r}', {'C09'}, And(cx.len('this' + r) == cx.old.len(o + r), Implies(inr, cx.sel('this' + r, k) == cx.old.sel(o + r, k)))))
            out.append((f'other{r}', {'C09'}, And(cx.len(o + r) == cx.old.len('this' + r), Implies(inr, cx.sel(o + r, k) == cx.old.sel('this' + r, k)))))
        out.append(('integral', {'C09'}, And(cx.rf('this._integral') == cx.old.rf(o + '._integral'), cx.rf(o + '._integral') == cx.old.rf('this._integral'))))
        return out


class Assign(Contract):
    name = 'vfps::PhaseSpace::operator='
    tu = 'src/PS/PhaseSpace.cpp'
    params = ['other']
    tags = {'C09'}
    returns_ref = True

    setup = Swap.setup
    requires = Swap.requires
    assigns = Swap.assigns

    ghosts = {'k': 'int'}

    def ensures(self, cx):
        o = cx.arg('other').name
        k = cx.g('k')
        out = [(f'this{r}', {'C09'}, And(cx.len('this' + r) == cx.old.len(o + r),
                                        Implies(And(k >= 0, k < cx.old.len(o + r)), cx.sel('this' + r, k) == cx.old.sel(o + r, k)))) for r in DERIVED]
        out.append(('integral', {'C09'}, cx.rf('this._integral') == cx.old.rf(o + '._integral')))
        return out

    calls = {'vfps::PhaseSpace::swap': Use(Swap(), inst=lambda cx: [{'k': cx.ghost_of('k')}])}


# =========================================================================== text start distribution (PhaseSpaceFactory)
class IStream:
    """std::istream as two sticky ghost flags (fail, eof).  Formatted extraction `is >> x`:
    already failed: nothing happens, x is NOT modified; sentry fails (end of input while skipping white space): fail and
    eof set, x NOT modified; parse error: x = 0, fail set (C++11); success: x = some value, eof may become set."""
    FAIL, EOF = 'ghost.is.fail', 'ghost.is.eof'
    POS, TOK = 'ghost.is.pos', 'ghost.is.tok'

    @staticmethod
    def flags(st):
        for p in (IStream.FAIL, IStream.EOF):
            if p not in st.scal:
                st.scal[p] = BoolV(z3.Bool(p))
        return st.scal[IStream.FAIL].t, st.scal[IStream.EOF].t

    @staticmethod
    def extract(ex, n, st, objn, argn, this_override=None):
        from vf.state import State
        from vf.vcg import LVar
        # the stream operand may itself be `is >> a` (chained): evaluate it first
        inner = objn
        while inner.get('kind') in ('ImplicitCastExpr', 'ParenExpr'):
            inner = inner['inner'][0]
        if inner.get('kind') == 'CXXOperatorCallExpr':
            ex.ev(inner, st)
        fail, eof = IStream.flags(st)
        l = ex.lv(argn[0], st)
        if not isinstance(l, LVar):
            raise ExtractionError(f'{ex.unit}: stream extraction into something that is not a local variable (line {ex.curline})')
        ct = parse_type(argn[0]['type'])
        sentry_ok, parse_ok = State.fresh('sentry_ok', z3.BoolSort()), State.fresh('parse_ok', z3.BoolSort())
        got = State.fresh('extracted', z3.RealSort() if ct.kind == 'float' else z3.IntSort())
        attempted = And(Not(fail), sentry_ok)
        # optional token view of the input (units that say WHICH value of the file ends up where): the stream is a sequence of
        # tokens TOK[0], TOK[1], ...; a successful extraction returns the token under the cursor and advances the cursor
        if IStream.POS in st.scal and ct.kind == 'float':
            pos = st.scal[IStream.POS].t
            got = z3.Select(st.array(IStream.TOK, '', ct), pos)
            st.scal[IStream.POS] = IntV(If(And(attempted, parse_ok), pos + 1, pos), parse_type_str('long'))
            ex.logw(('s', IStream.POS))
        newval = If(parse_ok, got, 0)
        old = st.env.get(l.vid)
        oldinit = st.scal.get(f'init:{l.vid}')
        if old is None:
            cur = RealV(newval, ct) if ct.kind == 'float' else IntV(newval, ct)
            st.scal[f'init:{l.vid}'] = BoolV(attempted)
        else:
            cur = RealV(If(attempted, newval, old.t), ct) if ct.kind == 'float' else IntV(If(attempted, newval, old.t), ct)
            if oldinit is not None:
                st.scal[f'init:{l.vid}'] = BoolV(Or(oldinit.t, attempted))
        if ct.kind == 'int':
            from vf.state import range_fact
            st.assume(range_fact(got, ct))
        st.env[l.vid] = cur
        ex.logw(('v', l.vid))
        ex.logw(('s', f'init:{l.vid}'))
        neweof = State.fresh('eof_after', z3.BoolSort())
        st.scal[IStream.FAIL] = BoolV(Or(fail, Not(sentry_ok), Not(parse_ok)))
        st.scal[IStream.EOF] = BoolV(Or(eof, And(Not(fail), Or(Not(sentry_ok), neweof))))
        ex.logw(('s', IStream.FAIL)); ex.logw(('s', IStream.EOF))
        return Opaque('istream')

    @staticmethod
    def good(ex, n, st, objn, argn, this_override=None):
        fail, eof = IStream.flags(st)
        return BoolV(And(Not(fail), Not(eof)))

    @staticmethod
    def as_bool(ex, n, st, objn, argn, this_override=None):
        if objn is not None:
            inner = objn
            while inner.get('kind') in ('ImplicitCastExpr', 'ParenExpr', 'MaterializeTemporaryExpr'):
                inner = inner['inner'][0]
            if inner.get('kind') == 'CXXOperatorCallExpr':
                ex.ev(inner, st)
        fail, eof = IStream.flags(st)
        return BoolV(Not(fail))

    @staticmethod
    def failed(ex, n, st, objn, argn, this_override=None):
        fail, eof = IStream.flags(st)
        return BoolV(fail)


class MakePSFromTXTLoop(Contract):
    """the particle loop of makePSFromTXT (text start distribution, C17): for EVERY content of the file — any number of
    values, malformed text, a trailing newline, particles anywhere — no value is used that was not read, and the cell
    that is incremented lies inside the grid"""
    name = 'vfps::makePSFromTXT'
    tu = 'src/PS/PhaseSpaceFactory.cpp'
    params = ['fname', 'ps_size', 'qmin', 'qmax', 'pmin', 'pmax', 'oclh', 'beam_charge', 'beam_current', 'qscale', 'pscale']
    tags = {'C17'}
    slice_stmt = ('WhileStmt', 0)
    aux_tus = [('src/PS/PhaseSpace.cpp', 'vfps::')]
    PSF_RUNS = [['txt', 16, nl_, np_, o_] for nl_ in (0, 1) for np_ in (1, 5) for o_ in (0, 1)]

    def replay(self, o, model, pid):
        return {'harness': 'psf_replay', 'runs': self.PSF_RUNS}

    def slice_setup(self, ex, st):
        cx = Ctx(ex, st, st, ex.args0)
        ps = ex.args0.get('ps')
        if not isinstance(ps, ObjRef):
            raise ExtractionError('makePSFromTXT: local "ps" (the phase space being filled) not found before the loop')
        self.psname = ps.name
        # PhaseSpace::setSize(ps_size, 1) and the constructor ran before the loop: one bunch on a ps_size^2 grid
        nx, ny, nb = ps_globals(cx)
        st.assume(And(PS_static(cx), declare_ps(cx, ps.name), nb == 1, nx == ex.args0['ps_size'].t))

    def requires(self, cx):
        return [('size', And(cx.a('ps_size') >= 2, cx.a('ps_size') < 65536))]

    def assigns(self, cx):
        return [('s', 'ghost.*'), ('s', 'init:*'), ('r', getattr(self, 'psname', 'arg:ps') + '._data')]

    @property
    def calls(self):
        noop = lambda ex, n, st, objn, argn, this_override=None: VoidV()
        return {'operator>>': IStream.extract, 'good': IStream.good, 'operator bool': IStream.as_bool, 'fail': IStream.failed,
                'operator!': lambda ex, n, st, objn, argn, this_override=None: BoolV(Not(IStream.as_bool(ex, n, st, objn, argn).t)),
                'close': noop}

    def ensures(self, cx):
        return [('shape_kept', {'C17'}, cx.len(self.psname + '._data') == cx.old.len(self.psname + '._data'))]

    @property
    def loops(self):
        l = LoopSpec(inv=lambda cx: [('shape', cx.len(self.psname + '._data') == cx.old.len(self.psname + '._data'))])
        return {'while#0': l}


# =========================================================================== U13 constructors
class SimpsonWeightsUse(SimpsonWeights):
    """call-site view: the returned vector is a fresh container"""
    RV = 'ret:simpsonWeights'

    def result(self, cx):
        return ObjRef(self.RV, 'std::vector<float>')

    def effect(self, cx):
        from vf.state import State
        cx.st.havoc_region(self.RV)
        cx.st.length[self.RV] = State.fresh('len(' + self.RV + ')', z3.IntSort())
        cx.st.assume(cx.st.length[self.RV] >= 0)


def havoc_event(*regions_scalars):
    """call-site binding for a member function that is NOT under contract here: it may write the listed members of the
    receiver (regions keep their length), nothing else"""
    def ev(ex, n, st, objn, argn, this_override=None):
        for a in argn:
            try:
                ex.ev(a, st)
            except ExtractionError:
                pass
        t = ex.thisname if objn is None else ex.ev_obj(objn, st).name
        for r in regions_scalars:
            st.havoc_region(t + r)
            ex.logw(('r', t + r))
            ex.frame_range(st, t + r, I(0), st.len_of(t + r))
        return Opaque('call')
    return ev


class PhaseSpaceCtor(Contract):
    """the constructor every other PhaseSpace constructor delegates to (C09, C17): containers get the sizes of the class
    invariant, the nominal shares are copied, given data is copied cell by cell, and projections / bunch populations /
    integral are the ones the verified methods derive from that data"""
    replay = lambda self, o, model, pid: ps_replay_spec(model)
    name = 'vfps::PhaseSpace::PhaseSpace'
    tu = 'src/PS/PhaseSpace.cpp'
    nparams = 7
    params = ['axis', 'oclh', 'beam_charge', 'beam_current', 'filling', 'zoom', 'data']
    tags = {'C09', 'C17'}
    ghosts = {'k': 'int', 'n': 'int', 'x': 'int'}

    def requires(self, cx):
        nx, ny, nb = ps_globals(cx)
        ax = cx.arg('axis').name
        d = cx.arg('data')
        return [('static', PS_static(cx)),
                ('one_share_per_bunch', cx.len(cx.arg('filling').name) == nb),
                ('axes', And(Ruler_valid(cx, ax + '[0]', nx), Ruler_valid(cx, ax + '[1]', ny))),
                ('data_extent', Or(z3.BoolVal(d.region is None), And(d.off >= 0, d.off + nx * ny * nb <= cx.st.len_of(d.region)))) if isinstance(d, PtrV) else ('data_extent', z3.BoolVal(True))]

    def assigns(self, cx):
        return PS_ASSIGNS(cx)

    @property
    def calls(self):
        inst3 = lambda cx: [{'n': cx.ghost_of('n'), 'x': cx.ghost_of('x'), 'k': cx.ghost_of('k')}]
        return {'simpsonWeights': Use(SimpsonWeightsUse(), inst=lambda cx: [{'g': cx.ghost_of('x')}]),
                'updateXProjection': Use(UpdateXProjection(), inst=inst3),
                'updateYProjection': Use(UpdateYProjection(), inst=lambda cx: [{'n': cx.ghost_of('n'), 'y': cx.ghost_of('x'), 'k': cx.ghost_of('k')}]),
                'integrate': Use(Integrate(), inst=lambda cx: [{'n': cx.ghost_of('n')}]),
                # Gaussian start distribution: not under contract (frames only)
                'setProjection': havoc_event('._projection'), 'gaus': lambda ex, n, st, objn, argn, this_override=None: Opaque('gaus'),
                'createFromProjections': havoc_event('._data')}

    def ensures(self, cx):
        d = cx.arg('data')
        has = isinstance(d, PtrV) and d.region is not None
        return ps_ctor_posts(cx, data_region=d.region if has else None, data_off=d.off if has else None,
                             shares_region=cx.arg('filling').name, axes_obj=cx.arg('axis').name)


def same_ruler(cx, a, b):
    """ruler a (current state) has the fields and grid lines of ruler b (entry state)"""
    fa, fb = ruler_fields(cx, a), ruler_fields(cx.old, b)
    k = cx.g('k')
    return And(*[fa[f] == fb[f] for f in ('steps', 'mn', 'mx', 'delta', 'zb')], cx.len(a + '._data') == cx.old.len(b + '._data'),
               cx.sel(a + '._data', k) == cx.old.sel(b + '._data', k),
               *[cx.rf(f'{a}._scale[{K}]') == cx.old.rf(f'{b}._scale[{K}]') for K in models.SCALE_KEYS])


def ps_ctor_posts(cx, data_region=None, data_off=None, shares_region=None, axes_obj=None):
    """what every PhaseSpace constructor establishes (restated for the delegating ones)"""
    nx, ny, nb = ps_globals(cx)
    k, n, x = cx.g('k'), cx.g('n'), cx.g('x')
    out = [('shape', {'C09', 'C17'}, declare_ps(cx, cx.this or 'this'))]
    if axes_obj is not None:
        out.append(('axes', {'C09', 'C17'}, And(same_ruler(cx, 'this._axis[0]', axes_obj + '[0]'), same_ruler(cx, 'this._axis[1]', axes_obj + '[1]'))))
    if shares_region is not None:
        out.append(('shares', {'C09'}, Implies(And(n >= 0, n < nb), cx.sel('this._filling_set', n) == cx.old.sel(shares_region, n))))
    if data_region is not None:
        out.append(('data_copied', {'C09'}, Implies(And(k >= 0, k < nx * ny * nb), cx.sel('this._data', k) == z3.Select(cx.old.st.array(data_region, '', parse_type_str('float')), data_off + k))))
    out += [('xprojection_of_data', {'C09'}, Implies(And(n >= 0, n < nb, x >= 0, x < nx),
                                                     cx.sel('this._projection', n * nx + x) == SP()(cx.arr('this._data'), (n * nx + x) * ny, cx.arr('this._ws'), I(0), ny))),
            ('population_of_projection', {'C09'}, Implies(And(n >= 0, n < nb),
                                                         cx.sel('this._filling', n) == SP()(cx.arr('this._projection'), n * nx, cx.arr('this._ws'), I(0), nx))),
            ('integral', {'C09'}, cx.rf('this._integral') == SA()(cx.arr('this._filling'), I(0), nb))]
    return out


PS_ASSIGNS = lambda cx: [('s', 'this.*')] + [('r', 'this' + r) for r in DERIVED + ['._filling_set', '._ws']] + [('len', 'this' + r) for r in DERIVED + ['._filling_set', '._ws']]
INST3 = lambda cx: [{'n': cx.ghost_of('n'), 'x': cx.ghost_of('x'), 'k': cx.ghost_of('k')}]


class PhaseSpaceCopyCtor(Contract):
    """PhaseSpace(const PhaseSpace& other): same axes, shares and data as the original; projections, populations and
    integral derived from that data by the verified methods — so they equal the original's whenever the original's are
    up to date (C09: a copy reports the same moments)"""
    replay = lambda self, o, model, pid: ps_replay_spec(model)
    name = 'vfps::PhaseSpace::PhaseSpace'
    tu = 'src/PS/PhaseSpace.cpp'
    nparams = 1
    params = ['other']
    tags = {'C09', 'C17'}
    ghosts = {'k': 'int', 'n': 'int', 'x': 'int'}

    def setup(self, cx):
        cx.st.assume(declare_ps(cx, cx.arg('other').name))

    def requires(self, cx):
        nx, ny, nb = ps_globals(cx)
        o = cx.arg('other').name
        return [('static', PS_static(cx)), ('other_valid', And(Ruler_valid(cx, o + '._axis[0]', nx), Ruler_valid(cx, o + '._axis[1]', ny)))]

    assigns = lambda self, cx: PS_ASSIGNS(cx)

    @property
    def calls(self):
        return {'ctor:vfps::PhaseSpace': Use(PhaseSpaceCtor(), inst=INST3)}

    def ensures(self, cx):
        o = cx.arg('other').name
        return ps_ctor_posts(cx, data_region=o + '._data', data_off=I(0), shares_region=o + '._filling_set', axes_obj=o + '._axis')


class PhaseSpaceCtor8(Contract):
    """PhaseSpace(axis0, axis1, oclh, charge, current, filling, zoom, data) -> the main constructor with {{axis0,axis1}}"""
    replay = lambda self, o, model, pid: ps_replay_spec(model)
    name = 'vfps::PhaseSpace::PhaseSpace'
    tu = 'src/PS/PhaseSpace.cpp'
    nparams = 8
    params = ['axis0', 'axis1', 'oclh', 'beam_charge', 'beam_current', 'filling', 'zoom', 'data']
    tags = {'C09', 'C17'}
    ghosts = {'k': 'int', 'n': 'int', 'x': 'int'}

    def requires(self, cx):
        nx, ny, nb = ps_globals(cx)
        d = cx.arg('data')
        return [('static', PS_static(cx)),
                ('one_share_per_bunch', cx.len(cx.arg('filling').name) == nb),
                ('axes', And(Ruler_valid(cx, cx.arg('axis0').name, nx), Ruler_valid(cx, cx.arg('axis1').name, ny))),
                ('data_extent', Or(z3.BoolVal(d.region is None), And(d.off >= 0, d.off + nx * ny * nb <= cx.st.len_of(d.region))) if isinstance(d, PtrV) and d.region is not None else z3.BoolVal(True))]

    assigns = lambda self, cx: PS_ASSIGNS(cx)

    @property
    def calls(self):
        return {'ctor:vfps::PhaseSpace': Use(PhaseSpaceCtor(), inst=INST3)}

    def ensures(self, cx):
        d = cx.arg('data')
        has = isinstance(d, PtrV) and d.region is not None
        out = ps_ctor_posts(cx, data_region=d.region if has else None, data_off=d.off if has else None, shares_region=cx.arg('filling').name)
        out.append(('axes', {'C09', 'C17'}, And(same_ruler(cx, 'this._axis[0]', cx.arg('axis0').name), same_ruler(cx, 'this._axis[1]', cx.arg('axis1').name))))
        return out


class PhaseSpaceCtor12(Contract):
    """PhaseSpace(qmin,qmax,qscale,pmin,pmax,pscale, ...): builds the two rulers with nx / ny grid lines over [qmin,qmax] and
    [pmin,pmax] (Ruler constructor contract) and delegates"""
    replay = lambda self, o, model, pid: ps_replay_spec(model)
    name = 'vfps::PhaseSpace::PhaseSpace'
    tu = 'src/PS/PhaseSpace.cpp'
    nparams = 12
    params = ['qmin', 'qmax', 'qscale', 'pmin', 'pmax', 'pscale', 'oclh', 'beam_charge', 'beam_current', 'filling', 'zoom', 'data']
    tags = {'C09', 'C17', 'C03'}
    ghosts = {'k': 'int', 'n': 'int', 'x': 'int'}

    def requires(self, cx):
        nx, ny, nb = ps_globals(cx)
        d = cx.args.get('data', PtrV(None, I(0), None))      # defaulted (nullptr) when the caller gives fewer arguments
        return [('static', PS_static(cx)),
                ('one_share_per_bunch', cx.len(cx.arg('filling').name) == nb),
                ('data_extent', Or(z3.BoolVal(d.region is None), And(d.off >= 0, d.off + nx * ny * nb <= cx.st.len_of(d.region))) if isinstance(d, PtrV) and d.region is not None else z3.BoolVal(True))]

    assigns = lambda self, cx: PS_ASSIGNS(cx)

    @property
    def calls(self):
        return {'ctor:vfps::PhaseSpace': Use(PhaseSpaceCtor8(), inst=INST3),
                'ctor:vfps::Ruler<float>': Use(RulerCtor(), inst=lambda cx: [{'g': cx.ghost_of('k')}])}

    def ensures(self, cx):
        nx, ny, nb = ps_globals(cx)
        d = cx.args.get('data', PtrV(None, I(0), None))      # defaulted (nullptr) when the caller gives fewer arguments
        has = isinstance(d, PtrV) and d.region is not None
        out = ps_ctor_posts(cx, data_region=d.region if has else None, data_off=d.off if has else None, shares_region=cx.arg('filling').name)
        r0, r1 = ruler_fields(cx, 'this._axis[0]'), ruler_fields(cx, 'this._axis[1]')
        k = cx.g('k')
        out.append(('axes_from_extents', {'C09', 'C03', 'C17'},
                    And(r0['steps'] == nx, r0['mn'] == cx.a('qmin'), r0['mx'] == cx.a('qmax'), r0['delta'] * z3.ToReal(nx - 1) == cx.a('qmax') - cx.a('qmin'),
                        r1['steps'] == ny, r1['mn'] == cx.a('pmin'), r1['mx'] == cx.a('pmax'), r1['delta'] * z3.ToReal(ny - 1) == cx.a('pmax') - cx.a('pmin'),
                        cx.len('this._axis[0]._data') == nx, cx.len('this._axis[1]._data') == ny,
                        Implies(And(k >= 0, k < nx), cx.sel('this._axis[0]._data', k) == cx.a('qmin') + z3.ToReal(k) * r0['delta']),
                        Implies(And(k >= 0, k < ny), cx.sel('this._axis[1]._data', k) == cx.a('pmin') + z3.ToReal(k) * r1['delta']))))
        # unit factors: position axis in metres per natural bunch length, energy axis in eV per natural energy spread, bunch charge
        # and current — the values the results file attaches to its datasets are read back from exactly these members (C10)
        out.append(('unit_factors', {'C10', 'C03', 'C05'}, And(cx.rf('this._axis[0]._scale[Meter]') == cx.a('qscale'), cx.rf('this._axis[1]._scale[ElectronVolt]') == cx.a('pscale'))))
        return out


# =========================================================================== Gaussian start distribution
class CreateFromProjections(PSMethod):
    """createFromProjections(): data[n][x][y] = projection[0][n][x] * projection[1][n][y] for every cell of every bunch, then
    the x-projection and the populations are refreshed and every bunch is rescaled to its nominal share"""
    name = 'vfps::PhaseSpace::createFromProjections'
    tags = {'C09', 'C17'}
    ghosts = {'n': 'int', 'x': 'int', 'y': 'int'}
    uf_mul = True

    def assigns(self, cx):
        nx, ny, nb = ps_globals(cx)
        t = cx.this or 'this'
        return [('r', t + '._data'), ('r', t + '._projection', I(0), nb * nx), ('r', t + '._filling'), ('s', t + '._integral')]

    GD = 'ghost.cfp_data'   # ghost: the grid contents at the moment the x-projection is refreshed (the data the charge is measured on)

    @property
    def calls(self):
        g3 = lambda cx: [{'n': cx.ghost_of('n'), 'x': cx.ghost_of('x'), 'y': cx.ghost_of('y')}]
        upx_use = Use(UpdateXProjection(), inst=lambda cx: [{'n': cx.ghost_of('n'), 'x': cx.ghost_of('x'), 'k': cx.ghost_of('x')}])

        def upx(ex, n, st, objn, argn, this_override=None):
            cx = Ctx(ex, st, ex.entry, ex.args0)
            st.arr[(self.GD, '')] = cx.arr('this._data')
            ex.logw(('r', self.GD))
            return upx_use(ex, n, st, objn, argn, this_override)
        return {'updateXProjection': upx,
                'integrate': Use(Integrate(), inst=lambda cx: [{'n': cx.ghost_of('n')}]),
                'normalize': Use(Normalize(), inst=g3)}

    def value(self, cx, n, x, y):
        nx, ny, nb = ps_globals(cx)
        return models.FMUL(cx.old.sel('this._projection', n * nx + x), cx.old.sel('this._projection', (nb + n) * nx + y))

    def ensures(self, cx):
        nx, ny, nb = ps_globals(cx)
        n, x, y = cx.g('n'), cx.g('x'), cx.g('y')
        s_, f_ = cx.sel('this._filling_set', n), cx.sel('this._filling', n)
        want = If(s_ > 0, self.value(cx, n, x, y) * (s_ / f_), z3.RealVal(0))
        G = cx.arr(self.GD)
        ws = cx.arr('this._ws')
        return [('product_rescaled_to_share', {'C09'}, Implies(And(n >= 0, n < nb, x >= 0, x < nx, y >= 0, y < ny), cx.sel('this._data', (n * nx + x) * ny + y) == want)),
                # "each bunch integrates to exactly its share": the charge the rescaling divides by is measured on the product itself —
                # the x-projection is the Simpson sum over energy of the product data, the population the Simpson sum of that projection
                ('charge_measured_on_the_product', {'C09'}, Implies(And(n >= 0, n < nb, x >= 0, x < nx, y >= 0, y < ny),
                                                                    And(z3.Select(G, (n * nx + x) * ny + y) == self.value(cx, n, x, y),
                                                                        cx.sel('this._projection', n * nx + x) == SP()(G, (n * nx + x) * ny, ws, I(0), ny)))),
                ('population_is_integral_of_that_projection', {'C09'}, Implies(And(n >= 0, n < nb), f_ == SP()(cx.arr('this._projection'), n * nx, ws, I(0), nx))),
                ('frame', {'C12'}, self.unchanged(cx, '_ws', '_filling_set'))]

    def before(self, cx, n, x, y):
        gn, gx, gy = cx.g('n'), cx.g('x'), cx.g('y')
        return Or(gn < n, And(gn == n, gx < x), And(gn == n, gx == x, gy < y))

    def _inv(self, level):
        def inv(cx):
            nx, ny, nb = ps_globals(cx)
            n = cx.v('n')
            x = cx.v('x') if level >= 1 else I(0)
            y = cx.v('y') if level >= 2 else I(0)
            gn, gx, gy = cx.g('n'), cx.g('x'), cx.g('y')
            rng = [n >= 0, n <= nb] if level == 0 else ([n >= 0, n < nb, x >= 0, x <= nx] if level == 1 else [n >= 0, n < nb, x >= 0, x < nx, y >= 0, y <= ny])
            return [('range', And(*rng)),
                    ('done', Implies(And(gn >= 0, gx >= 0, gx < nx, gy >= 0, gy < ny, self.before(cx, n, x, y)),
                                     cx.sel('this._data', (gn * nx + gx) * ny + gy) == self.value(cx, gn, gx, gy))),
                    ('frame', self.unchanged(cx, '_projection', '_ws', '_filling', '_filling_set'))]
        return inv

    def _hints(self, cx, cxb):
        nx, ny, nb = ps_globals(cx)
        n, x, y = cxb.v('n'), cxb.v('x'), cxb.v('y')
        gn, gx, gy = cx.g('n'), cx.g('x'), cx.g('y')
        inr = And(gn >= 0, gx >= 0, gx < nx, gy >= 0, gy < ny)
        flat = lambda a, b, c: (a * nx + b) * ny + c
        return [('p1', Implies(n - gn - 1 >= 0, (n - gn - 1) * nx >= 0)), ('p1b', Implies(n - gn - 1 >= 0, (n - gn - 1) * nx * ny >= 0)),
                ('rowlt', Implies(And(inr, gn == n, gx < x), (x - gx - 1) * ny >= 0)),
                ('lex', Implies(And(inr, self.before(cx, n, x, y)), flat(gn, gx, gy) < flat(n, x, y))),
                ('p2', Implies(And(n >= 0, n < nb), (nb - 1 - n) * nx >= 0)), ('p2b', Implies(And(n >= 0, n < nb), (nb - 1 - n) * nx * ny >= 0)),
                ('p3', Implies(And(x >= 0, x < nx), (nx - 1 - x) * ny >= 0)),
                ('top', flat(n, x, y) < nb * nx * ny), ('ptop', And(n * nx + x < nb * nx, (nb + n) * nx + y < 2 * nb * nx))]

    @property
    def loops(self):
        ly = LoopSpec(inv=self._inv(2), hints=self._hints)
        same = lambda cx, cxb: And(cx.g('n') == cxb.v('n'), cx.g('x') == cxb.v('x'), cx.g('y') == cxb.v('y'))
        ly.split = lambda cx, cxb: [('cur', same(cx, cxb)), ('other', Not(same(cx, cxb)))]
        return {'n#0': LoopSpec(inv=self._inv(0)), 'x#0': LoopSpec(inv=self._inv(1)), 'y#0': ly}


class Gaus(PSMethod):
    """gaus(axis, zoom): the unit Gaussian sampled on the grid lines of the axis, rv[i] = 1/sqrt(2 pi) * exp(-x_i^2 / (2 zoom^2))"""
    name = 'vfps::PhaseSpace::gaus'
    params = ['axis', 'zoom']
    tags = {'C09', 'C17'}
    ghosts = {'g': 'int'}
    cases = [{'axis': 0}, {'axis': 1}]

    def requires(self, cx):
        return PSMethod.requires(self, cx) + [('zoom', cx.a('zoom') != 0)]

    def assigns(self, cx):
        return []

    def value(self, cx, i):
        ax = z3.simplify(cx.a('axis')).as_long() if z3.is_int_value(z3.simplify(cx.a('axis'))) else 0
        xi = cx.old.sel(f'this._axis[{ax}]._data', i)
        z2 = cx.a('zoom') * cx.a('zoom')
        return models.uf_const('ONE_DIV_ROOT_TWO_PI') * models.uf('exp')(Rq(-1, 2) * xi * xi / z2)

    def ensures(self, cx):
        nx, ny, nb = ps_globals(cx)
        g = cx.g('g')
        rv = cx.ret
        if not isinstance(rv, ObjRef):
            return [('returns_array', {'C09'}, z3.BoolVal(False))]
        return [('len', {'C09', 'C17'}, cx.st.len_of(rv.name) == nx),
                ('gaussian', {'C09'}, Implies(And(g >= 0, g < nx), z3.Select(cx.st.array(rv.name, '', parse_type_str('float')), g) == self.value(cx, g)))]

    def _inv(self, cx):
        nx, ny, nb = ps_globals(cx)
        i, g = cx.v('i'), cx.g('g')
        rv = cx.val('rv').name
        return [('range', And(i >= 0, i <= nx, cx.v('maxi') == nx)), ('len', cx.st.len_of(rv) == nx),
                ('done', Implies(And(g >= 0, g < i), z3.Select(cx.st.array(rv, '', parse_type_str('float')), g) == self.value(cx, g)))]

    @property
    def loops(self):
        l = LoopSpec(inv=self._inv)
        l.split = split_ghost('i', 'g')
        return {'i#0': l}


class PhaseSpaceCtor12Use(PhaseSpaceCtor12):
    param_defaults = {'zoom': lambda: RealV(z3.RealVal(1), parse_type_str('double')), 'data': lambda: PtrV(None, I(0), None)}     # as declared in PhaseSpace.hpp
    """call-site view: charge and current members are the constructor arguments (member initialisers charge(beam_charge),
    current(beam_current) of the main constructor, forwarded unchanged by the delegating ones); trailing parameters may be defaulted"""

    def effect(self, cx):
        t = cx.this or 'this'
        for m, a in (('charge', 'beam_charge'), ('current', 'beam_current')):
            v = cx.args.get(a)
            if v is not None:
                cx.st.scal[f'{t}.{m}'] = RealV(v.t if isinstance(v, RealV) else z3.ToReal(v.t), parse_type_str('double'))
