"""ProgramOptions::save (U26): which options the writer can write, and when alpha0 is written as 0 — C13.
The contract is checked on facts extracted from the real AST: the registration table of the constructor
(option name, value type as resolved by clang) and the type dispatch of save()."""
import re, z3
from .common import *
from vf.ast import params, body, line_of
from vf.vcg import Exec
from vf.state import State, Obligation
from vf.unit import _walk

IGNORED_FOR_COMPAT = None   # read from save() itself: the names compared against it->first in the skip condition


def strlit(n):
    for x in _walk(n):
        if x.get('kind') == 'StringLiteral':
            return x.get('value', '').strip('"')
    return None


class ProgramOptionsSave(Contract):
    name = 'vfps::ProgramOptions::save'
    replay = lambda self, o, model, pid: {'harness': 'po_replay', 'runs': [['getters'], ['roundtrip']], 'all': True, 'hdf5': True}
    tu = 'src/IO/ProgramOptions.cpp'
    tags = {'C13'}

    def custom_verify(self, scratch, tc):
        tu = tc.get(self.tu)
        ctor = tu.function('vfps::ProgramOptions::ProgramOptions')
        saves = [f for f in tu.funcs.get('vfps::ProgramOptions::save', []) if 'std::string' in f.get('type', {}).get('qualType', '') or 'basic_string' in f.get('type', {}).get('qualType', '')]
        if len(saves) != 1:
            raise ExtractionError('ProgramOptions::save(std::string) not found')
        save = saves[0]
        ex = Exec(tu, save, 'ProgramOptions::save')
        ex.default_tags = {'C13'}
        # ---- registration table: operator()(name, value<T>(...), help) calls in the constructor
        table = {}
        bound = {}      # member variable -> option names bound to it
        for n in _walk(ctor):
            if n.get('kind') != 'CXXOperatorCallExpr':
                continue
            args = n.get('inner', [])[1:]
            if len(args) < 3:
                continue
            name = None
            for a in args[1:2]:
                name = strlit(a) if a.get('kind') in ('ImplicitCastExpr', 'StringLiteral') else None
            if not name:
                continue
            T = None
            for x in _walk(args[2]):
                if x.get('kind') == 'DeclRefExpr' and x.get('referencedDecl', {}).get('name') == 'value':
                    m = re.search(r'typed_value<(.*)> \*\(', x.get('type', {}).get('qualType', ''))
                    if m:
                        T = m.group(1)
            if T is None:
                continue
            table.setdefault(name.split(',')[0], set()).add(T.strip())
            # the member the option is bound to:  value<T>(&member)
            for x in _walk(args[2]):
                if x.get('kind') == 'UnaryOperator' and x.get('opcode') == '&':
                    mem = [y.get('name') for y in _walk(x) if y.get('kind') == 'MemberExpr']
                    if mem:
                        bound.setdefault(mem[0], []).append(name.split(',')[0])
        if len(table) < 40:
            raise ExtractionError(f'ProgramOptions constructor: only {len(table)} option registrations recognised')
        # ---- save(): handled types and skipped names
        handled = set()
        for n in _walk(save):
            if n.get('kind') == 'CXXTypeidExpr':
                t = n.get('typeArg', {}).get('desugaredQualType') or n.get('typeArg', {}).get('qualType')
                if t:
                    handled.add(t.strip())
        skipped = set()
        alpha_if = None
        for n in _walk(save):
            if n.get('kind') == 'IfStmt':
                cond = n['inner'][0]
                lits = [x.get('value', '').strip('"') for x in _walk(cond) if x.get('kind') == 'StringLiteral']
                # a skip list moved into a helper predicate (`if (isSkipped(it->first)) continue;`): the names the helper compares with
                for c_ in _walk(cond):
                    if c_.get('kind') != 'CallExpr':
                        continue
                    h_ = c_['inner'][0]
                    while h_.get('kind') in ('ImplicitCastExpr', 'ParenExpr'):
                        h_ = h_['inner'][0]
                    hn = (h_.get('referencedDecl') or {}).get('name')
                    if not hn or hn.startswith('operator'):
                        continue
                    defs_ = [f for q_, fl in tu.funcs.items() if q_.split('::')[-1] == hn for f in fl]
                    if not defs_:
                        try:
                            from vf.ast import TU as _TU
                            tu_h = _TU(self.tu, scratch, hn)
                            defs_ = [f for q_, fl in tu_h.funcs.items() if q_.split('::')[-1] == hn for f in fl]
                        except ExtractionError:
                            defs_ = []
                    if len(defs_) == 1:
                        lits += [x.get('value', '').strip('"') for r_ in _walk(defs_[0]) if r_.get('kind') == 'ReturnStmt' for x in _walk(r_) if x.get('kind') == 'StringLiteral']
                thn = n['inner'][1]
                only_continue = all(x.get('kind') in ('CompoundStmt', 'ContinueStmt') for x in _walk(thn))
                if lits and only_continue:
                    skipped |= set(lits)
                if 'alpha0' in lits and alpha_if is None:
                    alpha_if = n
        if not handled:
            raise ExtractionError('ProgramOptions::save: no typeid dispatch found')
        norm = {'float': 'float', 'double': 'double', 'int': 'int', 'unsigned int': 'unsigned int', 'long': 'long', 'bool': 'bool',
                'int32_t': 'int', 'uint32_t': 'unsigned int', 'int64_t': 'long'}
        handled_n = set(norm.get(h, h) for h in handled)
        st = State()

        def typename(t):
            t = t.replace('std::__cxx11::basic_string<char>', 'std::string').replace('std::basic_string<char>', 'std::string').replace('basic_string<char>', 'std::string')
            return {'unsigned char': 'unsigned char', 'uint_fast8_t': 'unsigned char'}.get(t, t)
        for name in sorted(table):
            if name in skipped:
                continue
            for T in table[name]:
                Tn = typename(T)
                ok = Tn in handled_n or Tn == 'std::string' or typename(T) in set(typename(h) for h in handled)
                o = Obligation(f'ProgramOptions::save#opt.{name}.value_type_written', {'C13'}, [], z3.BoolVal(ok), 'postcondition',
                               None, f'option {name} has value type {T}; save() writes types {sorted(handled_n)} and std::string')
                ex.obls.append(o)
        # ---- legacy aliases: an alias the writer skips by name is bound to the same member as a canonical option that IS
        # written; the run uses the alias value (both notify into the member), so the value the writer prints for the canonical
        # option — taken from the variables map — must have been replaced by the alias value in parse()
        parses = tu.funcs.get('vfps::ProgramOptions::parse', [])
        if len(parses) != 1:
            raise ExtractionError('ProgramOptions::parse not found')
        copies = set()      # (canonical, alias): _vm.at(canonical).value() = _vm[alias].value()
        helper_info = {}    # (canonical, alias) -> (call node in parse, helper definition, {string parameter id -> literal at this call})
        for n in _walk(parses[0]):
            if n.get('kind') in ('CXXOperatorCallExpr', 'BinaryOperator') and len(n.get('inner', [])) >= 2:
                callee = n['inner'][0]
                isassign = (n.get('kind') == 'BinaryOperator' and n.get('opcode') == '=') or \
                           any((y.get('referencedDecl') or {}).get('name') == 'operator=' for y in _walk(callee))
                if not isassign:
                    continue
                ops = n['inner'][-2:]
                l_lits = [y.get('value', '').strip('"') for y in _walk(ops[0]) if y.get('kind') == 'StringLiteral']
                r_lits = [y.get('value', '').strip('"') for y in _walk(ops[1]) if y.get('kind') == 'StringLiteral']
                if len(l_lits) == 1 and len(r_lits) == 1:
                    copies.add((l_lits[0], r_lits[0]))
        # the same copy done through a small helper:  helper(vm, "alias", "canonical")  whose body assigns
        # vm.at(<canonical parameter>).value() = vm[<alias parameter>].value()
        # ... or through a local lambda:  auto helper = [this](legacy, current) {...};  helper("alias", "canonical")
        lambdas = {}
        for v_ in _walk(parses[0]):
            if v_.get('kind') == 'VarDecl' and v_.get('id'):
                for le in _walk(v_):
                    if le.get('kind') == 'LambdaExpr':
                        ops_ = [m_ for m_ in _walk(le) if m_.get('kind') == 'CXXMethodDecl' and m_.get('name') == 'operator()' and any(c.get('kind') == 'CompoundStmt' for c in m_.get('inner', []))]
                        if ops_:
                            lambdas[v_['id']] = ops_[0]
                        break
        for n in _walk(parses[0]):
            call_args = None
            if n.get('kind') == 'CXXOperatorCallExpr' and len(n.get('inner', [])) >= 2:
                tgt = n['inner'][1]
                while tgt.get('kind') in ('ImplicitCastExpr', 'ParenExpr'):
                    tgt = tgt['inner'][0]
                lid = (tgt.get('referencedDecl') or {}).get('id')
                if lid in lambdas and any((y.get('referencedDecl') or {}).get('name') == 'operator()' for y in _walk(n['inner'][0])):
                    fd = lambdas[lid]
                    call_args = n['inner'][2:]
            if call_args is None and n.get('kind') != 'CallExpr':
                continue
            if call_args is not None:
                pass
            else:
              callee = n['inner'][0]
              while callee.get('kind') in ('ImplicitCastExpr', 'ParenExpr'):
                callee = callee['inner'][0]
              fd = tu.byid.get((callee.get('referencedDecl') or {}).get('id'))
            if call_args is None and fd is None:
                fds = [f_ for f_ in tu.docs if isinstance(f_, dict) and f_.get('id') == (callee.get('referencedDecl') or {}).get('id')]
                fd = fds[0] if fds else None
            if call_args is None and (fd is None or not any(c.get('kind') == 'CompoundStmt' for c in fd.get('inner', []))):
                # definition may be a later redeclaration of the same function
                nm_ = (callee.get('referencedDecl') or {}).get('name')
                cands = [f_ for q_, fl_ in tu.funcs.items() for f_ in fl_ if q_.split('::')[-1] == nm_]
                fd = cands[0] if len(cands) == 1 else None
            if call_args is None and fd is None:
                # a helper outside namespace vfps (e.g. in an anonymous namespace of the same file): dump it by name
                nm_ = (callee.get('referencedDecl') or {}).get('name')
                nlits = sum(1 for a__ in n['inner'][1:] if strlit(a__))
                if nm_ and nlits >= 2 and nm_ not in ('store', 'notify', 'parse_config_file', 'parse_command_line', 'printText', 'exists', 'is_regular_file'):
                    try:
                        tu2 = tc.get(self.tu, nm_)
                        cands = [f_ for q_, fl_ in tu2.funcs.items() for f_ in fl_ if q_.split('::')[-1] == nm_]
                        fd = cands[0] if len(cands) == 1 else None
                    except ExtractionError:
                        fd = None
            if fd is None:
                continue
            ps_ = params(fd)
            pidx = {p_['id']: i_ for i_, p_ in enumerate(ps_)}
            for a_ in _walk(fd):
                if a_.get('kind') in ('CXXOperatorCallExpr', 'BinaryOperator') and len(a_.get('inner', [])) >= 2:
                    isassign = (a_.get('kind') == 'BinaryOperator' and a_.get('opcode') == '=') or \
                               any((y.get('referencedDecl') or {}).get('name') == 'operator=' for y in _walk(a_['inner'][0]))
                    if not isassign:
                        continue
                    ops = a_['inner'][-2:]
                    lp = [pidx[(y.get('referencedDecl') or {}).get('id')] for y in _walk(ops[0]) if y.get('kind') == 'DeclRefExpr' and (y.get('referencedDecl') or {}).get('id') in pidx]
                    rp = [pidx[(y.get('referencedDecl') or {}).get('id')] for y in _walk(ops[1]) if y.get('kind') == 'DeclRefExpr' and (y.get('referencedDecl') or {}).get('id') in pidx]
                    # parameters that are strings (names), ignoring the map parameter shared by both sides
                    lp = [i_ for i_ in lp if 'string' in ps_[i_]['type'].get('qualType', '') or 'char' in ps_[i_]['type'].get('qualType', '')]
                    rp = [i_ for i_ in rp if 'string' in ps_[i_]['type'].get('qualType', '') or 'char' in ps_[i_]['type'].get('qualType', '')]
                    if len(set(lp)) == 1 and len(set(rp)) == 1 and lp[0] != rp[0]:
                        args_ = call_args if call_args is not None else n['inner'][1:]
                        if max(lp[0], rp[0]) < len(args_):
                            cl, al = strlit(args_[lp[0]]), strlit(args_[rp[0]])
                            if cl and al:
                                copies.add((cl, al))
                                helper_info[(cl, al)] = (n, fd, {ps_[lp[0]]['id']: cl, ps_[rp[0]]['id']: al})
        # ---- guard chain of every copy: the conditions (those that consult the variables map) of the enclosing `if`s, outermost first.
        # Two shapes keep "the value saved = the value the run uses" (C13) for every invocation:
        #   [count(alias)]                                  the alias value always replaces the stored value of the current name
        #   [count(alias), current.defaulted()] + erase     the alias value replaces it only if the current name was not given itself, and
        #                                                   the alias entry is erased in the count(alias) branch, so that notify() cannot
        #                                                   hand the alias value to the shared member after the current name's value
        # (the second shape is also what "command line beats config file, legacy names act like current names" needs, C20)
        guard_chain = {}          # pair -> list of guard labels
        erased = {}               # alias -> True if `_vm.erase("alias")` stands directly in the branch guarded by count(alias)

        def _names_in(node, subst):
            out = [x.get('value', '').strip('"') for x in _walk(node) if x.get('kind') == 'StringLiteral']
            if subst:
                out += [subst[(x.get('referencedDecl') or {}).get('id')] for x in _walk(node) if x.get('kind') == 'DeclRefExpr' and (x.get('referencedDecl') or {}).get('id') in subst]
            return out

        def _classify(cond, subst=None, mapids=()):
            mems = [x.get('name') for x in _walk(cond) if x.get('kind') == 'MemberExpr']
            about_map = '_vm' in mems or any((x.get('referencedDecl') or {}).get('id') in mapids for x in _walk(cond) if x.get('kind') == 'DeclRefExpr')
            if not about_map:
                return None                      # not about the variables map (file exists, stream good, ...): context, not a guard
            logic = [x for x in _walk(cond) if x.get('kind') == 'BinaryOperator' and x.get('opcode') in ('&&', '||')]
            neg = [x for x in _walk(cond) if x.get('kind') == 'UnaryOperator' and x.get('opcode') == '!']
            lits = _names_in(cond, subst)
            if logic or neg or len(lits) != 1:
                return 'other'
            if set(mems) <= {'count', '_vm'} and 'count' in mems:
                return 'count:' + lits[0]
            if 'defaulted' in mems and set(mems) <= {'defaulted', '_vm', 'at'}:
                return 'defaulted:' + lits[0]
            return 'other'

        def _shallow(x):
            if isinstance(x, dict):
                yield x
                for ch in x.get('inner', []) or []:
                    if isinstance(ch, dict) and ch.get('kind') == 'IfStmt':
                        continue
                    yield from _shallow(ch)

        def _scan_ifs(fnode, resolve, subst=None, mapids=(), prefix=()):
            def rec(node, chain):
                if not isinstance(node, dict):
                    return
                if node.get('kind') == 'IfStmt':
                    inner = node.get('inner', [])
                    lab = _classify(inner[0], subst, mapids)
                    thn_chain = chain + ([lab] if lab is not None else [])
                    if lab is not None and lab.startswith('count:') and len(inner) > 1:
                        for a_ in _shallow(inner[1]):
                            if a_.get('kind') == 'CXXMemberCallExpr' and a_['inner'][0].get('kind') == 'MemberExpr' and a_['inner'][0].get('name') == 'erase' and \
                                    (any(y.get('kind') == 'MemberExpr' and y.get('name') == '_vm' for y in _walk(a_['inner'][0])) or
                                     any((y.get('referencedDecl') or {}).get('id') in mapids for y in _walk(a_['inner'][0]) if y.get('kind') == 'DeclRefExpr')) and \
                                    lab[6:] in _names_in(a_, subst):
                                erased[lab[6:]] = True
                    rec(inner[0], chain)
                    if len(inner) > 1:
                        rec(inner[1], thn_chain)
                    if len(inner) > 2:
                        rec(inner[2], chain + (['other'] if lab is not None else []))      # else-branch of a map condition: not a shape we know
                    return
                pair = resolve(node)
                if pair is not None and pair not in guard_chain:
                    guard_chain[pair] = list(chain)
                for ch in node.get('inner', []) or []:
                    rec(ch, chain)
            rec(fnode, list(prefix))

        def shape_of(pair):
            ch = guard_chain.get(pair)
            if ch == ['count:' + pair[1]]:
                return 'always'
            if ch == ['count:' + pair[1], 'defaulted:' + pair[0]] and erased.get(pair[1]):
                return 'unless_given'
            return None
        guarded_extra = set()

        def _direct(a_):
            if a_.get('kind') in ('CXXOperatorCallExpr', 'BinaryOperator') and len(a_.get('inner', [])) >= 2:
                isassign = (a_.get('kind') == 'BinaryOperator' and a_.get('opcode') == '=') or \
                           any((y.get('referencedDecl') or {}).get('name') == 'operator=' for y in _walk(a_['inner'][0]))
                if isassign:
                    ops = a_['inner'][-2:]
                    l_ = [y.get('value', '').strip('"') for y in _walk(ops[0]) if y.get('kind') == 'StringLiteral']
                    r_ = [y.get('value', '').strip('"') for y in _walk(ops[1]) if y.get('kind') == 'StringLiteral']
                    if len(l_) == 1 and len(r_) == 1 and (l_[0], r_[0]) in copies:
                        return (l_[0], r_[0])
            return None
        _scan_ifs(parses[0], _direct)
        # copies done through a small helper: guards at the call site in parse() followed by the guards inside the helper, with the helper's
        # string parameters read as the literals of this call and its map parameter as the variables map
        for pr, (call_n, fd_, subst_) in helper_info.items():
            if pr in guard_chain:
                continue
            site_chain = {}

            def _is_call(node, call_n=call_n):
                return ('site', 'site') if node is call_n else None
            saved = dict(guard_chain)
            guard_chain.clear()
            _scan_ifs(parses[0], _is_call)
            outer = guard_chain.get(('site', 'site'))
            guard_chain.clear()
            guard_chain.update(saved)
            if outer is None:
                continue
            mapids = tuple(p_['id'] for p_ in params(fd_) if 'variables_map' in p_['type'].get('qualType', ''))

            def _assign_in_helper(a_, pr=pr):
                if a_.get('kind') in ('CXXOperatorCallExpr', 'BinaryOperator') and len(a_.get('inner', [])) >= 2:
                    isassign = (a_.get('kind') == 'BinaryOperator' and a_.get('opcode') == '=') or \
                               any((y.get('referencedDecl') or {}).get('name') == 'operator=' for y in _walk(a_['inner'][0]))
                    if isassign and any(y.get('kind') == 'MemberExpr' and y.get('name') == 'value' for y in _walk(a_)):
                        return pr
                return None
            _scan_ifs(body(fd_), _assign_in_helper, subst_, mapids, prefix=outer)
        for pr in copies:
            if pr not in guard_chain:
                # the copy is done through a helper function: its guards are partly inside the helper, which this analysis does not follow
                raise ExtractionError(f'ProgramOptions::parse: the copy {pr[1]} -> {pr[0]} is not a statement of parse() itself (helper?): the guard analysis of the alias copies has to be rewritten')
        guarded_extra = set(pr for pr in copies if shape_of(pr) is None)
        self.last_shapes = {pr: shape_of(pr) for pr in copies}
        # ---- the run uses the member variables, the results file and the saved config the variables map: after the stored value
        # of a canonical option has been replaced by the alias value, notify() has to hand it to the member again (notify applies
        # the options in map order, so a defaulted canonical option sorted after its alias has overwritten the alias value)
        def _is_notify(stmt):
            x = stmt
            while x.get('kind') in ('ExprWithCleanups', 'ImplicitCastExpr', 'ParenExpr') and x.get('inner'):
                x = x['inner'][0]
            if x.get('kind') != 'CallExpr':
                return False
            cal = [y for y in _walk(x['inner'][0]) if y.get('kind') == 'DeclRefExpr']
            if not any((y.get('referencedDecl') or {}).get('name') == 'notify' for y in cal):
                return False
            return any(y.get('kind') == 'MemberExpr' and y.get('name') == '_vm' for a__ in x['inner'][1:] for y in _walk(a__))

        def _site_pair(a_):
            pr = _direct(a_)
            if pr is not None:
                return pr
            if a_.get('kind') == 'CallExpr':
                lits_ = [strlit(q) for q in a_['inner'][1:]]
                lits_ = [q for q in lits_ if q]
                for (c__, al__) in copies:
                    if c__ in lits_ and al__ in lits_:
                        return (c__, al__)
            return None
        renotified = {}

        def _visit(stmt, followers):
            if not isinstance(stmt, dict):
                return
            k_ = stmt.get('kind')
            if k_ == 'CompoundStmt':
                ch = [c for c in stmt.get('inner', []) if isinstance(c, dict)]
                for i_, c in enumerate(ch):
                    _visit(c, ch[i_ + 1:] + followers)
                return
            if k_ in ('IfStmt', 'ForStmt', 'WhileStmt', 'CXXTryStmt', 'CXXCatchStmt', 'DoStmt', 'CXXForRangeStmt'):
                for c in stmt.get('inner', []):
                    _visit(c, followers)
                return
            for a_ in _walk(stmt):
                pr = _site_pair(a_)
                if pr is not None:
                    renotified[pr] = renotified.get(pr, True) and any(_is_notify(f_) for f_ in followers)
        pb = body(parses[0])
        _visit(pb, [])
        for pr in sorted(copies):
            ex.obls.append(Obligation(f'ProgramOptions::parse#alias.{pr[1]}.member_renotified_after_copy', {'C13', 'C10', 'C20'}, [], z3.BoolVal(bool(renotified.get(pr, False))), 'postcondition', None,
                                      f'after the stored value of {pr[0]} is replaced by the value of {pr[1]}, notify(_vm) follows unconditionally before parse() returns, so the member the simulation reads holds the value the results file and the saved config record'))
        nalias = 0
        for mem, names in sorted(bound.items()):
            canon = [nm for nm in names if nm not in skipped]
            for alias in [nm for nm in names if nm in skipped]:
                for c_ in canon:
                    nalias += 1
                    ok = (c_, alias) in copies and (c_, alias) not in guarded_extra
                    ex.obls.append(Obligation(f'ProgramOptions::save#alias.{alias}.value_reaches_{c_}', {'C13', 'C20'}, [], z3.BoolVal(ok), 'postcondition', None,
                                              f'legacy option {alias} and {c_} are bound to the same member {mem}; save() skips {alias}, so parse() must copy its value into the stored value of {c_} whenever {alias} is given (found copies {sorted(copies)}, conditionally guarded: {sorted(guarded_extra)})'))
        # ---- the writer leaves out an entry only by NAME.  If it also leaves out entries whose defaulted() flag is set, then
        # no stored value may have been changed in place (the copies above keep the flag): such an option would be dropped
        skips_defaulted = False
        for n in _walk(save):
            if n.get('kind') == 'IfStmt':
                thn = n['inner'][1]
                if all(x.get('kind') in ('CompoundStmt', 'ContinueStmt') for x in _walk(thn)) and any(x.get('kind') == 'ContinueStmt' for x in _walk(thn)):
                    if any(x.get('kind') == 'MemberExpr' and x.get('name') == 'defaulted' for x in _walk(n['inner'][0])):
                        skips_defaulted = True
        ex.obls.append(Obligation('ProgramOptions::save#skip.defaulted_entries_are_unmodified', {'C13'}, [], z3.BoolVal(not (skips_defaulted and copies)), 'postcondition', None,
                                  f'save() skips defaulted entries: {skips_defaulted}; parse() changes stored values in place without clearing the flag: {sorted(copies)}'))
        # ---- text round trip of floating-point values: "exactly the same value for every option" needs max_digits10 significant digits
        # (9 for float, 17 for double); the default stream precision of 6 digits does not reproduce e.g. RevolutionFrequency=2715563.7
        NEED = {'float': 9, 'double': 17, 'std::vector<float>': 9}

        def prec_value(node):
            # precision(n) / setprecision(n) with a literal or numeric_limits<T>::max_digits10 (or digits10 + k is not accepted)
            for x in _walk(node):
                if x.get('kind') == 'DeclRefExpr' and (x.get('referencedDecl') or {}).get('name') == 'max_digits10':
                    # the JSON dump does not carry the qualifier: read numeric_limits<T> off the source text of the expression
                    import re as _re
                    rg = x.get('range', {})
                    b0, e0 = rg.get('begin', {}).get('offset'), rg.get('end', {}).get('offset')
                    if b0 is None or e0 is None:
                        return None
                    src_txt = open(tu.path, 'rb').read()[b0:e0 + rg['end'].get('tokLen', 0)].decode('utf8', 'replace')
                    m = _re.search(r'numeric_limits\s*<\s*([\w: ]+?)\s*>', src_txt)
                    t = m.group(1).strip() if m else None
                    seen_ = set()
                    while t is not None and t not in ('float', 'double', 'long double') and t not in seen_:
                        seen_.add(t)
                        short = t.split('::')[-1]
                        tds = [d_ for d_ in _walk_docs(tu) if d_.get('kind') in ('TypedefDecl', 'TypeAliasDecl') and d_.get('name') == short]
                        t = (tds[0].get('type', {}).get('desugaredQualType') or tds[0].get('type', {}).get('qualType')) if tds else None
                    return {'float': 9, 'double': 17, 'long double': 21}.get(t)
            lits = [int(x.get('value')) for x in _walk(node) if x.get('kind') == 'IntegerLiteral']
            return lits[0] if len(lits) == 1 else None

        def _walk_docs(tu_):
            for d_ in tu_.docs:
                yield from _walk(d_)

        def prec_sites(root):
            out = []
            for x in _walk(root):
                if x.get('kind') == 'CXXMemberCallExpr' and x['inner'][0].get('kind') == 'MemberExpr' and x['inner'][0].get('name') == 'precision' and len(x['inner']) == 2:
                    out.append(prec_value(x['inner'][1]))
                if x.get('kind') == 'CallExpr':
                    c_ = x['inner'][0]
                    while c_.get('kind') in ('ImplicitCastExpr', 'ParenExpr'):
                        c_ = c_['inner'][0]
                    if (c_.get('referencedDecl') or {}).get('name') == 'setprecision' and len(x['inner']) == 2:
                        out.append(prec_value(x['inner'][1]))
            return out
        sb = body(save)
        top = []
        for st_ in sb.get('inner', []):
            if st_.get('kind') in ('ForStmt', 'CXXForRangeStmt', 'WhileStmt'):
                break
            top += prec_sites(st_)
        global_prec = max([v for v in top if v is not None], default=6)
        # the stream precision is sticky: whatever any other statement of the function sets stays in effect for later iterations of the
        # loop.  A branch that does not set the precision in its own output chain is therefore only as good as the SMALLEST value set
        # anywhere in the function (and as the default, 6, if nothing is set before the loop)
        all_sites = [v for v in prec_sites(sb) if v is not None]
        unknown_sites = [v for v in prec_sites(sb) if v is None]
        if unknown_sites:
            raise ExtractionError('ProgramOptions::save: a precision() / setprecision() argument is not a literal or numeric_limits<T>::max_digits10')
        inherited = min(all_sites + [global_prec]) if all_sites else global_prec
        for n in _walk(save):
            if n.get('kind') != 'IfStmt':
                continue
            tids = [(x.get('typeArg', {}).get('desugaredQualType') or x.get('typeArg', {}).get('qualType') or '').strip() for x in _walk(n['inner'][0]) if x.get('kind') == 'CXXTypeidExpr']
            tids = [typename(norm.get(t, t)) for t in tids]
            for T in tids:
                if T in NEED:
                    local = [v for v in prec_sites(n['inner'][1]) if v is not None]
                    have = min(local) if local else inherited
                    ex.obls.append(Obligation(f'ProgramOptions::save#text.{T.replace("std::", "").replace("<", "_").replace(">", "")}_values_round_trip', {'C13'}, [], z3.BoolVal(have >= NEED[T]), 'postcondition', line_of(n),
                                              f'values of type {T} are written with {have} significant digits; {NEED[T]} (max_digits10) are needed for the text to reproduce the value exactly'))
        # ---- values are written as they are: no stream manipulator or wrapper that changes the TEXT of a value in a way the
        # config-file reader does not undo (std::quoted: the reader keeps the quotes as part of a string; hex/oct/fixed/hexfloat: numbers)
        TEXT_CHANGERS = {'quoted', 'hex', 'oct', 'fixed', 'hexfloat', 'setbase', 'setw', 'setfill', 'put_money', 'put_time'}
        changers = sorted(set((x.get('referencedDecl') or {}).get('name') for x in _walk(save) if x.get('kind') == 'DeclRefExpr' and (x.get('referencedDecl') or {}).get('name') in TEXT_CHANGERS))
        ex.obls.append(Obligation('ProgramOptions::save#text.values_are_written_verbatim', {'C13'}, [], z3.BoolVal(not changers), 'postcondition', line_of(save),
                                  f'stream manipulators / wrappers in save() that change how a value reads when parsed back: {changers}'))
        # ---- the config-file reader cuts every line at '#': a text value containing one is not reproduced unless save() does
        # something about it (refuse, warn, escape).  Fact: the text branch looks at the value for a '#'
        looks = False
        for x in _walk(save):
            if x.get('kind') == 'CXXMemberCallExpr' and x['inner'][0].get('name') in ('find', 'find_first_of', 'find_first_not_of', 'rfind'):
                lits = [y.get('value', '') for y in _walk(x) if y.get('kind') in ('StringLiteral', 'CharacterLiteral')]
                if any(('#' in str(l_)) or l_ == 35 for l_ in lits):
                    looks = True
        ex.obls.append(Obligation('ProgramOptions::save#text.comment_sign_in_a_text_value_is_handled', {'C13'}, [], z3.BoolVal(looks), 'postcondition', line_of(save),
                                  "text values (file names) are written as they are and the reader drops everything from a '#' on: save() has to look for one"))
        # ---- alpha0: written as 0 only when the synchrotron frequency is the one in use (f_s != 0)
        if alpha_if is None:
            raise ExtractionError('ProgramOptions::save: alpha0 special case not found')
        cond = alpha_if['inner'][0]
        while cond.get('kind') in ('ExprWithCleanups', 'ImplicitCastExpr', 'ParenExpr', 'MaterializeTemporaryExpr'):
            cond = cond['inner'][0]
        rhs = None
        if cond.get('kind') == 'BinaryOperator' and cond.get('opcode') == '&&':
            rhs = cond['inner'][1]
        if rhs is None:
            raise ExtractionError('ProgramOptions::save: alpha0 condition has an unexpected shape')
        ex.thisname = 'this'
        try:
            c = ex.tobool(ex.ev(rhs, st))
        except ExtractionError:
            # the condition consults something other than scalar members (e.g. the variables map): nothing is known
            # about it here, so it cannot establish that a synchrotron frequency is in use
            c = State.fresh('alpha0_condition', z3.BoolSort())
        fs = st.scal.get('this.f_s')
        if fs is None:
            fs = ex.new_scalar(st, 'this.f_s', parse_type_str('float'))
        wrote_zero = any('alpha0=0' in (x.get('value') or '') for x in _walk(alpha_if['inner'][1]) if x.get('kind') == 'StringLiteral')
        ex.oblig(st, 'alpha0.zero_only_when_overridden', z3.Implies(z3.And(c, z3.BoolVal(wrote_zero)), fs.t != 0), 'postcondition', {'C13'},
                 'alpha0 may be replaced by 0 only when a synchrotron frequency is given')
        ex.oblig(st, 'config.commented_out', z3.BoolVal(any(x.get('kind') == 'CharacterLiteral' and x.get('value') == 35 for x in _walk(save))), 'postcondition', {'C13'},
                 'the name of the parent config file is written as a comment')
        ex.oblig(st, 'canary', z3.BoolVal(False), 'canary', set())
        info = {'unit': self.name, 'file': self.tu, 'sha': tu.sha, 'cases': 1, 'lines': [None, None], 'options': len(table),
                'handled_types': sorted(handled_n), 'skipped_names': sorted(skipped), 'extract_s': 0}
        return [ex], info


class ProgramOptionsGetters(Contract):
    """Every accessor `main` reads a parameter through returns the member the option OF THAT MEANING is bound to.
    Facts from the real AST: registration table of the constructor (option name -> &member) and the returned member of each getter.
    The table below is the statement: accessor -> option name(s) of the quantity (legacy aliases of the same quantity allowed)."""
    name = 'vfps::ProgramOptions::get*'
    replay = lambda self, o, model, pid: {'harness': 'po_replay', 'runs': [['getters'], ['roundtrip']], 'all': True, 'hdf5': True}
    tu = 'src/IO/ProgramOptions.cpp'
    tags = {'C03', 'C04', 'C05', 'C06', 'C09', 'C10', 'C11', 'C12', 'C13', 'C15', 'C16', 'C17', 'C19'}
    GETTERS = {
        'getFPType': ('FPType', {'C04'}), 'getFPTrack': ('FPTrack', {'C15'}), 'getDampingTime': ('DampingTime', {'C04'}),
        'getDerivationType': ('derivation', {'C04'}), 'getEnergySpread': ('BeamEnergySpread', {'C04', 'C03'}),
        'getStepsPerTsync': ('StepsPerTs', {'C03', 'C04', 'C10', 'C13'}), 'getStepsPerTrev': ('StepsPerRevolution', {'C03', 'C04', 'C10'}),
        'getNRotations': ('rotations', {'C10', 'C14'}), 'getOutSteps': ('outstep', {'C10', 'C12'}), 'getSavePhaseSpace': ('SavePhaseSpace', {'C10', 'C12'}),
        'getRenormalizeCharge': ('RenormalizeCharge', {'C09', 'C12'}), 'getGridSize': ('GridSize', {'C17'}), 'getPhaseSpaceSize': ('PhaseSpaceSize', {'C17', 'C10'}),
        'getPSShiftX': ('PhaseSpaceShiftX', {'C10'}), 'getPSShiftY': ('PhaseSpaceShiftY', {'C10'}),
        'getAlpha0': ('alpha0', {'C03'}), 'getAlpha1': ('alpha1', {'C03'}), 'getAlpha2': ('alpha2', {'C03'}),
        'getSyncFreq': ('SynchrotronFrequency', {'C03', 'C10', 'C13'}), 'getRFVoltage': ('AcceleratingVoltage', {'C03', 'C13'}),
        'getRevolutionFrequency': ('RevolutionFrequency', {'C03', 'C10'}), 'getHarmonicNumber': ('HarmonicNumber', {'C03', 'C19'}),
        'getBeamEnergy': ('BeamEnergy', {'C03', 'C10'}), 'getBendingRadius': ('BendingRadius', {'C16', 'C10'}), 'getLinearRF': ('LinearRF', {'C03'}),
        'getRFAmplitudeSpread': ('RFAmplitudeSpread', {'C19'}), 'getRFPhaseSpread': ('RFPhaseSpread', {'C19'}),
        'getRFPhaseModAmplitude': ('RFPhaseModAmplitude', {'C19'}), 'getRFPhaseModFrequency': ('RFPhaseModFrequency', {'C19'}),
        'getBunchCurrents': ('BunchCurrent', {'C09', 'C05', 'C10'}), 'getVacuumChamberGap': ('VacuumGap', {'C16'}), 'getUseCSR': ('UseCSR', {'C16'}),
        'getCollimatorRadius': ('CollimatorRadius', {'C16'}), 'getWallConductivity': ('WallConductivity', {'C16'}), 'getWallSusceptibility': ('WallSusceptibility', {'C16'}),
        'getImpedanceFile': ('Impedance', {'C16'}), 'getCutoffFrequency': ('CutoffFreq', {'C16', 'C06'}), 'getPadding': ('padding', {'C06'}), 'getRoundPadding': ('RoundPadding', {'C06'}),
        'getHaissinskiIterations': ('HaissinskiIterations', {'C05'}), 'getStartDistFile': ('InitialDistFile', {'C11'}), 'getStartDistStep': ('InitialDistStep', {'C11'}),
        'getStartDistZoom': ('InitialDistZoom', {'C09'}), 'getParticleTracking': ('tracking', {'C15'}), 'getOutFile': ('output', {'C10'}),
        'getInterpolationPoints': ('InterpolationPoints', {'C01', 'C02'}), 'getInterpolationClamped': ('InterpolateClamped', {'C01'}),
    }

    def custom_verify(self, scratch, tc):
        tu = tc.get(self.tu)
        ctor = tu.function('vfps::ProgramOptions::ProgramOptions')
        ex = Exec(tu, ctor, 'ProgramOptions::get*')
        ex.default_tags = set(self.tags)
        bound = {}      # option name -> members it is bound to
        for n in _walk(ctor):
            if n.get('kind') != 'CXXOperatorCallExpr':
                continue
            args = n.get('inner', [])[1:]
            if len(args) < 3:
                continue
            name = strlit(args[1]) if args[1].get('kind') in ('ImplicitCastExpr', 'StringLiteral') else None
            if not name:
                continue
            for x in _walk(args[2]):
                if x.get('kind') == 'UnaryOperator' and x.get('opcode') == '&':
                    mem = [y.get('name') for y in _walk(x) if y.get('kind') == 'MemberExpr']
                    if mem:
                        bound.setdefault(name.split(',')[0], set()).add(mem[0])
        if len(bound) < 40:
            raise ExtractionError(f'ProgramOptions constructor: only {len(bound)} bound options recognised')
        ntrivial = 0
        for g, (opt, tags) in sorted(self.GETTERS.items()):
            fns = [f for f in tu.funcs.get('vfps::ProgramOptions::' + g, []) if body(f) is not None]
            if len(fns) != 1:
                raise ExtractionError(f'ProgramOptions::{g}: definition not found (renamed?)')
            rets = [x for x in _walk(body(fns[0])) if x.get('kind') == 'ReturnStmt']
            if len(rets) != 1:
                raise ExtractionError(f'ProgramOptions::{g}: expected a single return')
            e = rets[0]['inner'][0] if rets[0].get('inner') else None
            while e is not None and e.get('kind') in ('ImplicitCastExpr', 'ExprWithCleanups', 'CXXConstructExpr', 'MaterializeTemporaryExpr', 'ParenExpr', 'CXXBindTemporaryExpr') and len(e.get('inner', [])) == 1:
                e = e['inner'][0]
            if e is not None and e.get('kind') == 'DeclRefExpr' and (e.get('referencedDecl') or {}).get('kind') == 'VarDecl':
                # returned through a local that cannot be re-bound: follow its initialiser
                vds = [x for x in _walk(body(fns[0])) if x.get('kind') == 'VarDecl' and x.get('id') == e['referencedDecl'].get('id')]
                if len(vds) == 1 and 'const' in vds[0].get('type', {}).get('qualType', '') and vds[0].get('inner'):
                    e = vds[0]['inner'][-1]
                    while e.get('kind') in ('ImplicitCastExpr', 'ExprWithCleanups', 'CXXConstructExpr', 'MaterializeTemporaryExpr', 'ParenExpr', 'CXXBindTemporaryExpr') and len(e.get('inner', [])) == 1:
                        e = e['inner'][0]
            if e is None or e.get('kind') != 'MemberExpr':
                raise ExtractionError(f'ProgramOptions::{g}: does not simply return a member (contract has to be rewritten)')
            mem = e.get('name')
            if opt not in bound:
                raise ExtractionError(f'ProgramOptions: option {opt} is not registered with a bound variable (renamed?)')
            ok = bound[opt] == {mem}       # EVERY registration of the option (command-line group, config-file group) is bound to the returned member
            ntrivial += 1
            ex.obls.append(Obligation(f'ProgramOptions::{g}#returns_value_of_option.{opt}', set(tags) | {'C20'}, [], z3.BoolVal(ok), 'postcondition', line_of(fns[0]),
                                      f'{g}() returns member {mem}; option {opt} is bound to {sorted(bound[opt])}'))
        ex.oblig(State(), 'canary', z3.BoolVal(False), 'canary', set())
        info = {'unit': self.name, 'file': self.tu, 'sha': tu.sha, 'cases': 1, 'lines': [None, None], 'getters': ntrivial, 'extract_s': 0}
        return [ex], info


class HDF5FileSources(Contract):
    """HDF5File (U25, partial): every dataset is written from the quantity it is named after (C10).
    Facts are read off the real AST: (dataset member, source accessor) pairs of the constructor's axis writes
    and of append(const PhaseSpace&, t, AppendType)."""
    name = 'vfps::HDF5File::append'
    tu = 'src/IO/HDF5File.cpp'
    tags = {'C10'}

    # dataset member -> (accessor name, integer arguments) the statement of C10 asks for
    APPEND_SOURCES = {
        '_phaseSpace': ('getData', []), '_bunchProfile': ('getProjection', [0]), '_energyProfile': ('getProjection', [1]),
        '_bunchLength': ('getBunchLength', []), '_energySpread': ('getEnergySpread', []),
        '_bunchPosition': ('getMoment', [0, 0]), '_energyAverage': ('getMoment', [1, 0]), '_bunchPopulation': ('getBunchPopulation', []),
    }
    AXIS_SOURCES = {'_positionAxis': 0, '_energyAxis': 1}

    # ---- record shape of every dataset vs. layout of the buffer it is written from (C10: each bunch's row holds that
    # bunch's data; C17: the write reads exactly prod(dims[1:]) elements, contiguously, from the source pointer)
    # source accessor -> shape of the buffer it returns, outermost first (class invariants PS_valid / EF_valid / KM_valid)
    SHAPES = {'getData': ['nb', 'nx', 'ny'], 'getProjection': ['nb', 'nx'], 'getBunchLength': ['nb'], 'getEnergySpread': ['nb'], 'getMoment': ['nb'],
              'getBunchPopulation': ['nb'], 'getCSRSpectrum': ['nb', 'nmax'], 'getCSRPower': ['nb'], 'getForce': ['nb', 'nx'],
              'getPaddedBunchProfiles': ['nmax'], 'getPaddedWakePotential': ['nmax'], 'physcords': ['np', 'two'], 'kicks': ['two']}
    # members of HDF5File used as dataset extents -> what their initialiser must compute (checked on the AST)
    MEMBER_MEANING = {'_nBunches': ('nb', ['nb']), '_psSizeX': ('nx', ['nx']), '_psSizeY': ('ny', ['ny']), '_maxn': ('nmax/2', ['getNMax', '2']),
                      '_impSize': ('nfreqs/2', ['nFreqs', '2']), '_nParticles': ('np', ['nparticles'])}

    def extent_obligations(self, tu, ctor, ex):
        from vf.ast import ctor_inits
        nb, nx, ny, nmax, npart, nfreqs = z3.Ints('nb nx ny nmax np nfreqs')
        env = {'nb': nb, 'nx': nx, 'ny': ny, 'nmax': nmax, 'np': npart, 'two': I(2), 'nmax/2': nmax / 2, 'nfreqs/2': nfreqs / 2}
        domain = And(nb >= 1, nx >= 2, ny == nx, nmax >= 2, npart >= 0, nfreqs == nmax)     # the impedance handed to the file is the one of the field

        def ob(label, f, note, tags=frozenset({'C10', 'C17'})):
            ex.obls.append(Obligation(f'HDF5File#extent.{label}', set(tags), [domain] if not isinstance(f, bool) else [], f if not isinstance(f, bool) else z3.BoolVal(f), 'postcondition', None, note))
        inits = {i_['anyInit']['name']: i_ for i_ in ctor_inits(ctor) if 'anyInit' in i_}
        # (1) the size members mean what the extents below assume
        for m, (meaning, tokens) in sorted(self.MEMBER_MEANING.items()):
            ini = inits.get(m)
            if ini is None:
                raise ExtractionError(f'HDF5File constructor: member {m} not initialised in the initialiser list')
            names = set()
            for x in _walk(ini):
                if x.get('kind') in ('DeclRefExpr',):
                    names.add((x.get('referencedDecl') or {}).get('name'))
                if x.get('kind') == 'MemberExpr':
                    names.add(x.get('name'))
                if x.get('kind') == 'IntegerLiteral':
                    names.add(x.get('value'))
            if m in ('_maxn', '_impSize'):
                continue        # evaluated below (1b): a token match both misses wrong initialisers and rejects harmless rewrites (helper, swapped branches)
            ob(f'member.{m}', all(t in names for t in tokens), f'{m} is initialised as {meaning} (tokens {tokens}; found {sorted(n for n in names if n)[:8]})')
        # (1b) the two row lengths that other code relies on, evaluated (not only token-matched): with a field given, _maxn is HALF
        # THE FIELD's transform length -- append(ef) copies _maxn samples out of each spectrum row of ef->getNMax() samples (C17) and
        # the frequency axis written next to it is the field's (C10); with an impedance given, _impSize is half ITS length
        try:
            from vf.unit import bind_param
            from vf.state import State as _State
            ex2 = Exec(tu, ctor, 'HDF5File::HDF5File[sizes]')
            st2 = _State()
            for i_, p_ in enumerate(params(ctor)):
                bind_param(ex2, st2, p_, i_)
            NM, NF = z3.Int('ef.getNMax'), z3.Int('imp.nFreqs')
            st2.assume(And(NM >= 0, NM < 2 ** 31, NF >= 0, NF < 2 ** 31))      # transform lengths fit the 32-bit members (padded lengths are uint32 in main)
            U64_ = parse_type_str('unsigned long')
            ex2.calls = {'getNMax': lambda ex_, n_, st_, objn_, argn_, this_override=None: IntV(NM, U64_),
                         'nFreqs': lambda ex_, n_, st_, objn_, argn_, this_override=None: IntV(NF, U64_)}
            ef_null = imp_null = None
            for p_ in params(ctor):
                v_ = st2.env.get(p_['id'])
                if p_.get('name') == 'ef' and isinstance(v_, ObjRef):
                    ef_null = z3.Bool('ef==null')
                    st2.env[p_['id']] = ObjRef(v_.name, v_.cls, null=ef_null)
                if p_.get('name') == 'imp' and isinstance(v_, ObjRef):
                    imp_null = z3.Bool('imp==null')
                    st2.env[p_['id']] = ObjRef(v_.name, v_.cls, null=imp_null)
            vals = {}
            for m in ('_maxn', '_impSize'):
                e_ = inits[m]['inner'][-1] if inits[m].get('inner') else None
                vals[m] = ex2.ev(e_, st2)
            if ef_null is None or imp_null is None:
                raise ExtractionError('HDF5File constructor: parameters ef / imp not found')
            ex.obls.append(Obligation('HDF5File#extent.member._maxn.is_half_the_fields_transform_length', {'C10', 'C17'}, list(st2.pc),
                                      Implies(Not(ef_null), vals['_maxn'].t == NM / 2), 'postcondition', None,
                                      'whenever a field is given, _maxn == ef->getNMax()/2 (whatever else is given)'))
            ex.obls.append(Obligation('HDF5File#extent.member._impSize.is_half_the_impedance_length', {'C10', 'C17'}, list(st2.pc),
                                      Implies(Not(imp_null), vals['_impSize'].t == NF / 2), 'postcondition', None,
                                      'whenever an impedance is given, _impSize == imp->nFreqs()/2'))
        except ExtractionError as e_:
            raise ExtractionError(f'HDF5File constructor: initialisers of _maxn / _impSize could not be evaluated ({e_})')
        # (2) dims of every dataset, from the first braced list of its _makeDatasetInfo call
        dims = {}
        maxd = {}
        for m, ini in inits.items():
            calls = [x for x in _walk(ini) if x.get('kind') in ('CallExpr', 'CXXMemberCallExpr') and
                     any((y.get('referencedDecl') or {}).get('name') == '_makeDatasetInfo' or y.get('name') == '_makeDatasetInfo' for y in _walk(x['inner'][0]))]
            if not calls:
                continue
            lists = [x for x in _walk(calls[0]) if x.get('kind') == 'InitListExpr' and x.get('inner') and all(c.get('kind') != 'InitListExpr' for c in x['inner'])]
            if not lists:
                raise ExtractionError(f'HDF5File constructor: extents of dataset {m} not found')
            toks = []
            for c in lists[0]['inner']:
                mem = [y.get('name') for y in _walk(c) if y.get('kind') == 'MemberExpr']
                lit = [y.get('value') for y in _walk(c) if y.get('kind') == 'IntegerLiteral']
                toks.append(mem[0] if mem else (int(lit[0]) if lit else '?'))
            dims[m] = toks
            # the third braced list is the maximal extent: a dataset that grows by records has an unlimited first extent and
            # is created EMPTY (records == appends, C10); a fixed dataset is created at its final size
            if len(lists) >= 3:
                def _const(c):
                    k = c.get('kind')
                    if k == 'IntegerLiteral':
                        return int(c['value'])
                    if k == 'BinaryOperator' and c.get('opcode') in ('+', '*', '-'):
                        a_, b_ = _const(c['inner'][0]), _const(c['inner'][1])
                        if a_ is None or b_ is None:
                            return None
                        return (a_ + b_ if c['opcode'] == '+' else a_ * b_ if c['opcode'] == '*' else a_ - b_) % 2 ** 64
                    if k == 'UnaryOperator' and c.get('opcode') == '-':
                        a_ = _const(c['inner'][0])
                        return None if a_ is None else (-a_) % 2 ** 64
                    if len(c.get('inner', [])) == 1:      # casts, parentheses, constant wrappers
                        return _const(c['inner'][0])
                    return None

                def _tok(c):
                    mem = [y.get('name') for y in _walk(c) if y.get('kind') == 'MemberExpr']
                    if mem:
                        return mem[0]
                    v_ = _const(c)
                    return v_ if v_ is not None else '?'
                mx = [_tok(c) for c in lists[2]['inner']]
                maxd[m] = mx
        if len(dims) < 15:
            raise ExtractionError(f'HDF5File constructor: only {len(dims)} datasets recognised')

        def sym(tok):
            if isinstance(tok, int):
                return I(tok)
            if tok in self.MEMBER_MEANING:
                return env[self.MEMBER_MEANING[tok][0]]
            raise ExtractionError(f'HDF5File: dataset extent {tok} has no stated meaning')
        # (3) every _appendData(dataset, source): one record = prod(dims[1:]) contiguous elements of the source
        napp = 0
        appended = set()
        for fname, fl in tu.funcs.items():
            short = fname.split('::')[-1]
            if not fname.startswith('vfps::HDF5File::') or not short.startswith('append'):
                continue
            for fdef in fl:
                if short == 'append' and len(params(fdef)) == 2:
                    continue        # append(const ElectricField*, bool): enforced by its own contract (HDF5AppendField), which also follows the row copy
                decls = {x['id']: x for x in _walk(fdef) if x.get('kind') == 'VarDecl' and x.get('inner')}
                for call in _walk(fdef):
                    if call.get('kind') not in ('CallExpr', 'CXXMemberCallExpr'):
                        continue
                    c = call['inner'][0]
                    while c.get('kind') == 'ImplicitCastExpr':
                        c = c['inner'][0]
                    if (c.get('referencedDecl') or {}).get('name') != '_appendData' and c.get('name') != '_appendData':
                        continue
                    args = call['inner'][1:]
                    dsn = [x.get('name') for x in _walk(args[0]) if x.get('kind') == 'MemberExpr']
                    if not dsn or dsn[0] not in dims:
                        continue
                    appended.add(dsn[0])
                    src = args[1]
                    for x in _walk(src):
                        if x.get('kind') == 'DeclRefExpr' and (x.get('referencedDecl') or {}).get('id') in decls:
                            src = decls[x['referencedDecl']['id']]
                    names = [x['inner'][0].get('name') for x in _walk(src) if x.get('kind') == 'CXXMemberCallExpr'] + \
                            [(x.get('referencedDecl') or {}).get('name') for x in _walk(args[1]) if x.get('kind') == 'DeclRefExpr']
                    shape = next((self.SHAPES[nm] for nm in names if nm in self.SHAPES), None)
                    rec = dims[dsn[0]][1:]
                    if shape is None:
                        if len(rec) == 0:
                            continue            # scalar record (time axes): written from the address of one value
                        ob(f'{short}.{dsn[0]}.source_known', False, f'source of dataset {dsn[0]} ({[n for n in names if n][:4]}) has no stated layout')
                        continue
                    napp += 1
                    R = [sym(t) for t in rec]
                    S = [env[t] for t in shape]
                    rank_ok = len(R) == len(S)
                    ob(f'{short}.{dsn[0]}.rank', rank_ok, f'record of {dsn[0]} has extents {rec}, source buffer layout {shape}')
                    if not rank_ok:
                        continue
                    # rows: every dimension but the outermost must equal the source's (otherwise row b of the record is not row b of the source);
                    # a record consisting of one row may be a prefix of the source row
                    outer = I(1)
                    for r_ in R[:-1]:
                        outer = outer * r_
                    conds = [Or(outer == 1, R[-1] == S[-1]), R[-1] <= S[-1]]
                    for i_ in range(1, len(R) - 1):
                        conds.append(R[i_] == S[i_])
                    if len(R) > 1:
                        conds.append(R[0] <= S[0])
                    ob(f'{short}.{dsn[0]}.rows', And(*conds), f'each row of the record of {dsn[0]} ({rec}) is the corresponding row of the source ({shape}) and the read stays inside the buffer')
        if napp < 10:
            raise ExtractionError(f'HDF5File: only {napp} _appendData calls with a known source recognised')
        # (3b) a dataset that _appendData grows is created with no record and may grow without bound; its record extents are final
        for m in sorted(appended):
            if m not in dims or m not in maxd:
                continue
            d_, x_ = dims[m], maxd[m]
            unlimited = x_[0] == 2 ** 64 - 1        # H5S_UNLIMITED / H5F_UNLIMITED = HSIZE_UNDEF = ULLONG_MAX
            ob(f'{m}.starts_empty', d_[0] == 0, f'time-indexed dataset {m} is created with {d_[0]} records (every record must come from an append call: records == entries of its time axis)', tags=frozenset({'C10'}))
            ob(f'{m}.may_grow', bool(unlimited) and list(d_[1:]) == list(x_[1:]), f'time-indexed dataset {m}: maximal extents {x_} against extents {d_} (first unlimited, the others final)', tags=frozenset({'C10', 'C17'}))
        # (4) "the stored CSR intensity is the sum of the stored spectrum": the intensity accumulates every bin k < nmax of the
        # spectrum (updateCSR#post.power_is_sum); bins above nmax/2 carry nothing (impedance identically zero there, C16 upper_zero),
        # so every bin that can carry power, k <= nmax/2, has to be among the stored ones, k < stored width of /CSR/Spectrum/data
        if '_csrSpectrum' in dims:
            kk = z3.Int('k!bin')
            width = sym(dims['_csrSpectrum'][-1])
            ob('csr_intensity_is_sum_of_stored_spectrum', Implies(And(kk >= 0, kk < nmax, kk <= nmax / 2), kk < width),
               f'every spectrum bin that enters the stored CSR intensity and can be non-zero (k <= nmax/2) is stored; /CSR/Spectrum/data keeps {dims["_csrSpectrum"][-1]} bins per bunch', tags=frozenset({'C10'}))

    @staticmethod
    def _calls(n, name):
        return [x for x in _walk(n) if x.get('kind') == 'CXXMemberCallExpr' and x['inner'][0].get('name') == name]

    @staticmethod
    def _ints(n):
        return [int(x['value']) for x in _walk(n) if x.get('kind') == 'IntegerLiteral']

    def custom_verify(self, scratch, tc):
        tu = tc.get(self.tu)
        ex = Exec(tu, None, 'HDF5File')
        ex.default_tags = {'C10'}
        st = State()
        # ---- append(const PhaseSpace&, timeaxis_t, AppendType)
        apps = [f for f in tu.funcs.get('vfps::HDF5File::append', []) if len(params(f)) == 3]
        if len(apps) != 1:
            raise ExtractionError('HDF5File::append(ps, t, at) not found')
        decls = {}      # local variable (e.g. mean_q) -> initialiser
        for x in _walk(apps[0]):
            if x.get('kind') == 'VarDecl' and x.get('inner'):
                decls[x['id']] = x
        seen = {}
        for call in _walk(apps[0]):
            if call.get('kind') not in ('CallExpr', 'CXXMemberCallExpr'):
                continue
            c = call['inner'][0]
            while c.get('kind') == 'ImplicitCastExpr':
                c = c['inner'][0]
            if c.get('referencedDecl', {}).get('name') != '_appendData' and c.get('name') != '_appendData':
                continue
            args = call['inner'][1:]
            ds = [x.get('name') for x in _walk(args[0]) if x.get('kind') == 'MemberExpr']
            if not ds:
                continue
            src = args[1]
            # follow a local (auto mean_q = ps.getMoment(0,0); ... mean_q.origin())
            for x in _walk(src):
                if x.get('kind') == 'DeclRefExpr' and x.get('referencedDecl', {}).get('id') in decls:
                    src = decls[x['referencedDecl']['id']]
            acc = None
            for nm in set(v[0] for v in self.APPEND_SOURCES.values()):
                cs = self._calls(src, nm)
                if cs:
                    acc = (nm, self._ints(cs[0]))
            seen[ds[0]] = acc
        for ds, want in sorted(self.APPEND_SOURCES.items()):
            got = seen.get(ds)
            ok = got is not None and got[0] == want[0] and got[1][:len(want[1])] == want[1]
            o = Obligation(f'HDF5File::append#source.{ds}', {'C10'}, [], z3.BoolVal(bool(ok)), 'postcondition', None,
                           f'dataset {ds} must be appended from {want[0]}({",".join(map(str, want[1]))}); found {got}')
            ex.obls.append(o)
        # ---- every record travels with an entry of ITS time axis: /PhaseSpace/data has its own axis (_timeAxisPS), everything else
        # shares _timeAxis.  In append(ps, t, at) each dataset is appended under the same guard as its time axis, exactly once, and
        # both axes receive the time handed in (&t)
        tparam = [p_ for p_ in params(apps[0]) if p_.get('name') == 't' or 'timeaxis_t' in p_.get('type', {}).get('qualType', '')]
        groups = []         # per top-level guarded block: list of (dataset, source text kind)
        top = [x for x in body(apps[0]).get('inner', []) if isinstance(x, dict)]

        def appends_in(node):
            out_ = []
            for call in _walk(node):
                if call.get('kind') not in ('CallExpr', 'CXXMemberCallExpr'):
                    continue
                c = call['inner'][0]
                while c.get('kind') == 'ImplicitCastExpr':
                    c = c['inner'][0]
                if c.get('referencedDecl', {}).get('name') != '_appendData' and c.get('name') != '_appendData':
                    continue
                a_ = call['inner'][1:]
                dsn = [x.get('name') for x in _walk(a_[0]) if x.get('kind') == 'MemberExpr']
                from_t = bool(tparam) and any(x.get('kind') == 'DeclRefExpr' and (x.get('referencedDecl') or {}).get('id') == tparam[0]['id'] for x in _walk(a_[1]))
                if dsn:
                    out_.append((dsn[0], from_t))
            return out_
        for st_ in top:
            if st_.get('kind') == 'IfStmt':
                groups.append(appends_in(st_['inner'][1]) if len(st_['inner']) > 1 else [])
                if len(st_['inner']) > 2:
                    groups.append(appends_in(st_['inner'][2]))
            else:
                g_ = appends_in(st_)
                if g_:
                    groups.append(g_)
        where = {}
        for gi, g_ in enumerate(groups):
            for dsn, from_t in g_:
                where.setdefault(dsn, []).append((gi, from_t))
        def once(dsn):
            return len(where.get(dsn, [])) == 1
        ok_axes = once('_timeAxis') and once('_timeAxisPS') and where['_timeAxis'][0][1] and where['_timeAxisPS'][0][1] and where['_timeAxis'][0][0] != where['_timeAxisPS'][0][0]
        ex.obls.append(Obligation('HDF5File::append#time_axes.each_written_once_from_t', {'C10', 'C14'}, [], z3.BoolVal(bool(ok_axes)), 'postcondition', None,
                                  f'_timeAxis and _timeAxisPS are each appended exactly once, from the time argument, under different guards (found {dict((k, v) for k, v in where.items() if k.startswith("_timeAxis"))})'))
        if ok_axes:
            g_ps, g_other = where['_timeAxisPS'][0][0], where['_timeAxis'][0][0]
            for dsn in sorted(self.APPEND_SOURCES):
                want_g = g_ps if dsn == '_phaseSpace' else g_other
                ok_ = once(dsn) and where[dsn][0][0] == want_g
                ex.obls.append(Obligation(f'HDF5File::append#time_axes.{dsn}.travels_with_its_axis', {'C10', 'C14'}, [], z3.BoolVal(bool(ok_)), 'postcondition', None,
                                          f'dataset {dsn} is appended exactly once, under the same guard as {"_timeAxisPS" if dsn == "_phaseSpace" else "_timeAxis"} (found {where.get(dsn)})'))
        # ---- one record per append call (the row counters of the control skeleton rely on it): in every append
        # overload except appendRFKicks the record-count argument of _appendData must be left at its default (1)
        for fname, fl in tu.funcs.items():
            short = fname.split('::')[-1]
            if not fname.startswith('vfps::HDF5File::') or short not in ('append', 'appendTracks', 'appendPadded'):
                continue
            for fdef in fl:
                k_ = 0
                for call in _walk(fdef):
                    if call.get('kind') not in ('CallExpr', 'CXXMemberCallExpr'):
                        continue
                    c = call['inner'][0]
                    while c.get('kind') == 'ImplicitCastExpr':
                        c = c['inner'][0]
                    if c.get('referencedDecl', {}).get('name') != '_appendData' and c.get('name') != '_appendData':
                        continue
                    args = call['inner'][1:]
                    dsn = [x.get('name') for x in _walk(args[0]) if x.get('kind') == 'MemberExpr']
                    k_ += 1
                    one = len(args) < 3 or args[2].get('kind') == 'CXXDefaultArgExpr' or (args[2].get('kind') == 'IntegerLiteral' and args[2].get('value') == '1')
                    o = Obligation(f'HDF5File::{short}/{len(params(fdef))}#one_record.{dsn[0] if dsn else k_}', {'C10', 'C14'}, [], z3.BoolVal(bool(one)), 'postcondition', None,
                                   'each call appends exactly one record to the dataset (record count argument left at 1)')
                    ex.obls.append(o)
        # ---- /Impedance/data is the impedance the constructor was GIVEN (main hands in the beam-dynamics impedance, the one the
        # stored wake potential is computed with: "the stored wake potential is the convolution of that profile with the stored impedance")
        ctor_ = tu.funcs.get('vfps::HDF5File::HDF5File', [])
        if len(ctor_) == 1:
            def innermost_block_with_write(node):
                best = None
                for c_ in node.get('inner', []) or []:
                    if isinstance(c_, dict):
                        r_ = innermost_block_with_write(c_)
                        if r_ is not None:
                            best = r_
                if best is not None:
                    return best
                if node.get('kind') == 'CompoundStmt':
                    ws = [x for x in _walk(node) if x.get('kind') == 'CXXMemberCallExpr' and x['inner'][0].get('name') == 'write' and
                          any(y.get('kind') == 'MemberExpr' and y.get('name') in ('_impedanceReal', '_impedanceImag') for y in _walk(x['inner'][0]))]
                    if ws:
                        return node
                return None
            blk = innermost_block_with_write(body(ctor_[0]))
            if blk is None:
                raise ExtractionError('HDF5File constructor: the block writing /Impedance/data was not found')
            pnames = sorted(set((x.get('referencedDecl') or {}).get('name') for x in _walk(blk) if x.get('kind') == 'DeclRefExpr' and (x.get('referencedDecl') or {}).get('kind') == 'ParmVarDecl'))
            samples_from = sorted(set(tuple((y.get('referencedDecl') or {}).get('name') for y in _walk(x) if y.get('kind') == 'DeclRefExpr' and (y.get('referencedDecl') or {}).get('kind') == 'ParmVarDecl')
                                      for x in _walk(blk) if x.get('kind') == 'CXXMemberCallExpr' and x['inner'][0].get('name') == 'impedance'))
            ok_imp = pnames == ['imp'] and samples_from == [('imp',)]
            ex.obls.append(Obligation('HDF5File#source.stored_impedance_is_the_one_handed_in', {'C10'}, [], z3.BoolVal(bool(ok_imp)), 'postcondition', line_of(blk),
                                      f'the block that writes /Impedance/data reads the constructor parameters {pnames}; impedance() is called on {samples_from} (expected: imp only)'))
        # ---- readPhaseSpace: which record is loaded depends on the user's step and on /PhaseSpace/data alone (C11: "loads exactly
        # the stored values of the chosen record"); the loader model of the VCG unit (ReadPhaseSpace) knows that one dataset
        rps = [f for f in tu.funcs.get('vfps::HDF5File::readPhaseSpace', []) if body(f) is not None]
        if len(rps) != 1:
            raise ExtractionError('HDF5File::readPhaseSpace not found')
        opened = sorted(set(strlit(c_['inner'][1]) or '?' for c_ in _walk(rps[0]) if c_.get('kind') == 'CXXMemberCallExpr' and
                            c_['inner'][0].get('name') in ('openDataSet', 'openGroup', 'openAttribute') and len(c_.get('inner', [])) > 1))
        ex.obls.append(Obligation('HDF5File::readPhaseSpace#reads_the_phase_space_dataset_only', {'C11'}, [], z3.BoolVal(opened == ['/PhaseSpace/data']), 'postcondition', line_of(rps[0]),
                                  f'objects of the start file that readPhaseSpace opens: {opened} (the record count that resolves InitialDistStep is that of /PhaseSpace/data)'))
        # ---- appendRFKicks(kicks): as many records as the list has entries, read from that list, into the RF-kick dataset (C19)
        rfk = [f for f in tu.funcs.get('vfps::HDF5File::appendRFKicks', []) if body(f) is not None]
        if len(rfk) != 1:
            raise ExtractionError('HDF5File::appendRFKicks not found')
        pnm = [p_.get('name') for p_ in params(rfk[0])]
        acalls = [c_ for c_ in _walk(rfk[0]) if c_.get('kind') in ('CallExpr', 'CXXMemberCallExpr') and
                  ((lambda h_: (h_.get('referencedDecl') or {}).get('name') == '_appendData' or h_.get('name') == '_appendData')(
                      (lambda c0: c0['inner'][0] if c0.get('kind') == 'ImplicitCastExpr' else c0)(c_['inner'][0])))]
        ok_rf, why = False, 'no single _appendData call'
        if len(acalls) == 1 and len(pnm) == 1:
            args = acalls[0]['inner'][1:]
            dsn = [x.get('name') for x in _walk(args[0]) if x.get('kind') == 'MemberExpr']

            rf_locals = {x['id']: x for x in _walk(rfk[0]) if x.get('kind') == 'VarDecl' and x.get('inner') and 'const' in x.get('type', {}).get('qualType', '')}

            def member_of_param(a_, meth):
                # a value kept in a const local first (`const size_t n = kicks.size();`) is still that value
                for _ in range(3):
                    refs_ = [x for x in _walk(a_) if x.get('kind') == 'DeclRefExpr' and (x.get('referencedDecl') or {}).get('id') in rf_locals]
                    if len(refs_) == 1 and not any(y.get('kind') in ('BinaryOperator', 'UnaryOperator', 'CXXMemberCallExpr') for y in _walk(a_)):
                        a_ = rf_locals[refs_[0]['referencedDecl']['id']]['inner'][-1]
                    else:
                        break
                ms = [x for x in _walk(a_) if x.get('kind') == 'CXXMemberCallExpr' and x['inner'][0].get('name') == meth]
                return len(ms) == 1 and [(y.get('referencedDecl') or {}).get('name') for y in _walk(ms[0]) if y.get('kind') == 'DeclRefExpr'] == [pnm[0]] and \
                    not any(y.get('kind') in ('BinaryOperator', 'UnaryOperator') for y in _walk(a_))
            ok_rf = dsn[:1] == ['_dynamicRFKick'] and len(args) == 3 and member_of_param(args[1], 'data') and member_of_param(args[2], 'size')
            why = f'dataset {dsn[:1]}, {len(args)} arguments'
        ex.obls.append(Obligation('HDF5File::appendRFKicks#whole_list_into_the_rf_kick_dataset', {'C19', 'C10'}, [], z3.BoolVal(bool(ok_rf)), 'postcondition', None,
                                  f'_appendData(_dynamicRFKick, {pnm[0] if pnm else "?"}.data(), {pnm[0] if pnm else "?"}.size()) — {why}'))
        # ---- constructor: axis datasets
        ctors = tu.funcs.get('vfps::HDF5File::HDF5File', [])
        if len(ctors) != 1:
            raise ExtractionError('HDF5File constructor not found')
        self.extent_obligations(tu, ctors[0], ex)
        found = {}
        for call in self._calls(ctors[0], 'write'):
            recv = call['inner'][0]['inner'][0]
            names = [x.get('name') for x in _walk(recv) if x.get('kind') == 'MemberExpr']
            for ds in self.AXIS_SOURCES:
                if ds in names:
                    ga = self._calls(call, 'getAxis')
                    found[ds] = self._ints(ga[0])[:1] if ga else None
        for ds, want in sorted(self.AXIS_SOURCES.items()):
            got = found.get(ds)
            o = Obligation(f'HDF5File::HDF5File#axis.{ds}', {'C10'}, [], z3.BoolVal(got == [want]), 'postcondition', None,
                           f'{ds} must hold the grid coordinates of axis {want}; written from getAxis({got})')
            ex.obls.append(o)
        ex.oblig(st, 'canary', z3.BoolVal(False), 'canary', set())
        info = {'unit': 'vfps::HDF5File (constructor axis writes, append(ps,t,at))', 'file': self.tu, 'sha': tu.sha, 'cases': 1, 'lines': [None, None], 'extract_s': 0,
                'note': 'AST facts only: which accessor feeds which dataset; the HDF5 library calls themselves are trusted'}
        return [ex], info


# =========================================================================== HDF5File::append(const ElectricField*, bool)  (U25)
class AppendCapture:
    """call-site binding of _appendData(dataset, pointer[, count]): the HDF5 write itself is trusted to transfer exactly one
    record = prod(dims[1:]) contiguous elements starting at the pointer; here the pointer and the buffer contents at the
    moment of the call are recorded so that the postcondition can say what the record holds"""

    def __call__(self, ex, n, st, objn, argn, this_override=None):
        ds = [x.get('name') for x in _walk(argn[0]) if x.get('kind') == 'MemberExpr']
        if not ds:
            raise ExtractionError(f'{ex.unit}: _appendData on something that is not a dataset member (line {ex.curline})')
        src = ex.ev(argn[1], st)
        if not isinstance(src, PtrV) or src.region is None:
            raise ExtractionError(f'{ex.unit}: _appendData source is not a data pointer (line {ex.curline})')
        cap = getattr(ex, 'captured', None)
        if cap is None:
            cap = ex.captured = {}
        FL = parse_type_str('float')
        k = 'ghost.appended.' + ds[0]
        # guarded by the path condition through the merge of scalars: count how often, remember the last source
        st.scal[k + '.count'] = IntV(st.scal[k + '.count'].t + 1 if k + '.count' in st.scal else I(1), parse_type_str('long'))
        st.scal[k + '.off'] = IntV(src.off, parse_type_str('long'))
        leaves = [key[1] for key in st.arr if key[0] == src.region] or ['']
        for lf in leaves:
            st.arr[(k, lf)] = st.array(src.region, lf, FL)
        st.length[k] = st.len_of(src.region)
        ex.logw(('s', k + '.count')); ex.logw(('s', k + '.off')); ex.logw(('r', k)); ex.logw(('len', k))
        cap[ds[0]] = k
        return VoidV()


class HDF5AppendField(Contract):
    """append(const ElectricField* ef, bool fullspectrum): the record appended to /CSR/Spectrum holds, for every bunch b, the
    first _maxn samples of THAT bunch's spectrum; the record appended to /CSR/Intensity holds every bunch's power (C10);
    both reads stay inside the buffers they start in (C17)"""
    name = 'vfps::HDF5File::append'
    tu = 'src/IO/HDF5File.cpp'
    nparams = 2
    params = ['ef', 'fullspectrum']
    tags = {'C10', 'C17'}
    ghosts = {'b': 'int', 'i': 'int'}

    def dims(self, cx):
        nx, ny, nb = ps_globals(cx)
        ef = cx.arg('ef').name
        return nb, cx.f(ef + '._nmax', 'u64'), ef

    def setup(self, cx):
        nb, nmax, ef = self.dims(cx)
        cx.st.dims[ef + '._csrspectrum'] = [nb, nmax]
        cx.st.dims[ef + '._csrintensity'] = [nb]
        for ds in ('_csrSpectrum', '_csrIntensity'):
            cx.st.scal[f'ghost.appended.{ds}.count'] = IntV(I(0), parse_type_str('long'))

    def requires(self, cx):
        nb, nmax, ef = self.dims(cx)
        e = cx.arg('ef')
        return [('static', PS_static(cx)),
                ('field', And(Not(e.null) if e.null is not None else True, nmax >= 2, nmax < 2 ** 32,
                              cx.len(ef + '._csrspectrum') == nb * nmax, cx.len(ef + '._csrintensity') == nb)),
                # what the HDF5File constructor stores (obligations HDF5File#extent.member.*)
                ('file', And(cx.f('this._nBunches') == nb, cx.f('this._maxn') == nmax / 2))]

    def assigns(self, cx):
        return [('s', 'ghost.*'), ('r', 'ghost.*'), ('len', 'ghost.*')]

    @property
    def calls(self):
        return {'_appendData': AppendCapture()}

    def ensures(self, cx):
        nb, nmax, ef = self.dims(cx)
        maxn = nmax / 2
        b, i = cx.g('b'), cx.g('i')
        st = cx.st
        full = cx.a('fullspectrum') != 0

        def cnt(ds):
            v = st.scal.get(f'ghost.appended.{ds}.count')
            return v.t if v is not None else I(0)

        def rec(ds, k):
            FL = parse_type_str('float')
            off = st.scal.get(f'ghost.appended.{ds}.off')
            return z3.Select(st.array(f'ghost.appended.{ds}', '', FL), (off.t if off is not None else I(0)) + k)

        def inside(ds, count):
            off = st.scal.get(f'ghost.appended.{ds}.off')
            return And(off.t >= 0, off.t + count <= st.len_of(f'ghost.appended.{ds}')) if off is not None else z3.BoolVal(False)
        spec = cx.old.arr(ef + '._csrspectrum')
        return [('one_spectrum_record_iff_requested', {'C10'}, cnt('_csrSpectrum') == If(full, I(1), I(0))),
                ('one_intensity_record', {'C10'}, cnt('_csrIntensity') == 1),
                ('spectrum_rows_per_bunch', {'C10'}, Implies(And(full, b >= 0, b < nb, i >= 0, i < maxn), rec('_csrSpectrum', b * maxn + i) == z3.Select(spec, b * nmax + i))),
                ('spectrum_read_inside_buffer', {'C17'}, Implies(full, inside('_csrSpectrum', nb * maxn))),
                ('intensity_per_bunch', {'C10'}, Implies(And(b >= 0, b < nb), rec('_csrIntensity', b) == cx.old.sel(ef + '._csrintensity', b))),
                ('intensity_read_inside_buffer', {'C17'}, inside('_csrIntensity', nb))]

    def _inv(self, cx):
        nb, nmax, ef = self.dims(cx)
        maxn = nmax / 2
        b, gb, gi = cx.v('b'), cx.g('b'), cx.g('i')
        rows = cx.val('rows').name
        FL = parse_type_str('float')
        return [('range', And(b >= 0, b <= nb)), ('len', cx.len(rows) == nb * maxn),
                ('done', Implies(And(gb >= 0, gb < b, gi >= 0, gi < maxn),
                                 z3.Select(cx.st.array(rows, '', FL), gb * maxn + gi) == cx.old.sel(ef + '._csrspectrum', gb * nmax + gi))),
                ('src', cx.arr(ef + '._csrspectrum') == cx.old.arr(ef + '._csrspectrum'))]

    def _hints(self, cx, cxb):
        nb, nmax, ef = self.dims(cx)
        maxn = nmax / 2
        b, gb, gi = cxb.v('b'), cx.g('b'), cx.g('i')
        return [('p1', Implies(b - gb - 1 >= 0, (b - gb - 1) * maxn >= 0)), ('p2', Implies(And(b >= 0, b < nb), (nb - 1 - b) * maxn >= 0)),
                ('p3', Implies(And(b >= 0, b < nb), (nb - 1 - b) * nmax >= 0)), ('half', maxn * 2 <= nmax)]

    @property
    def loops(self):
        l = LoopSpec(inv=self._inv, hints=self._hints)
        l.split = split_ghost('b', 'b')
        return {'b#0': l}


class HDF5AppendTracks(Contract):
    """appendTracks(p): every tracked particle is converted to physical coordinates through an axis lookup that stays inside
    the axis (C15/C17: defined for every position the tracking maps can leave a particle at, i.e. 0 <= x,y <= N-1), particle k
    of the record is particle k of the list, and the record read stays inside the converted list"""
    name = 'vfps::HDF5File::appendTracks'
    tu = 'src/IO/HDF5File.cpp'
    params = ['p']
    tags = {'C10', 'C15', 'C17'}
    ghosts = {'g': 'int'}
    aux_tus = [('src/PS/PhaseSpace.cpp', 'vfps::')]

    def setup(self, cx):
        for ds in ('_particles',):
            cx.st.scal[f'ghost.appended.{ds}.count'] = IntV(I(0), parse_type_str('long'))

    def requires(self, cx):
        nx, ny, nb = ps_globals(cx)
        from .sm import Ruler_valid
        p = cx.arg('p').name
        ongrid_x = ElemInv(p, 'x', 'real', lambda c, k, v: Implies(And(k >= 0, k < c.len(p)), And(v >= 0, v <= z3.ToReal(c.f(PS_NX)) - 1)))
        ongrid_y = ElemInv(p, 'y', 'real', lambda c, k, v: Implies(And(k >= 0, k < c.len(p)), And(v >= 0, v <= z3.ToReal(c.f(PS_NY)) - 1)))
        return [('static', PS_static(cx)), ('axes', And(Ruler_valid(cx, 'this._ps._axis[0]', nx), Ruler_valid(cx, 'this._ps._axis[1]', ny))),
                ('on_grid.x', ongrid_x), ('on_grid.y', ongrid_y),
                # main builds the file with nparticles = number of tracked particles
                ('one_slot_per_particle', cx.len(p) == cx.f('this._nParticles'))]

    def assigns(self, cx):
        return [('s', 'ghost.*'), ('r', 'ghost.*'), ('len', 'ghost.*')]

    @property
    def calls(self):
        return {'_appendData': AppendCapture(), 'reserve': lambda ex, n, st, objn, argn, this_override=None: VoidV()}

    def ensures(self, cx):
        st = cx.st
        g = cx.g('g')
        p = cx.arg('p').name
        FL = parse_type_str('float')
        npart = cx.f('this._nParticles')
        off = st.scal.get('ghost.appended._particles.off')
        cnt = st.scal.get('ghost.appended._particles.count')
        if off is None:
            return [('one_record', {'C10'}, z3.BoolVal(False))]
        rec = lambda lf, k: z3.Select(st.arr[('ghost.appended._particles', lf)], off.t + k) if ('ghost.appended._particles', lf) in st.arr else None
        xk = cx.old.sel(p, g, 'x')
        yk = cx.old.sel(p, g, 'y')
        tr = lambda t: z3.If(t >= 0, z3.ToInt(t), -z3.ToInt(-t))
        out = [('one_record', {'C10'}, cnt.t == 1),
               ('read_inside_list', {'C17'}, And(off.t >= 0, off.t + npart <= st.len_of('ghost.appended._particles')))]
        if rec('x', g) is not None:
            out.append(('particle_k_is_particle_k', {'C10', 'C15'}, Implies(And(g >= 0, g < npart),
                        And(rec('x', g) == cx.old.sel('this._ps._axis[0]._data', tr(xk)), rec('y', g) == cx.old.sel('this._ps._axis[1]._data', tr(yk))))))
        return out

    def _inv(self, cx):
        g = cx.g('g')
        p = cx.arg('p').name
        i = cx.range_index(1)
        pc = cx.val('physcords').name
        tr = lambda t: z3.If(t >= 0, z3.ToInt(t), -z3.ToInt(-t))
        xk, yk = cx.old.sel(p, g, 'x'), cx.old.sel(p, g, 'y')
        return [('range', And(i >= 0, i <= cx.len(p))), ('len', cx.len(pc) == i),
                ('done', Implies(And(g >= 0, g < i), And(cx.sel(pc, g, 'x') == cx.old.sel('this._ps._axis[0]._data', tr(xk)),
                                                         cx.sel(pc, g, 'y') == cx.old.sel('this._ps._axis[1]._data', tr(yk))))),
                ('src', And(cx.arr(p, 'x') == cx.old.arr(p, 'x'), cx.arr(p, 'y') == cx.old.arr(p, 'y'),
                            cx.arr('this._ps._axis[0]._data') == cx.old.arr('this._ps._axis[0]._data'), cx.arr('this._ps._axis[1]._data') == cx.old.arr('this._ps._axis[1]._data')))]

    @property
    def loops(self):
        l = LoopSpec(inv=self._inv)
        l.split = lambda cx, cxb: [('cur', cx.g('g') == cxb.range_index(1)), ('other', Not(cx.g('g') == cxb.range_index(1)))]
        return {'pos#0': l}


# =========================================================================== HDF5 start distribution: HDF5File::readPhaseSpace
class ReadPhaseSpace(Contract):
    """readPhaseSpace(fname, qmin,qmax,pmin,pmax, oclh, Qb, Ib_unscaled, bl, dE, use_step): the file is hostile input (C17):
    /PhaseSpace/data may have ANY rank and ANY extents.  No value is used that was not set, no vector is indexed outside its
    size, no division by zero, every extent array handed to the HDF5 library has as many entries as the rank it is used with.
    On normal return the phase space is single-bunch (PhaseSpace::nb == 1), built with the charge and current of THIS run
    (the parameters Qb, Ib_unscaled; C10) on a grid whose size is the one stored in the file."""
    name = 'vfps::HDF5File::readPhaseSpace'
    tu = 'src/IO/HDF5File.cpp'
    params = ['fname', 'qmin', 'qmax', 'pmin', 'pmax', 'oclh', 'Qb', 'Ib_unscaled', 'bl', 'dE', 'use_step']
    tags = {'C17', 'C10', 'C11'}
    ghosts = {'k': 'int', 'n': 'int', 'x': 'int'}
    aux_tus = [('src/PS/PhaseSpace.cpp', 'vfps::')]
    RANK = 'ghost.h5.rank'
    replay = lambda self, o, model, pid: {'harness': 'h5start_replay', 'runs': [['all']], 'hdf5': True}

    def requires(self, cx):
        return [('axes', And(cx.a('qmax') > cx.a('qmin'), cx.a('pmax') > cx.a('pmin')))]

    def assigns(self, cx):
        return [('s', 'ghost.*'), ('s', 'vfps::PhaseSpace::*'), ('r', 'ghost.*')]

    @property
    def calls(self):
        from .ps import PhaseSpaceCtor12
        U64 = parse_type_str('unsigned long')

        def opaque_obj(ex, n, st, objn, argn, this_override=None):
            for a in argn:
                try:
                    ex.ev(a, st)
                except ExtractionError:
                    pass
            return ObjRef(this_override or 'tmp:h5', 'H5::Object')

        def rank_of(st):
            if self.RANK not in st.scal:
                v = IntV(z3.Int(self.RANK), parse_type_str('int'))
                st.scal[self.RANK] = v
                st.assume(And(v.t >= 0, v.t <= 32))         # H5S_MAX_RANK
            return st.scal[self.RANK]

        def ndims(ex, n, st, objn, argn, this_override=None):
            return rank_of(st)

        def extent_dims(ex, n, st, objn, argn, this_override=None):
            # getSimpleExtentDims(dims, maxdims): writes rank entries — whatever the file says — through dims
            p = ex.ev(argn[0], st)
            r = rank_of(st).t
            if not isinstance(p, PtrV) or p.region is None:
                raise ExtractionError('readPhaseSpace: getSimpleExtentDims target is not a buffer')
            ex.safe(st, 'h5-extent-buffer', And(p.off == 0, st.len_of(p.region) >= r), 'buffer receiving the extents must have one entry per dimension')
            st.havoc_region(p.region)
            a = st.array(p.region, '', U64)
            kk = z3.Int('k!dims')
            # extents are non-negative 64-bit numbers
            ex.elem_inv[(p.region, '')] = lambda s_, k_, v_: And(v_ >= 0, v_ < 2 ** 48)       # extents of a real dataset (HDF5 cannot address more)
            ex.logw(('r', p.region))
            for i_ in range(4):
                st.scal[f'ghost.h5.dim{i_}'] = IntV(z3.Select(a, i_), U64)
                st.assume(And(z3.Select(a, i_) >= 0, z3.Select(a, i_) < (2 ** 48 if i_ == 0 else 2 ** 31)))     # record count / per-record extents of a real file
            return rank_of(st)

        def space_ctor(ex, n, st, objn, argn, this_override=None):
            # H5::DataSpace(rank, dims, maxdims): reads `rank` entries of dims
            if len(argn) >= 2:
                r = ex.ev(argn[0], st)
                p = ex.ev(argn[1], st)
                if isinstance(p, PtrV):
                    ex.safe(st, 'h5-dataspace-dims', And(r.t >= 0, z3.BoolVal(p.region is not None) if True else True,
                                                         (st.len_of(p.region) >= p.off + r.t) if p.region is not None else (r.t == 0)),
                            'H5::DataSpace(rank, dims): dims must hold rank entries')
                    if p.region is not None:
                        st.scal['ghost.h5.memspace_points'] = IntV(prod_of(st, p, r.t), parse_type_str('long'))
                        ex.logw(('s', 'ghost.h5.memspace_points'))
            return ObjRef(this_override or 'tmp:space', 'H5::DataSpace')

        def prod_of(st, p, r):
            # product of the first r entries (r is 3 or 4 on every path that gets here; other ranks were refused)
            a = st.array(p.region, '', U64)
            e = [z3.Select(a, p.off + i_) for i_ in range(4)]
            return If(r == 3, e[0] * e[1] * e[2], If(r == 4, e[0] * e[1] * e[2] * e[3], z3.Int('h5.points.other_rank')))

        def hyperslab(ex, n, st, objn, argn, this_override=None):
            r = rank_of(st).t
            ptrs = []
            for a in argn[1:3]:
                p = ex.ev(a, st)
                ptrs.append(p)
                if isinstance(p, PtrV):
                    ex.safe(st, 'h5-hyperslab-arrays', (st.len_of(p.region) >= p.off + r) if p.region is not None else (r == 0),
                            'selectHyperslab(count, start): both arrays must hold one entry per dimension of the file data space')
            cnt, start = ptrs
            if isinstance(cnt, PtrV) and cnt.region is not None and isinstance(start, PtrV) and start.region is not None:
                # H5S_SELECT_SET with count/start only: prod(count) points, beginning at start
                st.scal['ghost.h5.selected_points'] = IntV(prod_of(st, cnt, r), parse_type_str('long'))
                a_s, a_c = st.array(start.region, '', U64), st.array(cnt.region, '', U64)
                for i_ in range(4):
                    st.scal[f'ghost.h5.start{i_}'] = IntV(z3.Select(a_s, start.off + i_), U64)
                    st.scal[f'ghost.h5.count{i_}'] = IntV(z3.Select(a_c, cnt.off + i_), U64)
                    ex.logw(('s', f'ghost.h5.start{i_}')); ex.logw(('s', f'ghost.h5.count{i_}'))
                ex.logw(('s', 'ghost.h5.selected_points'))
            return VoidV()

        def read_into(ex, n, st, objn, argn, this_override=None):
            # DataSet::read(buf, type, memspace, filespace): writes as many elements as the memory space holds into buf.
            # Any other read (H5::Attribute::read(type, buffer), ...) is a library call like all the others (h5_any below)
            oty = (objn.get('type', {}).get('qualType', '') if isinstance(objn, dict) else '')
            if 'DataSet' not in oty or len([a for a in argn if a.get('kind') != 'CXXDefaultArgExpr']) < 3:
                return h5_any(ex, n, st, objn, argn, this_override)
            p = ex.ev(argn[0], st)
            ms = st.scal.get('ghost.h5.memspace_points')
            if not isinstance(p, PtrV) or p.region is None or ms is None:
                raise ExtractionError('readPhaseSpace: DataSet::read with an unknown buffer or memory space')
            ex.safe(st, 'h5-read-fits-buffer', And(p.off >= 0, p.off + ms.t <= st.len_of(p.region)), 'the memory data space handed to DataSet::read must not be larger than the buffer')
            st.havoc_region(p.region)
            ex.logw(('r', p.region))
            st.scal['ghost.h5.read_done'] = IntV(I(1), parse_type_str('int'))
            ex.logw(('s', 'ghost.h5.read_done'))
            return VoidV()

        def set_size(ex, n, st, objn, argn, this_override=None):
            x, b = ex.ev(argn[0], st), ex.ev(argn[1], st)
            U32 = parse_type_str('unsigned int')
            xs = ex.wrap(x.t, U32)
            bs = ex.wrap(b.t, U32)
            for path, val in ((PS_NX, xs), (PS_NY, xs), (PS_NB, bs), (PS_NXY, ex.wrap(xs * xs, U32)), (PS_NXYB, ex.wrap(xs * xs * bs, U32))):
                st.scal[path] = IntV(val, U32)
                ex.logw(('s', path))
            return VoidV()

        def npoints(ex, n, st, objn, argn, this_override=None):
            from vf.state import State
            v = st.scal.get('ghost.h5.selected_points')
            if v is None:
                t = State.fresh('h5.selected_points', z3.IntSort())
                st.assume(t >= 0)
                return IntV(t, parse_type_str('long'))
            return IntV(v.t, parse_type_str('long'))

        def assign_dispatch(ex, n, st, objn, argn, this_override=None):
            t = (objn.get('type', {}).get('desugaredQualType') or objn.get('type', {}).get('qualType', ''))
            if 'H5::' in t:
                return VoidV()
            if 'vector' in t:
                o = ex.ev_obj(objn, st)
                il = models.find_node(argn[0], 'InitListExpr')
                if il is None:
                    raise ExtractionError('readPhaseSpace: vector assignment that is not a braced list')
                items = [c for c in il.get('inner', [])]
                while len(items) == 1 and items[0].get('kind') == 'InitListExpr':
                    items = items[0].get('inner', [])
                vals = [ex.ev(c, st) for c in items]
                st.length[o.name] = I(len(vals))
                arr = z3.K(z3.IntSort(), z3.IntVal(0))
                for i_, v in enumerate(vals):
                    arr = z3.Store(arr, i_, v.t)
                st.arr[(o.name, '')] = arr
                st.leafct[(o.name, '')] = U64
                ex.logw(('r', o.name)); ex.logw(('len', o.name))
                return o
            raise ExtractionError(f'readPhaseSpace: assignment to {t} not modelled')
        noop = lambda ex, n, st, objn, argn, this_override=None: VoidV()

        def h5_any(ex, n, st, objn, argn, this_override=None):
            # any other member call on an HDF5 object: may write through pointer arguments (the pointee becomes arbitrary),
            # returns an arbitrary value of its result type
            from vf.state import State
            from vf.vcg import LVar, LScal
            for a in argn:
                b = a
                while b.get('kind') in ('ImplicitCastExpr', 'ParenExpr', 'CStyleCastExpr', 'CXXStaticCastExpr', 'CXXReinterpretCastExpr'):
                    b = b['inner'][0]
                if b.get('kind') == 'UnaryOperator' and b.get('opcode') == '&':
                    l = ex.lv(b['inner'][0], st)
                    cur = ex.load(l, st) if not (isinstance(l, LVar) and st.env.get(l.vid) is None) else None
                    if cur is not None:
                        ex.store(l, ex.havoc_val(st, cur, 'h5.read'), st)
                    continue
                try:
                    v = ex.ev(a, st)
                except ExtractionError:
                    continue
                if isinstance(v, PtrV) and v.region is not None:
                    st.havoc_region(v.region)
                    ex.logw(('r', v.region))
            rt = parse_type(n['type']) if n.get('type') else None
            if rt is None or rt.kind == 'void':
                return VoidV()
            if rt.kind == 'int':
                t = State.fresh('h5.result', z3.IntSort())
                from vf.state import range_fact
                st.assume(range_fact(t, rt))
                return IntV(t, rt)
            if rt.kind == 'float':
                return RealV(State.fresh('h5.result', z3.RealSort()), rt)
            return ObjRef('tmp:h5', 'H5::Object')
        return {'*lib:H5::': h5_any, 'read': read_into, 'ctor:H5::H5File': opaque_obj, 'ctor:H5::DataSet': opaque_obj, 'ctor:H5::DataType': opaque_obj, 'ctor:H5::DataSpace': space_ctor,
                'openDataSet': opaque_obj, 'getSpace': opaque_obj, 'getSimpleExtentNdims': ndims, 'getSimpleExtentDims': extent_dims,
                'selectHyperslab': hyperslab, 'getSelectNpoints': npoints, 'H5check_version': noop, 'H5open': noop,
                'setSize': set_size, 'operator=': assign_dispatch,
                'make_unique': MakeUniquePS(),
                'ctor:vfps::HDF5FileException': opaque_obj}

    def ensures(self, cx):
        nx, ny, nb = ps_globals(cx)
        r = cx.ret
        if not isinstance(r, ObjRef):
            return [('returns_phase_space', {'C17'}, z3.BoolVal(False))]
        sc = cx.st.scal
        g = lambda nm: sc[nm].t if nm in sc else None
        rank = g(self.RANK)
        d0, d1, d2 = g('ghost.h5.dim0'), g('ghost.h5.dim1'), g('ghost.h5.dim2')
        extra = []
        if None not in (rank, d0, d1, d2, g('ghost.h5.start0'), g('ghost.h5.count0')):
            us = cx.a('use_step')
            want = If(us >= 0, us, us + d0)          # use_step counts from the end when negative (-1: the last record)
            fsize = If(rank == 3, d1, d2)
            extra = [('requested_record_selected', {'C11'}, Implies(And(us >= -d0, us < d0), And(g('ghost.h5.start0') == want, g('ghost.h5.count0') == 1,
                                                                                             g('ghost.h5.start1') == 0, g('ghost.h5.start2') == 0))),
                     # for the square grids Inovesa writes (both grid extents equal) the whole record is selected
                     ('whole_record_selected', {'C11'}, If(rank == 3, Implies(d1 == d2, And(g('ghost.h5.count1') == d1, g('ghost.h5.count2') == d2)),
                                                           Implies(d2 == g('ghost.h5.dim3'), And(g('ghost.h5.count1') == d1, g('ghost.h5.count2') == d2,
                                                                                                 g('ghost.h5.count3') == g('ghost.h5.dim3'), g('ghost.h5.start3') == 0)))),
                     ('multi_bunch_file_refused', {'C11', 'C17'}, Implies(rank == 4, d1 == 1)),
                     ('grid_size_of_file', {'C11', 'C17'}, And(nx == fsize, ny == fsize)),
                     ('data_read', {'C11'}, z3.BoolVal('ghost.h5.read_done' in sc))]
        return extra + [('single_bunch', {'C17', 'C10', 'C11'}, nb == 1),
                ('charge_and_current_of_this_run', {'C10'}, And(cx.rf(r.name + '.charge') == cx.a('Qb'), cx.rf(r.name + '.current') == cx.a('Ib_unscaled'))),
                # unit factors of the loaded grid are those of THIS run as well (not whatever the old file was written with)
                ('unit_factors_of_this_run', {'C10'}, And(cx.rf(r.name + '._axis[0]._scale[Meter]') == cx.a('bl'), cx.rf(r.name + '._axis[1]._scale[ElectronVolt]') == cx.a('dE'))),
                ('shape', {'C17'}, declare_ps(cx, r.name))]


class MakeUniquePS(Use):
    """std::make_unique<PhaseSpace>(qmin,qmax,qscale,pmin,pmax,pscale,oclh,charge,current,filling[,zoom[,data]])"""

    def __init__(self):
        from .ps import PhaseSpaceCtor12Use
        Use.__init__(self, PhaseSpaceCtor12Use(), inst=lambda cx: [{'k': cx.ghost_of('k'), 'n': cx.ghost_of('n'), 'x': cx.ghost_of('x')}])

    def __call__(self, ex, n, st, objn, argn, this_override=None):
        # defaulted trailing parameters of the constructor: zoom = 1, data = nullptr
        Use.__call__(self, ex, n, st, None, argn, this_override='heap:ps')
        return ObjRef('heap:ps', 'std::unique_ptr<vfps::PhaseSpace>', null=z3.BoolVal(False))


class MakePSFromHDF5(Contract):
    """makePSFromHDF5(fname, startdiststep, qmin,qmax,pmin,pmax, oclh, beam_charge, beam_current, xscale, yscale): a thin wrapper —
    every argument reaches HDF5File::readPhaseSpace in the right position and, for the record index, without a conversion that
    could change its value (C11: the chosen record; C10: charge and current of this run).  Facts of the real AST."""
    name = 'vfps::makePSFromHDF5'
    tu = 'src/PS/PhaseSpaceFactory.cpp'
    tags = {'C11', 'C10', 'C17'}
    WANT = ['fname', 'qmin', 'qmax', 'pmin', 'pmax', 'oclh', 'beam_charge', 'beam_current', 'xscale', 'yscale', 'startdiststep']

    def custom_verify(self, scratch, tc):
        tu = tc.get(self.tu)
        fn = tu.function(self.name)
        ex = Exec(tu, fn, 'makePSFromHDF5')
        ex.default_tags = set(self.tags)
        pnames = [p.get('name') for p in params(fn)]
        for w in self.WANT:
            if w not in pnames:
                raise ExtractionError(f'makePSFromHDF5: parameter {w} does not exist any more (found {pnames})')
        calls = [n for n in _walk(body(fn)) if n.get('kind') in ('CallExpr', 'CXXMemberCallExpr') and
                 any((y.get('referencedDecl') or {}).get('name') == 'readPhaseSpace' or y.get('name') == 'readPhaseSpace' for y in _walk(n['inner'][0]))]
        if len(calls) != 1:
            raise ExtractionError(f'makePSFromHDF5: {len(calls)} calls of readPhaseSpace')
        args = calls[0]['inner'][1:]
        got = []
        for a in args:
            nm = [(x.get('referencedDecl') or {}).get('name') for x in _walk(a) if x.get('kind') == 'DeclRefExpr' and (x.get('referencedDecl') or {}).get('kind') == 'ParmVarDecl']
            got.append(nm[0] if len(set(nm)) == 1 else tuple(nm))
        obls = [Obligation('makePSFromHDF5#forwards_arguments_in_order', {'C11', 'C10', 'C17'}, [], z3.BoolVal(got == self.WANT), 'postcondition', None,
                           f'readPhaseSpace({", ".join(self.WANT)}); found {got}')]
        # the record index: parameter type of the wrapper and type at the call must hold every value main passes (int64_t option)
        stepp = [p for p in params(fn) if p.get('name') == 'startdiststep'][0]
        pt = parse_type(stepp['type'])
        wide = pt.kind == 'int' and pt.signed and pt.bits >= 64
        casts = [x for x in _walk(args[-1]) if x.get('kind') == 'ImplicitCastExpr' and x.get('castKind') == 'IntegralCast'] if len(args) == len(self.WANT) else []
        lossy = []
        for c_ in casts:
            tt = parse_type(c_['type'])
            if not (tt.kind == 'int' and tt.signed and tt.bits >= 64):
                lossy.append(c_['type'].get('qualType'))
        obls.append(Obligation('makePSFromHDF5#record_index_not_narrowed', {'C11'}, [], z3.BoolVal(bool(wide) and not lossy), 'postcondition', None,
                               f'startdiststep is declared {stepp["type"].get("qualType")} and handed on {"with conversions to " + str(lossy) if lossy else "unconverted"}: negative values (records counted from the end) must survive'))
        # the refusal half of C11: whatever goes wrong in the loader (std::exception, H5::Exception, anything else) ends in a message
        # and a null result -- which main turns into "Error reading <file>" and an end of the program (MainStartDistribution)
        trys = [n for n in _walk(body(fn)) if n.get('kind') == 'CXXTryStmt' and any(c_ is calls[0] for c_ in _walk(n['inner'][0]))]
        problems = []
        if len(trys) != 1:
            problems.append('the readPhaseSpace call is not inside exactly one try block')
        else:
            hs = [h for h in trys[0]['inner'][1:] if h.get('kind') == 'CXXCatchStmt']
            # a catch-all handler: its first child is not a VarDecl (catch (...))
            if not any(not any(c_.get('kind') == 'VarDecl' for c_ in h.get('inner', [])[:1]) for h in hs):
                problems.append('no catch (...) handler')
            for h in hs:
                hb = h['inner'][-1]
                speaks = any(x.get('kind') in ('CXXOperatorCallExpr', 'CXXMemberCallExpr', 'CallExpr') for x in _walk(hb))
                rets_ = [x for x in _walk(hb) if x.get('kind') == 'ReturnStmt']
                if not speaks:
                    problems.append(f'handler at line {line_of(h)} says nothing')
                if any(not any(y.get('kind') == 'CXXNullPtrLiteralExpr' for y in _walk(r_)) for r_ in rets_):
                    problems.append(f'handler at line {line_of(h)} returns something that is not null')
                if any(x.get('kind') in ('CXXNewExpr',) or (x.get('kind') == 'CallExpr' and 'make_unique' in str((x['inner'][0].get('referencedDecl') or {}).get('name', '')) ) for x in _walk(hb)):
                    problems.append(f'handler at line {line_of(h)} builds a phase space of its own')
            # outside the try: the only way out is `return nullptr`
            inside = set(id(x) for x in _walk(trys[0]))
            outer = [x for x in _walk(body(fn)) if x.get('kind') == 'ReturnStmt' and id(x) not in inside]
            if not outer or any(not any(y.get('kind') == 'CXXNullPtrLiteralExpr' for y in _walk(r_)) for r_ in outer):
                problems.append('after the handlers the function does not return nullptr')
        obls.append(Obligation('makePSFromHDF5#a_failed_load_yields_a_message_and_null', {'C11'}, [], z3.BoolVal(not problems), 'postcondition', None,
                               f'every failure of readPhaseSpace is caught, reported and turned into a null result: {problems or "yes"}'))
        ex.obls = obls + [Obligation('makePSFromHDF5#canary', set(), [], z3.BoolVal(False), 'canary', None, '')]
        info = {'unit': self.name, 'file': self.tu, 'sha': tu.sha, 'cases': 1, 'lines': [None, None], 'extract_s': 0, 'facts': {'forwarded': [str(g) for g in got]}}
        return [ex], info


class HDF5FileUnits(Contract):
    """Unit-conversion attributes of the results file (C10): every attribute the constructor attaches to a dataset is written from
    the quantity its name promises, read back from the very objects the simulation runs with (phase space axes' unit-scale tables,
    bunch charge/current, synchrotron period and revolution frequency handed in by main, the field's Volt / Watt factors).
    Facts from the real AST: (dataset member, attribute name) -> canonical text of the written expression, locals resolved."""
    name = 'vfps::HDF5File::HDF5File'
    tu = 'src/IO/HDF5File.cpp'
    tags = {'C10'}
    METER, EV = 'ps.getScale(0,"Meter")', 'ps.getScale(1,"ElectronVolt")'
    EXPECT = {
        ('_positionAxis', 'Meter'): METER, ('_positionAxis', 'Second'): f'({METER}/c)',
        ('_energyAxis', 'ElectronVolt'): EV,
        ('_frequencyAxis', 'Hertz'): '((ef!=nullptr)?ef.getFreqRuler():imp.getRuler()).scale("Hertz")',
        ('_timeAxis', 'Second'): 't_sync', ('_timeAxis', 'Turn'): '(t_sync*f_rev)',
        ('_timeAxisPS', 'Second'): 't_sync', ('_timeAxisPS', 'Turn'): '(t_sync*f_rev)',
        ('_bunchPopulation', 'Ampere'): 'ps.current', ('_bunchPopulation', 'Coulomb'): 'ps.charge',
        ('_bunchProfile', 'AmperePerNBL'): 'ps.current', ('_bunchProfile', 'CoulombPerNBL'): 'ps.charge',
        ('_energyProfile', 'AmperePerNES'): 'ps.current', ('_energyProfile', 'CoulombPerNES'): 'ps.charge',
        ('_phaseSpace', 'AmperePerNBLPerNES'): 'ps.current', ('_phaseSpace', 'CoulombPerNBLPerNES'): 'ps.charge',
        ('_bunchLength', 'Meter'): METER, ('_bunchLength', 'Second'): f'({METER}/c)',
        ('_bunchPosition', 'Meter'): METER, ('_bunchPosition', 'Second'): f'({METER}/c)',
        ('_energySpread', 'ElectronVolt'): EV, ('_energyAverage', 'ElectronVolt'): EV,
        ('_wakePotential', 'Volt'): 'ef.volts', ('_csrSpectrum', 'WattPerHertz'): 'ef.factor4WattPerHertz', ('_csrIntensity', 'Watt'): 'ef.factor4Watts',
        ('/Impedance/data', 'Ohm'): 'imp.factor4Ohms',
    }

    def custom_verify(self, scratch, tc):
        from vf.ast import ctor_inits
        tu = tc.get(self.tu)
        ctors = [f for f in tu.funcs.get('vfps::HDF5File::HDF5File', []) if len(params(f)) >= 6]
        if len(ctors) != 1:
            raise ExtractionError(f'HDF5File constructor: {len(ctors)} candidates')
        ctor = ctors[0]
        ex = Exec(tu, ctor, 'HDF5File::HDF5File')
        ex.default_tags = {'C10'}
        b = body(ctor)
        locals_ = {}
        assigned = set()
        for n in _walk(b):
            if n.get('kind') == 'VarDecl' and n.get('id') and n.get('inner'):
                locals_[n['id']] = n
            if n.get('kind') in ('BinaryOperator', 'CompoundAssignOperator') and (n.get('opcode') or '').endswith('=') and n.get('opcode') not in ('==', '!=', '<=', '>='):
                for y in _walk(n['inner'][0]):
                    if y.get('kind') == 'DeclRefExpr':
                        assigned.add((y.get('referencedDecl') or {}).get('id'))

        def canon(e, depth=0):
            if depth > 40:
                raise ExtractionError('HDF5File constructor: expression too deep')
            k = e.get('kind')
            inner = [c for c in e.get('inner', []) if isinstance(c, dict)]
            if k in ('ImplicitCastExpr', 'ParenExpr', 'MaterializeTemporaryExpr', 'ExprWithCleanups', 'CXXBindTemporaryExpr', 'CXXFunctionalCastExpr', 'CStyleCastExpr', 'CXXStaticCastExpr') and len(inner) >= 1:
                return canon(inner[-1], depth + 1)
            if k in ('CXXConstructExpr', 'CXXTemporaryObjectExpr'):
                real_args = [a for a in inner if a.get('kind') != 'CXXDefaultArgExpr']
                if len(real_args) == 1:
                    return canon(real_args[0], depth + 1)
            if k == 'DeclRefExpr':
                rd = e.get('referencedDecl') or {}
                if rd.get('kind') == 'VarDecl' and rd.get('id') in locals_:
                    if rd['id'] in assigned:
                        raise ExtractionError(f'HDF5File constructor: local {rd.get("name")} is re-assigned, cannot be resolved')
                    return canon(locals_[rd['id']]['inner'][-1], depth + 1)
                return rd.get('name', '?')
            if k == 'MemberExpr':
                if inner and inner[0].get('kind') != 'CXXThisExpr':
                    return canon(inner[0], depth + 1) + '.' + e.get('name', '?')
                return e.get('name', '?')
            if k in ('CXXMemberCallExpr', 'CallExpr'):
                return canon(inner[0], depth + 1) + '(' + ','.join(canon(a, depth + 1) for a in inner[1:] if a.get('kind') != 'CXXDefaultArgExpr') + ')'
            if k == 'CXXOperatorCallExpr':
                opn = [(y.get('referencedDecl') or {}).get('name') for y in _walk(inner[0]) if y.get('kind') == 'DeclRefExpr']
                if opn and opn[0] in ('operator->', 'operator*') and len(inner) == 2:
                    return canon(inner[1], depth + 1)
                if opn and len(inner) == 3 and opn[0].startswith('operator'):
                    return '(' + canon(inner[1], depth + 1) + opn[0][8:] + canon(inner[2], depth + 1) + ')'
                raise ExtractionError(f'HDF5File constructor: operator call {opn} not understood')
            if k == 'UnaryOperator':
                if e.get('opcode') in ('&', '*'):
                    return canon(inner[0], depth + 1)
                return e.get('opcode', '?') + canon(inner[0], depth + 1)
            if k == 'BinaryOperator':
                return '(' + canon(inner[0], depth + 1) + e.get('opcode', '?') + canon(inner[1], depth + 1) + ')'
            if k == 'ConditionalOperator':
                return '(' + canon(inner[0], depth + 1) + '?' + canon(inner[1], depth + 1) + ':' + canon(inner[2], depth + 1) + ')'
            if k == 'StringLiteral':
                return e.get('value', '')
            if k in ('IntegerLiteral', 'FloatingLiteral'):
                return str(e.get('value'))
            if k == 'CXXNullPtrLiteralExpr':
                return 'nullptr'
            if k == 'CXXThisExpr':
                return 'this'
            raise ExtractionError(f'HDF5File constructor: expression kind {k} in an attribute source not understood')

        found = {}
        matched_creates = set()
        for n in _walk(b):
            # <dataset>.createAttribute("Name", type, space).write(type, &source)
            if n.get('kind') != 'CXXMemberCallExpr':
                continue
            callee = n['inner'][0]
            if callee.get('kind') != 'MemberExpr' or callee.get('name') != 'write' or len(n['inner']) < 3:
                continue
            creates = [x for x in _walk(callee) if x.get('kind') == 'CXXMemberCallExpr' and x['inner'][0].get('kind') == 'MemberExpr' and x['inner'][0].get('name') == 'createAttribute']
            if not creates:
                continue
            cr = creates[0]
            attr = strlit(cr['inner'][1])
            holder = [x.get('name') for x in _walk(cr['inner'][0]) if x.get('kind') == 'MemberExpr' and x.get('name', '').startswith('_') and x.get('name') not in ('_file',)]
            if not holder:
                grp = [strlit(x) for x in _walk(cr['inner'][0]) if x.get('kind') == 'StringLiteral']
                holder = [g for g in grp if g]
            if not holder or attr is None:
                raise ExtractionError(f'HDF5File constructor: attribute write at line {line_of(n)} not understood')
            key = (holder[0], attr)
            if key in found:
                raise ExtractionError(f'HDF5File constructor: attribute {key} written twice')
            found[key] = (canon(n['inner'][2]), line_of(n))
            matched_creates.add(cr.get('id'))
        all_creates = [x.get('id') for x in _walk(b) if x.get('kind') == 'CXXMemberCallExpr' and x['inner'][0].get('kind') == 'MemberExpr' and x['inner'][0].get('name') == 'createAttribute']
        if set(all_creates) - matched_creates:
            raise ExtractionError(f'HDF5File constructor: {len(set(all_creates) - matched_creates)} createAttribute call(s) are not of the form <dataset>.createAttribute(name,..).write(type,&source): the attribute table has to be re-derived')
        # the same write done through a small helper  helper(<dataset>, "Name", &source)  whose body is createAttribute(name,..).write(..,value)
        helper_cache = {}

        def is_attr_helper(nm_):
            if nm_ in helper_cache:
                return helper_cache[nm_]
            ok_ = False
            srcs = [tu]
            try:
                srcs.append(tc.get(self.tu, nm_))       # helpers outside namespace vfps (file-local, anonymous namespace)
            except ExtractionError:
                pass
            for t_ in srcs:
                for d_ in t_.docs:
                    for f_ in _walk(d_):
                        if f_.get('kind') in ('FunctionDecl', 'CXXMethodDecl') and f_.get('name') == nm_ and any(c.get('kind') == 'CompoundStmt' for c in f_.get('inner', [])):
                            mem = set(x.get('member') or x.get('name') for x in _walk(f_) if x.get('kind') in ('MemberExpr', 'CXXDependentScopeMemberExpr'))
                            if {'createAttribute', 'write'} <= mem:
                                ok_ = True
            helper_cache[nm_] = ok_
            return ok_
        for n in _walk(b):
            if n.get('kind') not in ('CallExpr', 'CXXMemberCallExpr'):
                continue
            c_ = n['inner'][0]
            while c_.get('kind') in ('ImplicitCastExpr', 'ParenExpr'):
                c_ = c_['inner'][0]
            nm = (c_.get('referencedDecl') or {}).get('name') or (c_.get('name') if c_.get('kind') == 'MemberExpr' else None)
            args_ = n['inner'][1:]
            if not nm or nm in ('write', 'createAttribute', 'link', 'openGroup', 'createDataSet') or len(args_) < 3:
                continue
            if not (any(x.get('kind') == 'MemberExpr' and x.get('name') == 'dataset' for a_ in args_ for x in _walk(a_)) and any(strlit(a_) for a_ in args_ if a_.get('kind') in ('ImplicitCastExpr', 'StringLiteral'))):
                continue
            if not is_attr_helper(nm):
                continue
            holders = [(i_, [x.get('name') for x in _walk(a_) if x.get('kind') == 'MemberExpr' and x.get('name', '').startswith('_') and x.get('name') != '_file']) for i_, a_ in enumerate(args_)]
            holders = [(i_, h_[0]) for i_, h_ in holders if h_ and any(x.get('kind') == 'MemberExpr' and x.get('name') == 'dataset' for x in _walk(args_[i_]))]
            names_ = [(i_, strlit(a_)) for i_, a_ in enumerate(args_) if a_.get('kind') in ('ImplicitCastExpr', 'StringLiteral') and strlit(a_)]
            if len(holders) != 1 or len(names_) != 1:
                raise ExtractionError(f'HDF5File constructor: call of the attribute helper {nm} at line {line_of(n)} not understood')
            rest = [i_ for i_ in range(len(args_)) if i_ not in (holders[0][0], names_[0][0]) and args_[i_].get('kind') != 'CXXDefaultArgExpr']
            if len(rest) != 1:
                raise ExtractionError(f'HDF5File constructor: attribute helper {nm} takes {len(rest)} further arguments, expected the value only')
            key = (holders[0][1], names_[0][1])
            if key in found:
                raise ExtractionError(f'HDF5File constructor: attribute {key} written twice')
            found[key] = (canon(args_[rest[0]]), line_of(n))
        obls = []
        for key, want in sorted(self.EXPECT.items()):
            got = found.get(key)
            obls.append(Obligation(f'HDF5File#unit.{key[0].lstrip("_/").replace("/", "_")}.{key[1]}', {'C10'}, [], z3.BoolVal(got is not None and got[0].replace(' ', '') == want), 'postcondition', got[1] if got else None,
                                   f'attribute {key[1]} of {key[0]} is written from {got[0] if got else "<not written>"}; the quantity of that name is {want}'))
        extra = sorted(set(found) - set(self.EXPECT))
        obls.append(Obligation('HDF5File#unit.no_unlisted_attribute', {'C10'}, [], z3.BoolVal(not extra), 'postcondition', None, f'attributes written by the constructor that the contract does not know: {extra}'))
        ex.obls = obls + [Obligation('HDF5File#unit.canary', set(), [], z3.BoolVal(False), 'canary', None, '')]
        info = {'unit': self.name + ' (unit attributes)', 'file': self.tu, 'sha': tu.sha, 'cases': 1, 'lines': [line_of(ctor), line_of(ctor)], 'extract_s': 0, 'attributes': len(found)}
        return [ex], info


class ProgramOptionsPrecedence(Contract):
    """C20 (partial): what Inovesa's own code contributes to "command line beats config file beats default; legacy aliases are
    honoured; compatibility-only options are ignored; bad input stops the program before anything is simulated".
    The option library is bound to a stated contract (assumptions A-PO-*, listed in the evidence):
      A-PO-STORE   variables_map::store never replaces a value stored earlier unless that value is defaulted;
      A-PO-NOTIFY  notify applies every stored value to the variable it is bound to, in the order of the map (option name order);
      A-PO-THROW   parse_command_line / parse_config_file / store throw (a std::exception) on an unknown option or a malformed value;
      A-PO-DEFAULT an option that was not given has defaulted() == true and carries its registered default.
    Facts are read off the real AST of ProgramOptions (constructor, parse) and of main's prologue."""
    name = 'vfps::ProgramOptions::parse'
    tu = 'src/IO/ProgramOptions.cpp'
    tags = {'C20'}
    ALIASES = {'SyncFreq': 'SynchrotronFrequency', 'RFVoltage': 'AcceleratingVoltage', 'steps': 'StepsPerTs'}
    replay = lambda self, o, model, pid: {'driver': 'main', 'scenarios': ['restart'] if pid == 'C11' else ['options']}
    tags = {'C20', 'C11', 'C10', 'C15'}

    def custom_verify(self, scratch, tc):
        tu = tc.get(self.tu)
        ctor = tu.function('vfps::ProgramOptions::ProgramOptions')
        parses = tu.funcs.get('vfps::ProgramOptions::parse', [])
        if len(parses) != 1:
            raise ExtractionError('ProgramOptions::parse not found')
        parse = parses[0]
        ex = Exec(tu, parse, 'ProgramOptions::parse')
        ex.default_tags = {'C20'}
        obls = []

        def ob(label, ok, note, tags=frozenset({'C20'})):
            obls.append(Obligation(f'ProgramOptions::parse#{label}', set(tags), [], z3.BoolVal(bool(ok)), 'postcondition', None, note))

        def callee_name(n):
            c_ = n['inner'][0]
            while c_.get('kind') in ('ImplicitCastExpr', 'ParenExpr'):
                c_ = c_['inner'][0]
            return (c_.get('referencedDecl') or {}).get('name') or c_.get('name')
        # ---- (1) order of the two store() calls
        stores = []
        for n in _walk(body(parse)):
            if n.get('kind') == 'CallExpr' and callee_name(n) == 'store':
                src = [callee_name(x) for x in _walk(n) if x.get('kind') == 'CallExpr' and callee_name(x) in ('parse_command_line', 'parse_config_file', 'parse_environment')]
                grp = [x.get('name') for x in _walk(n) if x.get('kind') == 'MemberExpr' and x.get('name', '').endswith('opts')]
                stores.append((n.get('range', {}).get('begin', {}).get('offset', 0), src[0] if src else '?', grp[0] if grp else '?'))
        stores.sort()
        kinds = [k for _, k, _ in stores]
        ob('command_line_stored_first', kinds[:1] == ['parse_command_line'] and kinds.count('parse_command_line') == 1 and 'parse_config_file' in kinds and '?' not in kinds,
           f'values are stored in the order {kinds}: with A-PO-STORE the first one stored wins, so the command line must be stored before the config file')
        groups = {k: g for _, k, g in stores}
        # ---- (2) which option groups the two parsers know
        members = {}            # group -> set of groups added
        names = {}              # group -> option names registered directly
        cur = None
        for n in _walk(ctor):
            if n.get('kind') == 'CXXMemberCallExpr' and n['inner'][0].get('kind') == 'MemberExpr' and n['inner'][0].get('name') == 'add':
                tgt = [x.get('name') for x in _walk(n['inner'][0]) if x.get('kind') == 'MemberExpr' and x.get('name') != 'add']
                arg = [x.get('name') for x in _walk(n['inner'][1]) if x.get('kind') == 'MemberExpr'] if len(n['inner']) > 1 else []
                if tgt and arg:
                    members.setdefault(tgt[0], set()).add(arg[0])
        # registrations: walk statements of the constructor body; each `X.add_options()(...)...` chain belongs to group X
        for st_ in body(ctor).get('inner', []):
            grp = [x.get('name') for x in _walk(st_) if x.get('kind') == 'MemberExpr' and x.get('name', '').startswith('_') and x.get('name', '').endswith(('opts', 'opts_cli', 'opts_file', 'opts_alias', 'opts_ignore'))]
            addopt = any(x.get('kind') == 'MemberExpr' and x.get('name') == 'add_options' for x in _walk(st_))
            if addopt and grp:
                for x in _walk(st_):
                    if x.get('kind') == 'CXXOperatorCallExpr' and len(x.get('inner', [])) >= 3:
                        nm = strlit(x['inner'][2]) if x['inner'][2].get('kind') in ('ImplicitCastExpr', 'StringLiteral') else None
                        if nm:
                            names.setdefault(grp[-1] if False else grp[0], set()).add(nm.split(',')[0])

        def closure(g, seen=None):
            seen = seen or set()
            out = set(names.get(g, set()))
            for m in members.get(g, set()):
                if m not in seen:
                    out |= closure(m, seen | {g})
            return out
        cli, cfg = closure(groups.get('parse_command_line', '?')), closure(groups.get('parse_config_file', '?'))
        if len(cli) < 40 or len(cfg) < 40:
            raise ExtractionError(f'ProgramOptions constructor: option groups not recognised ({len(cli)} command-line, {len(cfg)} config-file names)')
        info_only = {'help', 'copyright', 'version', 'buildinfo', 'config'}
        ob('config_file_accepts_every_run_option', (cli - info_only) <= cfg, f'options of the command line that a config file does not know: {sorted((cli - info_only) - cfg)}')
        # ---- (3) legacy aliases (shape facts shared with C13: see ProgramOptionsSave)
        save_c = ProgramOptionsSave()
        exs_, _info = save_c.custom_verify(scratch, tc)
        by_name = {o.name: o for e_ in exs_ for o in e_.obls}
        for alias, canon in sorted(self.ALIASES.items()):
            ob(f'alias.{alias}.registered_for_config_files', alias in cfg and alias not in cli, f'{alias} is accepted in config files only (legacy name of {canon})')
            reach = by_name.get(f'ProgramOptions::save#alias.{alias}.value_reaches_{canon}')
            ren = by_name.get(f'ProgramOptions::parse#alias.{alias}.member_renotified_after_copy')
            ok = reach is not None and ren is not None and z3.is_true(reach.goal) and z3.is_true(ren.goal)
            ob(f'alias.{alias}.acts_like_{canon}', ok, f'the value of {alias} reaches the stored value of {canon} and the member it is bound to ({"yes" if ok else "no"})')
        # the second shape only: current name given explicitly (command line, A-PO-STORE/A-PO-DEFAULT) => alias ignored
        shapes = getattr(save_c, 'last_shapes', {})
        for alias, canon in sorted(self.ALIASES.items()):
            ob(f'alias.{alias}.yields_to_{canon}_given_explicitly', shapes.get((canon, alias)) == 'unless_given',
               f'copy of {alias} is guarded by count({alias}) and {canon}.defaulted(), and the {alias} entry is erased before the final notify (found shape: {shapes.get((canon, alias))})')
        # ---- (4) missing config file: message and refusal
        refused = False
        for n in _walk(body(parse)):
            if n.get('kind') == 'IfStmt':
                lits = [x.get('value', '') for x in _walk(n['inner'][0]) if x.get('kind') == 'StringLiteral']
                if any('default.cfg' in l for l in lits) and len(n['inner']) > 1:
                    thn = n['inner'][1]
                    says = any('does not exist' in (x.get('value') or '') for x in _walk(thn) if x.get('kind') == 'StringLiteral')
                    rets = [x for x in _walk(thn) if x.get('kind') == 'ReturnStmt']
                    retf = rets and all(any(y.get('kind') == 'CXXBoolLiteralExpr' and y.get('value') is False for y in _walk(r)) for r in rets)
                    refused = bool(says and retf)
        ob('missing_config_file_refused_with_a_message', refused, 'a config file that does not exist (other than the implicit default.cfg) is reported and parse() returns false')
        # ---- (4b) A-PO-THROW reaches main: nothing inside parse() swallows the exception of the parsers / store / notify
        # (a handler that returns or falls through turns "unknown option / malformed value" into parse() == false or true,
        # which main treats as a regular end or as success); a handler that rethrows is fine
        swallowed = []
        for n in _walk(body(parse)):
            if n.get('kind') != 'CXXTryStmt':
                continue
            tryb = n['inner'][0]
            risky = sorted(set(callee_name(x) for x in _walk(tryb) if x.get('kind') == 'CallExpr' and callee_name(x) in ('store', 'notify', 'parse_command_line', 'parse_config_file')))
            if not risky:
                continue
            for h in n['inner'][1:]:
                if h.get('kind') != 'CXXCatchStmt':
                    continue
                hb = h['inner'][-1]
                top = hb.get('inner', []) if hb.get('kind') == 'CompoundStmt' else [hb]
                last = top[-1] if top else {}
                while last.get('kind') in ('ExprWithCleanups',) and last.get('inner'):
                    last = last['inner'][0]
                rethrows = last.get('kind') == 'CXXThrowExpr' and not any(x.get('kind') == 'ReturnStmt' for x in _walk(hb))
                if not rethrows:
                    swallowed.append((line_of(h) if 'range' in h or 'loc' in h else 0, risky))
        ob('parse.errors_of_the_option_parsers_reach_main', not swallowed,
           f'handlers inside parse() around store/notify/parse_* that do not rethrow: {swallowed} (A-PO-THROW: the exception is what carries "unknown option" / "malformed value" to main, which turns it into the failure status)')
        # ---- (5) main's prologue: errors end the program with a failure status, before anything is simulated
        mtu = tc.get('src/main.cpp', 'main')
        mfn = mtu.function('main')
        stmts = body(mfn).get('inner', [])
        try_idx, ok_fail, ok_false = None, False, False
        for i_, st_ in enumerate(stmts):
            if st_.get('kind') == 'CXXTryStmt' and any(x.get('kind') == 'CXXMemberCallExpr' and x['inner'][0].get('name') == 'parse' for x in _walk(st_)):
                try_idx = i_
                handlers = [h for h in st_.get('inner', []) if h.get('kind') == 'CXXCatchStmt']
                for h in handlers:
                    rets = [x for x in _walk(h) if x.get('kind') == 'ReturnStmt']
                    vals = [[int(y.get('value')) for y in _walk(r) if y.get('kind') == 'IntegerLiteral'] for r in rets]
                    says = any(x.get('kind') == 'CXXMemberCallExpr' and x['inner'][0].get('name') == 'what' for x in _walk(h))
                    catches_std = any('exception' in (x.get('type', {}).get('qualType', '')) for x in _walk(h) if x.get('kind') == 'VarDecl')
                    if rets and all(v and v[0] != 0 for v in vals) and says and catches_std:
                        ok_fail = True
                tryb = st_['inner'][0]
                is_parse = lambda y: y.get('kind') == 'CXXMemberCallExpr' and y['inner'][0].get('name') == 'parse'
                negated = lambda c_: any(y.get('kind') == 'UnaryOperator' and y.get('opcode') == '!' for y in _walk(c_))
                shape = None
                for x in _walk(tryb):
                    if x.get('kind') == 'IfStmt' and any(is_parse(y) for y in _walk(x['inner'][0])):
                        # (a) if (!opts.parse(..)) return ...;
                        shape = 'tested'
                        ok_false = negated(x['inner'][0]) and any(y.get('kind') == 'ReturnStmt' for y in _walk(x['inner'][1]))
                if shape is None:
                    # (b) flag = opts.parse(..);  [declared before or in the try]  ...  if (!flag) return ...;  as the next use of flag
                    holder = None
                    for x in _walk(tryb):
                        if x.get('kind') == 'BinaryOperator' and x.get('opcode') == '=' and any(is_parse(y) for y in _walk(x['inner'][1])):
                            holder = next(((y.get('referencedDecl') or {}).get('id') for y in _walk(x['inner'][0]) if y.get('kind') == 'DeclRefExpr'), None)
                    if holder is not None:
                        shape = 'stored'
                        for later in stmts[i_ + 1:]:
                            uses = [y for y in _walk(later) if y.get('kind') == 'DeclRefExpr' and (y.get('referencedDecl') or {}).get('id') == holder]
                            if not uses:
                                if any(y.get('kind') in ('CXXConstructExpr', 'CXXNewExpr', 'CXXMemberCallExpr') for y in _walk(later)):
                                    break       # something else happens before the flag is looked at
                                continue
                            if later.get('kind') == 'IfStmt' and negated(later['inner'][0]) and any(y.get('kind') == 'ReturnStmt' for y in _walk(later['inner'][1])):
                                ok_false = True
                            break
                    elif any(is_parse(y) for y in tryb.get('inner', []) if isinstance(y, dict)):
                        shape = 'discarded'     # opts.parse(..); as a statement of its own: the answer is ignored
                if shape is None:
                    raise ExtractionError("main: what becomes of the result of opts.parse() was not understood")
                break
        if try_idx is None:
            raise ExtractionError('main: the try block around opts.parse() was not found')
        ob('main.parse_error_is_reported_with_failure_status', ok_fail, 'main catches std::exception from parse(), prints e.what() and returns a non-zero status')
        ob('main.refused_invocation_ends_before_anything_is_simulated', ok_false, 'if parse() returns false main returns at once')
        sim_words = ('PhaseSpace', 'makeImpedance', 'ElectricField', 'HDF5File', 'makePSFrom')
        first_sim = next((i_ for i_, st_ in enumerate(stmts) if any((x.get('type', {}).get('qualType', '') or '').find(w) >= 0 or (x.get('referencedDecl') or {}).get('name', '') .startswith(w)
                                                                         for x in _walk(st_) for w in sim_words if x.get('kind') in ('CXXConstructExpr', 'DeclRefExpr', 'CXXNewExpr'))), None)
        ob('main.options_are_parsed_before_anything_is_built', first_sim is None or try_idx < first_sim, f'parse() is statement {try_idx} of main, the first construction of a simulation object is statement {first_sim}')
        # ---- (6) options accepted for compatibility only have no effect: the variables they are bound to are not read by main
        ign = closure('_compatopts_ignore')
        bound = {}
        for n in _walk(ctor):
            if n.get('kind') != 'CXXOperatorCallExpr':
                continue
            args = n.get('inner', [])[1:]
            if len(args) < 3:
                continue
            nm = strlit(args[1]) if args[1].get('kind') in ('ImplicitCastExpr', 'StringLiteral') else None
            if not nm:
                continue
            for x in _walk(args[2]):
                if x.get('kind') == 'UnaryOperator' and x.get('opcode') == '&':
                    mem = [y.get('name') for y in _walk(x) if y.get('kind') == 'MemberExpr']
                    if mem:
                        bound.setdefault(nm.split(',')[0], set()).add(mem[0])
        # ---- (5a) one option, one variable: an option registered for the command line AND for config files is bound to the same
        # variable in both (otherwise the value reaches its getter from one source only)
        split_ = {nm: sorted(ms) for nm, ms in sorted(bound.items()) if len(ms) > 1}
        ob('registration.every_option_is_bound_to_one_variable', not split_, f'options whose registrations are bound to different variables: {split_}')
        # ---- (5a') A-PO-STORE holds for plain options only: an option declared composing() MERGES the values of all sources
        # (command line and config file) instead of letting the first one stored win
        merging = []
        for n in _walk(ctor):
            if n.get('kind') == 'CXXMemberCallExpr' and n['inner'][0].get('kind') == 'MemberExpr' and n['inner'][0].get('name') == 'composing':
                merging.append(line_of(n) if ('range' in n or 'loc' in n) else 0)
        ob('registration.no_option_merges_its_sources', not merging, f'options declared composing() (lines {merging}): for these the config-file values are appended to the command-line ones, the command line does not win')
        # ---- (5b) the effective value is the parsed one: parse() rewrites a variable bound to an option only to turn the documented
        # spelling of "none" ("/dev/null" for the file-name options) into the empty name, under a test of exactly that
        all_bound = set(m for ms in bound.values() for m in ms)
        rewrites = []

        def _writes(node, guards):
            k = node.get('kind')
            if k == 'IfStmt':
                inner = node.get('inner', [])
                cond = inner[0] if inner else {}
                _writes(cond, guards)
                if len(inner) > 1:
                    _writes(inner[1], guards + [(cond, True)])
                if len(inner) > 2:
                    _writes(inner[2], guards + [(cond, False)])
                return
            tgt = None
            if k == 'CXXMemberCallExpr' and node['inner'][0].get('kind') == 'MemberExpr' and node['inner'][0].get('name') in ('clear', 'assign', 'append', 'swap', 'erase', 'resize', 'push_back', 'insert', 'replace'):
                tgt = [y.get('name') for y in _walk(node['inner'][0]['inner'][0]) if y.get('kind') == 'MemberExpr']
            elif k == 'CXXOperatorCallExpr' and len(node.get('inner', [])) >= 2 and (callee_name(node) or '').startswith('operator') and (callee_name(node) or '') in ('operator=', 'operator+='):
                tgt = [y.get('name') for y in _walk(node['inner'][1]) if y.get('kind') == 'MemberExpr']
            elif k in ('BinaryOperator', 'CompoundAssignOperator') and (node.get('opcode') or '').endswith('=') and node.get('opcode') not in ('==', '!=', '<=', '>='):
                tgt = [y.get('name') for y in _walk(node['inner'][0]) if y.get('kind') == 'MemberExpr']
            elif k == 'UnaryOperator' and node.get('opcode') in ('++', '--'):
                tgt = [y.get('name') for y in _walk(node['inner'][0]) if y.get('kind') == 'MemberExpr']
            if tgt and tgt[0] in all_bound:
                m_ = tgt[0]

                def is_none_test(c_, pol):
                    if not pol:
                        return False
                    while c_.get('kind') in ('ImplicitCastExpr', 'ParenExpr', 'ExprWithCleanups', 'MaterializeTemporaryExpr') and c_.get('inner'):
                        c_ = c_['inner'][0]
                    if c_.get('kind') != 'CXXOperatorCallExpr' or callee_name(c_) != 'operator==':
                        return False
                    mems_ = [y.get('name') for y in _walk(c_) if y.get('kind') == 'MemberExpr']
                    lits_ = [y.get('value', '').strip('"') for y in _walk(c_) if y.get('kind') == 'StringLiteral']
                    return mems_ == [m_] and lits_ == ['/dev/null']
                if not any(is_none_test(c_, pol) for c_, pol in guards):
                    rewrites.append((m_, line_of(node) if ('range' in node or 'loc' in node) else 0))
            for c_ in node.get('inner', []) or []:
                if isinstance(c_, dict):
                    _writes(c_, guards)
        _writes(body(parse), [])
        # the same statement per quantity other properties rest on: the start file main gets is the one the user named (C11: a file
        # that cannot be used is REFUSED by main -- that needs its name to arrive), likewise the results file (C10) and the tracking file (C15)
        for opt_, tg_ in (('InitialDistFile', {'C11', 'C20'}), ('output', {'C10', 'C20'}), ('tracking', {'C15', 'C20'})):
            ms_ = bound.get(opt_, set())
            hit_ = [r_ for r_ in rewrites if r_[0] in ms_]
            ob(f'parse.file_name_of_{opt_}_reaches_main_as_given', bool(ms_) and not hit_, f'option {opt_} is bound to {sorted(ms_)}; writes to it in parse() outside the "/dev/null" test: {hit_}', tags=frozenset(tg_))
        ob('parse.option_values_are_not_rewritten_after_parsing', not rewrites,
           f'writes in parse() to variables bound to options outside a test `<that variable> == "/dev/null"`: {rewrites} (the effective value must be the one given on the command line, else in the config file, else the default)')
        main_calls = set(x['inner'][0].get('name') for x in _walk(mfn) if x.get('kind') == 'CXXMemberCallExpr' and x['inner'][0].get('kind') == 'MemberExpr')
        for nm in sorted(ign):
            mems = bound.get(nm, set())
            # members shared with an option that is NOT compatibility-only are read on behalf of that option
            shared = set(m for m in mems for other, ms in bound.items() if other not in ign and m in ms)
            getters = []
            for q, fl in tu.funcs.items():
                if q.startswith('vfps::ProgramOptions::get') or q.startswith('vfps::ProgramOptions::show'):
                    for f in fl:
                        if any(x.get('kind') == 'MemberExpr' and x.get('name') in (mems - shared) for x in _walk(f)):
                            getters.append(q.split('::')[-1])
            used = sorted(set(getters) & main_calls)
            ob(f'compat.{nm}.has_no_effect', not used, f'option {nm} (compatibility only) is bound to {sorted(mems)}; accessors of those members called by main: {used}')
        ex.obls = obls + [Obligation('ProgramOptions::parse#canary', set(), [], z3.BoolVal(False), 'canary', None, '')]
        info = {'unit': self.name + ' (precedence, aliases, refusals)', 'file': self.tu + ' + src/main.cpp (prologue)', 'sha': tu.sha, 'cases': 1, 'lines': [line_of(parse), line_of(parse)], 'extract_s': 0,
                'command_line_options': len(cli), 'config_file_options': len(cfg)}
        return [ex], info


class HDF5AppendData(Contract):
    """HDF5File::_appendData<rank,T>(ds, data, size): `size` records are appended at the END of the dataset —
    the dataset is extended to the old record count + size (other extents unchanged), the hyperslab selected in the file starts at
    the OLD record count (zero in the other dimensions) and spans size x the record extents, the memory space has the same
    extents, and what is written is the caller's buffer.  One instantiation per (rank, element type) the file uses; the HDF5
    calls are bound to the library contracts A-H5-EXTEND / A-H5-SELECT / A-H5-WRITE (recorded as ghosts)."""
    name = 'vfps::HDF5File::_appendData'
    tu = 'src/IO/HDF5File.cpp'
    params = ['ds', 'data', 'size']
    tags = {'C10', 'C14', 'C17', 'C19'}
    RANK = 3
    sig_contains = 'DatasetInfo<3> &, const float *const'

    def short(self):
        return 'HDF5File::_appendData<rank3_float>'

    def requires(self, cx):
        ds = cx.arg('ds').name
        return [('rank', And(cx.len(ds + '.dims') == self.RANK, cx.f(ds + '.rank') == self.RANK)),
                ('no_wrap', cx.sel(ds + '.dims', I(0), '', 'u64') + cx.a('size') < 2 ** 63)]

    def assigns(self, cx):
        ds = cx.arg('ds').name
        return [('r', ds + '.dims', I(0), I(1)), ('s', 'ghost.*')]

    @property
    def calls(self):
        U64 = parse_type_str('unsigned long long')
        R = self.RANK

        def grab(ex, st, p, label):
            if not isinstance(p, PtrV) or p.region is None:
                raise ExtractionError(f'_appendData: {label} is not an array')
            ex.safe(st, f'h5-{label}-entries', And(p.off >= 0, st.len_of(p.region) >= p.off + R), f'{label} must hold one entry per dimension')
            a = st.array(p.region, '', U64)
            for i_ in range(R):
                st.scal[f'ghost.h5.{label}{i_}'] = IntV(z3.Select(a, p.off + i_), U64)
                ex.logw(('s', f'ghost.h5.{label}{i_}'))

        def extend(ex, n, st, objn, argn, this_override=None):
            grab(ex, st, ex.ev(argn[0], st), 'extend')
            st.scal['ghost.h5.extended'] = IntV(I(1) + (st.scal['ghost.h5.extended'].t if 'ghost.h5.extended' in st.scal else I(0)), parse_type_str('int'))
            ex.logw(('s', 'ghost.h5.extended'))
            return VoidV()

        def hyperslab(ex, n, st, objn, argn, this_override=None):
            grab(ex, st, ex.ev(argn[1], st), 'count')
            grab(ex, st, ex.ev(argn[2], st), 'start')
            so = ex.ev_obj(objn, st)
            st.scal['ghost.h5.sel_obj'] = Opaque(so.name if isinstance(so, ObjRef) else '?')
            ex.logw(('s', 'ghost.h5.sel_obj'))
            st.scal['ghost.h5.selected'] = IntV(st.scal['ghost.h5.extended'].t if 'ghost.h5.extended' in st.scal else I(0), parse_type_str('int'))   # 1 iff selected after the extension
            ex.logw(('s', 'ghost.h5.selected'))
            return VoidV()

        def space_ctor(ex, n, st, objn, argn, this_override=None):
            real_args = [a for a in argn if a.get('kind') != 'CXXDefaultArgExpr']
            if len(real_args) >= 2 and parse_type(real_args[0].get('type')).kind == 'int':
                r = ex.ev(real_args[0], st)
                grab(ex, st, ex.ev(real_args[1], st), 'mem')
                st.scal['ghost.h5.memrank'] = IntV(r.t, parse_type_str('int'))
                ex.logw(('s', 'ghost.h5.memrank'))
                nm_ = this_override or 'tmp:memspace'
                st.scal['ghost.h5.mem_obj'] = Opaque(nm_)
                ex.logw(('s', 'ghost.h5.mem_obj'))
                return ObjRef(nm_, 'H5::DataSpace')
            for a in real_args:
                try:
                    ex.ev(a, st) if parse_type(a.get('type')).kind != 'class' else ex.ev_obj(a, st)
                except ExtractionError:
                    pass
            return ObjRef(this_override or 'tmp:filespace', 'H5::DataSpace')

        def write(ex, n, st, objn, argn, this_override=None):
            p = ex.ev(argn[0], st)
            spaces = []
            for a in argn[2:4]:
                try:
                    o = ex.ev_obj(a, st)
                    spaces.append(o.name if isinstance(o, ObjRef) else '?')
                except ExtractionError:
                    spaces.append('?')
            st.scal['ghost.h5.written'] = Opaque(f'{p.region if isinstance(p, PtrV) else "?"}|{p.off if isinstance(p, PtrV) else "?"}|{",".join(spaces)}')
            st.scal['ghost.h5.write_after_select'] = IntV(st.scal['ghost.h5.selected'].t if 'ghost.h5.selected' in st.scal else I(0), parse_type_str('int'))
            ex.logw(('s', 'ghost.h5.written')); ex.logw(('s', 'ghost.h5.write_after_select'))
            return VoidV()
        opaque = lambda ex, n, st, objn, argn, this_override=None: ObjRef('tmp:h5obj', 'H5::DataSpace')
        return {'extend': extend, 'selectHyperslab': hyperslab, 'ctor:H5::DataSpace': space_ctor, 'getSpace': opaque, 'write': write}

    def ensures(self, cx):
        ds = cx.arg('ds').name
        g = lambda nm: cx.st.scal[nm].t if nm in cx.st.scal else z3.Int('missing:' + nm)
        old0 = cx.old.sel(ds + '.dims', I(0), '', 'u64')
        size = cx.a('size')
        dim = lambda i_: cx.old.sel(ds + '.dims', I(i_), '', 'u64')
        R = self.RANK
        w = cx.st.scal.get('ghost.h5.written')
        data = cx.arg('data')
        mo, so = cx.st.scal.get('ghost.h5.mem_obj'), cx.st.scal.get('ghost.h5.sel_obj')
        wrote_data = isinstance(w, Opaque) and isinstance(data, PtrV) and w.what.split('|')[0] == str(data.region) and w.what.split('|')[1] == str(data.off) and \
            isinstance(mo, Opaque) and isinstance(so, Opaque) and w.what.split('|')[2] == f'{mo.what},{so.what}'     # (buffer, type, memory space, file space with the selection)
        return [('records_counted', {'C10', 'C14', 'C19'}, And(cx.sel(ds + '.dims', I(0), '', 'u64') == old0 + size, *[cx.sel(ds + '.dims', I(i_), '', 'u64') == dim(i_) for i_ in range(1, R)])),
                ('dataset_extended_to_new_count', {'C10', 'C17'}, And(g('ghost.h5.extended') == 1, g('ghost.h5.extend0') == old0 + size, *[g(f'ghost.h5.extend{i_}') == dim(i_) for i_ in range(1, R)])),
                ('appended_at_the_end', {'C10', 'C14', 'C19'}, And(g('ghost.h5.selected') == 1, g('ghost.h5.start0') == old0, *[g(f'ghost.h5.start{i_}') == 0 for i_ in range(1, R)])),
                ('whole_records', {'C10', 'C17'}, And(g('ghost.h5.count0') == size, *[g(f'ghost.h5.count{i_}') == dim(i_) for i_ in range(1, R)])),
                ('memory_space_matches_selection', {'C10', 'C17'}, And(g('ghost.h5.memrank') == R, *[g(f'ghost.h5.mem{i_}') == g(f'ghost.h5.count{i_}') for i_ in range(R)])),
                ('callers_buffer_written_with_these_spaces', {'C10', 'C17'}, And(z3.BoolVal(bool(wrote_data)), g('ghost.h5.write_after_select') == 1))]


def _append_inst(rank, sig, label):
    return type(f'HDF5AppendData_{label}', (HDF5AppendData,), {'RANK': rank, 'sig_contains': sig, '__doc__': HDF5AppendData.__doc__,
                                                             'short': lambda self, l_=label: f'HDF5File::_appendData<{l_}>'})


HDF5AppendData3f = HDF5AppendData
HDF5AppendData2f = _append_inst(2, 'DatasetInfo<2> &, const float *const', 'rank2_float')
HDF5AppendData1f = _append_inst(1, 'DatasetInfo<1> &, const float *const', 'rank1_float')
HDF5AppendData4f = _append_inst(4, 'DatasetInfo<4> &, const float *const', 'rank4_float')
HDF5AppendData2a = _append_inst(2, 'DatasetInfo<2> &, const std::array<float, 2> *const', 'rank2_pair')
HDF5AppendData3p = _append_inst(3, 'DatasetInfo<3> &, const vfps::PhaseSpace::Position *const', 'rank3_position')


# =========================================================================== HDF5File::_makeDatasetInfo<rank,T>
class HDF5MakeDatasetInfo(Contract):
    """HDF5File::_makeDatasetInfo<rank,T>(name, dims, chunkdims, maxdims): the dataset is created with exactly the extents `dims`
    (what the constructor's facts say about every dataset: HDF5FileSources) and the maximal extents `maxdims` (each at least 1), in
    chunks whose extents are all at least 1, and the DatasetInfo handed back carries the SAME extents `dims` -- the record counter
    _appendData starts from (C10: records == appends needs dims[0] of the info to be the dims[0] of the dataset)."""
    name = 'vfps::HDF5File::_makeDatasetInfo'
    tu = 'src/IO/HDF5File.cpp'
    params = ['name', 'dims', 'chunkdims', 'maxdims']
    tags = {'C10', 'C17'}
    RANK = 3
    mangled = '_ZN4vfps8HDF5File16_makeDatasetInfoILi3EfEENS0_11DatasetInfoIXT_EEENSt7__cxx1112basic_stringIcSt11char_traitsIcESaIcEEESt5arrayIyXT_EESB_SB_'

    def short(self):
        return 'HDF5File::_makeDatasetInfo<rank3_float>'

    def requires(self, cx):
        return [('rank', And(*[cx.len(cx.arg(p).name) == self.RANK for p in ('dims', 'chunkdims', 'maxdims')]))]

    def assigns(self, cx):
        return [('r', cx.arg('chunkdims').name), ('r', cx.arg('maxdims').name), ('s', 'ghost.*')]

    @property
    def calls(self):
        U64 = parse_type_str('unsigned long long')
        R = self.RANK
        INT = parse_type_str('int')

        def grab(ex, st, p, label):
            if not isinstance(p, PtrV) or p.region is None:
                raise ExtractionError(f'_makeDatasetInfo: {label} is not an array')
            ex.safe(st, f'h5-{label}-entries', And(p.off >= 0, st.len_of(p.region) >= p.off + R), f'{label} must hold one entry per dimension')
            ex.safe(st, f'h5-{label}-from-start', p.off == 0, f'{label} is handed over from its first entry')
            st.arr[(f'ghost.mk.{label}', '')] = st.array(p.region, '', U64)        # snapshot of the extents at the time of the call
            ex.logw(('r', f'ghost.mk.{label}'))

        def bump(ex, st, nm):
            st.scal[nm] = IntV((st.scal[nm].t if nm in st.scal else I(0)) + 1, INT)
            ex.logw(('s', nm))

        def space_ctor(ex, n, st, objn, argn, this_override=None):
            real_args = [a for a in argn if a.get('kind') != 'CXXDefaultArgExpr']
            if len(real_args) >= 3 and parse_type(real_args[0].get('type')).kind == 'int':
                st.scal['ghost.mk.rank'] = IntV(ex.ev(real_args[0], st).t, INT)
                ex.logw(('s', 'ghost.mk.rank'))
                grab(ex, st, ex.ev(real_args[1], st), 'dims')
                grab(ex, st, ex.ev(real_args[2], st), 'max')
                bump(ex, st, 'ghost.mk.spaces')
                return ObjRef(this_override or 'tmp:space', 'H5::DataSpace')
            raise ExtractionError('_makeDatasetInfo: data space not built from (rank, dims, maxdims)')

        def set_chunk(ex, n, st, objn, argn, this_override=None):
            st.scal['ghost.mk.chunkrank'] = IntV(ex.ev(argn[0], st).t, INT)
            ex.logw(('s', 'ghost.mk.chunkrank'))
            grab(ex, st, ex.ev(argn[1], st), 'chunk')
            bump(ex, st, 'ghost.mk.chunked')
            return VoidV()

        def create(ex, n, st, objn, argn, this_override=None):
            names = []
            for a in argn:
                try:
                    o = ex.ev_obj(a, st) if parse_type(a.get('type')).kind == 'class' else ex.ev(a, st)
                    names.append(o.name if isinstance(o, ObjRef) else '?')
                except ExtractionError:
                    names.append('?')
            st.scal['ghost.mk.created_with'] = Opaque('|'.join(names))
            ex.logw(('s', 'ghost.mk.created_with'))
            # created after the chunk layout was set and from the space built above
            st.scal['ghost.mk.create_after'] = IntV((st.scal['ghost.mk.chunked'].t if 'ghost.mk.chunked' in st.scal else I(0)) + (st.scal['ghost.mk.spaces'].t if 'ghost.mk.spaces' in st.scal else I(0)), INT)
            ex.logw(('s', 'ghost.mk.create_after'))
            bump(ex, st, 'ghost.mk.created')
            return ObjRef('tmp:dataset', 'H5::DataSet')

        def info_ctor(ex, n, st, objn, argn, this_override=None):
            d = ex.ev_obj(argn[2], st)
            if not isinstance(d, ObjRef):
                raise ExtractionError('_makeDatasetInfo: DatasetInfo not built from an extent array')
            st.arr[('ghost.mk.info', '')] = st.array(d.name, '', U64)
            ex.logw(('r', 'ghost.mk.info'))
            st.scal['ghost.mk.infolen'] = IntV(st.len_of(d.name), parse_type_str('long'))
            ex.logw(('s', 'ghost.mk.infolen'))
            try:
                o = ex.ev_obj(argn[0], st)
                st.scal['ghost.mk.info_dataset'] = Opaque(o.name if isinstance(o, ObjRef) else '?')
                ex.logw(('s', 'ghost.mk.info_dataset'))
            except ExtractionError:
                pass
            return ObjRef(this_override or 'tmp:info', 'vfps::HDF5File::DatasetInfo')
        noop = lambda ex, n, st, objn, argn, this_override=None: VoidV()
        obj = lambda cls: (lambda ex, n, st, objn, argn, this_override=None: ObjRef(this_override or 'tmp:' + cls, 'H5::' + cls))
        return {'ctor:H5::DataSpace': space_ctor, 'setChunk': set_chunk, 'setShuffle': noop, 'setDeflate': noop, 'createDataSet': create,
                'ctor:H5::DSetCreatPropList': obj('DSetCreatPropList'), 'ctor:H5::DataType': obj('DataType'), 'ctor:H5::DataSet': obj('DataSet'), 'operator=': noop,
                f'ctor:vfps::HDF5File::DatasetInfo<{R}>': info_ctor}

    def ensures(self, cx):
        R = self.RANK
        g = lambda nm: cx.st.scal[nm].t if nm in cx.st.scal else z3.Int('missing:' + nm)
        k = cx.g('k')
        snap = lambda label: z3.Select(cx.st.arr[('ghost.mk.' + label, '')], k) if ('ghost.mk.' + label, '') in cx.st.arr else z3.Int('missing:' + label)
        dims, mx, ch = cx.arg('dims').name, cx.arg('maxdims').name, cx.arg('chunkdims').name
        od, om, oc = cx.old.sel(dims, k, '', 'u64'), cx.old.sel(mx, k, '', 'u64'), cx.old.sel(ch, k, '', 'u64')
        atl1 = lambda v: If(v >= 1, v, I(1))
        ink = And(k >= 0, k < R)
        return [('created_with_the_given_extents', {'C10', 'C17'}, And(g('ghost.mk.spaces') == 1, g('ghost.mk.rank') == R, Implies(ink, snap('dims') == od))),
                ('maximal_extents_as_given_at_least_one', {'C10', 'C17'}, Implies(ink, snap('max') == atl1(om))),
                ('chunks_as_given_at_least_one', {'C17'}, And(g('ghost.mk.chunked') == 1, g('ghost.mk.chunkrank') == R, Implies(ink, snap('chunk') == atl1(oc)))),
                ('one_dataset_created_after_layout_and_space', {'C10', 'C17'}, And(g('ghost.mk.created') == 1, g('ghost.mk.create_after') == 2)),
                ('info_carries_the_extents_of_the_dataset', {'C10'}, And(g('ghost.mk.infolen') == R, Implies(ink, snap('info') == od)))]

    def _inv(self, which):
        def inv(cx):
            R = self.RANK
            arr = cx.arg(which).name
            i = cx.range_index(1 if which == 'chunkdims' else 2)
            k = cx.g('k')
            old = cx.old.sel(arr, k, '', 'u64')
            atl1 = If(old >= 1, old, I(1))
            other = [cx.arr(cx.arg(a).name, '', 'u64') == cx.old.arr(cx.arg(a).name, '', 'u64') for a in ('dims',) + (('maxdims',) if which == 'chunkdims' else ())]
            done_before = []
            if which == 'maxdims':
                ch = cx.arg('chunkdims').name
                oc = cx.old.sel(ch, k, '', 'u64')
                done_before = [Implies(And(k >= 0, k < R), cx.sel(ch, k, '', 'u64') == If(oc >= 1, oc, I(1)))]
            return [('range', And(i >= 0, i <= R)), ('len', And(*[cx.len(cx.arg(a).name) == R for a in ('dims', 'chunkdims', 'maxdims')])),
                    ('done', Implies(And(k >= 0, k < i), cx.sel(arr, k, '', 'u64') == atl1)),
                    ('todo', Implies(And(k >= i, k < R), cx.sel(arr, k, '', 'u64') == old)),
                    ('others', And(*(other + done_before)))]
        return inv

    ghosts = {'k': 'int'}

    @property
    def loops(self):
        l1, l2 = LoopSpec(inv=self._inv('chunkdims')), LoopSpec(inv=self._inv('maxdims'))
        for l in (l1, l2):
            l.split = (lambda idx: (lambda cx, cxb: [('cur', cx.g('k') == cxb.range_index(idx)), ('other', Not(cx.g('k') == cxb.range_index(idx)))]))(1 if l is l1 else 2)
        return {'dim#0': l1, 'dim#1': l2}


def _mkinfo_inst(rank, tcode, label):
    m = f'_ZN4vfps8HDF5File16_makeDatasetInfoILi{rank}E{tcode}EENS0_11DatasetInfoIXT_EEENSt7__cxx1112basic_stringIcSt11char_traitsIcESaIcEEESt5arrayIyXT_EESB_SB_'
    return type(f'HDF5MakeDatasetInfo_{label}', (HDF5MakeDatasetInfo,), {'RANK': rank, 'mangled': m, '__doc__': HDF5MakeDatasetInfo.__doc__,
                                                                      'short': lambda self, l_=label: f'HDF5File::_makeDatasetInfo<{l_}>'})


HDF5MakeDatasetInfo3f = HDF5MakeDatasetInfo
HDF5MakeDatasetInfo1f = _mkinfo_inst(1, 'f', 'rank1_float')
HDF5MakeDatasetInfo1u = _mkinfo_inst(1, 'j', 'rank1_uint32')
HDF5MakeDatasetInfo2f = _mkinfo_inst(2, 'f', 'rank2_float')
HDF5MakeDatasetInfo4f = _mkinfo_inst(4, 'f', 'rank4_float')
