"""ProgramOptions::save (U26): which options the writer can write, and when alpha0 is written as 0 — C13.
The contract is checked on facts extracted from the real AST: the registration table of the constructor
(option name, value type as resolved by clang) and the type dispatch of save()."""
import re, z3
from .common import *
from vf.ast import params, body, line_of
from vf.vcg import Exec
from vf.state import State, Obligation
from vf.unit import _walk

IGNORED_FOR_COMPAT = None   # read from save() itself: the names compared against it->first in the skip condition


def strlit(n):
    for x in _walk(n):
        if x.get('kind') == 'StringLiteral':
            return x.get('value', '').strip('"')
    return None


class ProgramOptionsSave(Contract):
    name = 'vfps::ProgramOptions::save'
    tu = 'src/IO/ProgramOptions.cpp'
    tags = {'C13'}

    def custom_verify(self, scratch, tc):
        tu = tc.get(self.tu)
        ctor = tu.function('vfps::ProgramOptions::ProgramOptions')
        saves = [f for f in tu.funcs.get('vfps::ProgramOptions::save', []) if 'std::string' in f.get('type', {}).get('qualType', '') or 'basic_string' in f.get('type', {}).get('qualType', '')]
        if len(saves) != 1:
            raise ExtractionError('ProgramOptions::save(std::string) not found')
        save = saves[0]
        ex = Exec(tu, save, 'ProgramOptions::save')
        ex.default_tags = {'C13'}
        # ---- registration table: operator()(name, value<T>(...), help) calls in the constructor
        table = {}
        for n in _walk(ctor):
            if n.get('kind') != 'CXXOperatorCallExpr':
                continue
            args = n.get('inner', [])[1:]
            if len(args) < 3:
                continue
            name = None
            for a in args[1:2]:
                name = strlit(a) if a.get('kind') in ('ImplicitCastExpr', 'StringLiteral') else None
            if not name:
                continue
            T = None
            for x in _walk(args[2]):
                if x.get('kind') == 'DeclRefExpr' and x.get('referencedDecl', {}).get('name') == 'value':
                    m = re.search(r'typed_value<(.*)> \*\(', x.get('type', {}).get('qualType', ''))
                    if m:
                        T = m.group(1)
            if T is None:
                continue
            table.setdefault(name.split(',')[0], set()).add(T.strip())
        if len(table) < 40:
            raise ExtractionError(f'ProgramOptions constructor: only {len(table)} option registrations recognised')
        # ---- save(): handled types and skipped names
        handled = set()
        for n in _walk(save):
            if n.get('kind') == 'CXXTypeidExpr':
                t = n.get('typeArg', {}).get('desugaredQualType') or n.get('typeArg', {}).get('qualType')
                if t:
                    handled.add(t.strip())
        skipped = set()
        alpha_if = None
        for n in _walk(save):
            if n.get('kind') == 'IfStmt':
                cond = n['inner'][0]
                lits = [x.get('value', '').strip('"') for x in _walk(cond) if x.get('kind') == 'StringLiteral']
                thn = n['inner'][1]
                only_continue = all(x.get('kind') in ('CompoundStmt', 'ContinueStmt') for x in _walk(thn))
                if lits and only_continue:
                    skipped |= set(lits)
                if 'alpha0' in lits and alpha_if is None:
                    alpha_if = n
        if not handled:
            raise ExtractionError('ProgramOptions::save: no typeid dispatch found')
        norm = {'float': 'float', 'double': 'double', 'int': 'int', 'unsigned int': 'unsigned int', 'long': 'long', 'bool': 'bool',
                'int32_t': 'int', 'uint32_t': 'unsigned int', 'int64_t': 'long'}
        handled_n = set(norm.get(h, h) for h in handled)
        st = State()

        def typename(t):
            t = t.replace('std::__cxx11::basic_string<char>', 'std::string').replace('std::basic_string<char>', 'std::string').replace('basic_string<char>', 'std::string')
            return {'unsigned char': 'unsigned char', 'uint_fast8_t': 'unsigned char'}.get(t, t)
        for name in sorted(table):
            if name in skipped:
                continue
            for T in table[name]:
                Tn = typename(T)
                ok = Tn in handled_n or Tn == 'std::string' or typename(T) in set(typename(h) for h in handled)
                o = Obligation(f'ProgramOptions::save#opt.{name}.value_type_written', {'C13'}, [], z3.BoolVal(ok), 'postcondition',
                               None, f'option {name} has value type {T}; save() writes types {sorted(handled_n)} and std::string')
                ex.obls.append(o)
        # ---- alpha0: written as 0 only when the synchrotron frequency is the one in use (f_s != 0)
        if alpha_if is None:
            raise ExtractionError('ProgramOptions::save: alpha0 special case not found')
        cond = alpha_if['inner'][0]
        while cond.get('kind') in ('ExprWithCleanups', 'ImplicitCastExpr', 'ParenExpr', 'MaterializeTemporaryExpr'):
            cond = cond['inner'][0]
        rhs = None
        if cond.get('kind') == 'BinaryOperator' and cond.get('opcode') == '&&':
            rhs = cond['inner'][1]
        if rhs is None:
            raise ExtractionError('ProgramOptions::save: alpha0 condition has an unexpected shape')
        ex.thisname = 'this'
        try:
            c = ex.tobool(ex.ev(rhs, st))
        except ExtractionError:
            # the condition consults something other than scalar members (e.g. the variables map): nothing is known
            # about it here, so it cannot establish that a synchrotron frequency is in use
            c = State.fresh('alpha0_condition', z3.BoolSort())
        fs = st.scal.get('this.f_s')
        if fs is None:
            fs = ex.new_scalar(st, 'this.f_s', parse_type_str('float'))
        wrote_zero = any('alpha0=0' in (x.get('value') or '') for x in _walk(alpha_if['inner'][1]) if x.get('kind') == 'StringLiteral')
        ex.oblig(st, 'alpha0.zero_only_when_overridden', z3.Implies(z3.And(c, z3.BoolVal(wrote_zero)), fs.t != 0), 'postcondition', {'C13'},
                 'alpha0 may be replaced by 0 only when a synchrotron frequency is given')
        ex.oblig(st, 'config.commented_out', z3.BoolVal(any(x.get('kind') == 'CharacterLiteral' and x.get('value') == 35 for x in _walk(save))), 'postcondition', {'C13'},
                 'the name of the parent config file is written as a comment')
        ex.oblig(st, 'canary', z3.BoolVal(False), 'canary', set())
        info = {'unit': self.name, 'file': self.tu, 'sha': tu.sha, 'cases': 1, 'lines': [None, None], 'options': len(table),
                'handled_types': sorted(handled_n), 'skipped_names': sorted(skipped), 'extract_s': 0}
        return [ex], info


class HDF5FileSources(Contract):
    """HDF5File (U25, partial): every dataset is written from the quantity it is named after (C10).
    Facts are read off the real AST: (dataset member, source accessor) pairs of the constructor's axis writes
    and of append(const PhaseSpace&, t, AppendType)."""
    name = 'vfps::HDF5File::append'
    tu = 'src/IO/HDF5File.cpp'
    tags = {'C10'}

    # dataset member -> (accessor name, integer arguments) the statement of C10 asks for
    APPEND_SOURCES = {
        '_phaseSpace': ('getData', []), '_bunchProfile': ('getProjection', [0]), '_energyProfile': ('getProjection', [1]),
        '_bunchLength': ('getBunchLength', []), '_energySpread': ('getEnergySpread', []),
        '_bunchPosition': ('getMoment', [0, 0]), '_energyAverage': ('getMoment', [1, 0]), '_bunchPopulation': ('getBunchPopulation', []),
    }
    AXIS_SOURCES = {'_positionAxis': 0, '_energyAxis': 1}

    @staticmethod
    def _calls(n, name):
        return [x for x in _walk(n) if x.get('kind') == 'CXXMemberCallExpr' and x['inner'][0].get('name') == name]

    @staticmethod
    def _ints(n):
        return [int(x['value']) for x in _walk(n) if x.get('kind') == 'IntegerLiteral']

    def custom_verify(self, scratch, tc):
        tu = tc.get(self.tu)
        ex = Exec(tu, None, 'HDF5File')
        ex.default_tags = {'C10'}
        st = State()
        # ---- append(const PhaseSpace&, timeaxis_t, AppendType)
        apps = [f for f in tu.funcs.get('vfps::HDF5File::append', []) if len(params(f)) == 3]
        if len(apps) != 1:
            raise ExtractionError('HDF5File::append(ps, t, at) not found')
        decls = {}      # local variable (e.g. mean_q) -> initialiser
        for x in _walk(apps[0]):
            if x.get('kind') == 'VarDecl' and x.get('inner'):
                decls[x['id']] = x
        seen = {}
        for call in _walk(apps[0]):
            if call.get('kind') not in ('CallExpr', 'CXXMemberCallExpr'):
                continue
            c = call['inner'][0]
            while c.get('kind') == 'ImplicitCastExpr':
                c = c['inner'][0]
            if c.get('referencedDecl', {}).get('name') != '_appendData' and c.get('name') != '_appendData':
                continue
            args = call['inner'][1:]
            ds = [x.get('name') for x in _walk(args[0]) if x.get('kind') == 'MemberExpr']
            if not ds:
                continue
            src = args[1]
            # follow a local (auto mean_q = ps.getMoment(0,0); ... mean_q.origin())
            for x in _walk(src):
                if x.get('kind') == 'DeclRefExpr' and x.get('referencedDecl', {}).get('id') in decls:
                    src = decls[x['referencedDecl']['id']]
            acc = None
            for nm in set(v[0] for v in self.APPEND_SOURCES.values()):
                cs = self._calls(src, nm)
                if cs:
                    acc = (nm, self._ints(cs[0]))
            seen[ds[0]] = acc
        for ds, want in sorted(self.APPEND_SOURCES.items()):
            got = seen.get(ds)
            ok = got is not None and got[0] == want[0] and got[1][:len(want[1])] == want[1]
            o = Obligation(f'HDF5File::append#source.{ds}', {'C10'}, [], z3.BoolVal(bool(ok)), 'postcondition', None,
                           f'dataset {ds} must be appended from {want[0]}({",".join(map(str, want[1]))}); found {got}')
            ex.obls.append(o)
        # ---- one record per append call (the row counters of the control skeleton rely on it): in every append
        # overload except appendRFKicks the record-count argument of _appendData must be left at its default (1)
        for fname, fl in tu.funcs.items():
            short = fname.split('::')[-1]
            if not fname.startswith('vfps::HDF5File::') or short not in ('append', 'appendTracks', 'appendPadded'):
                continue
            for fdef in fl:
                k_ = 0
                for call in _walk(fdef):
                    if call.get('kind') not in ('CallExpr', 'CXXMemberCallExpr'):
                        continue
                    c = call['inner'][0]
                    while c.get('kind') == 'ImplicitCastExpr':
                        c = c['inner'][0]
                    if c.get('referencedDecl', {}).get('name') != '_appendData' and c.get('name') != '_appendData':
                        continue
                    args = call['inner'][1:]
                    dsn = [x.get('name') for x in _walk(args[0]) if x.get('kind') == 'MemberExpr']
                    k_ += 1
                    one = len(args) < 3 or args[2].get('kind') == 'CXXDefaultArgExpr' or (args[2].get('kind') == 'IntegerLiteral' and args[2].get('value') == '1')
                    o = Obligation(f'HDF5File::{short}/{len(params(fdef))}#one_record.{dsn[0] if dsn else k_}', {'C10', 'C14'}, [], z3.BoolVal(bool(one)), 'postcondition', None,
                                   'each call appends exactly one record to the dataset (record count argument left at 1)')
                    ex.obls.append(o)
        # ---- constructor: axis datasets
        ctors = tu.funcs.get('vfps::HDF5File::HDF5File', [])
        if len(ctors) != 1:
            raise ExtractionError('HDF5File constructor not found')
        found = {}
        for call in self._calls(ctors[0], 'write'):
            recv = call['inner'][0]['inner'][0]
            names = [x.get('name') for x in _walk(recv) if x.get('kind') == 'MemberExpr']
            for ds in self.AXIS_SOURCES:
                if ds in names:
                    ga = self._calls(call, 'getAxis')
                    found[ds] = self._ints(ga[0])[:1] if ga else None
        for ds, want in sorted(self.AXIS_SOURCES.items()):
            got = found.get(ds)
            o = Obligation(f'HDF5File::HDF5File#axis.{ds}', {'C10'}, [], z3.BoolVal(got == [want]), 'postcondition', None,
                           f'{ds} must hold the grid coordinates of axis {want}; written from getAxis({got})')
            ex.obls.append(o)
        ex.oblig(st, 'canary', z3.BoolVal(False), 'canary', set())
        info = {'unit': 'vfps::HDF5File (constructor axis writes, append(ps,t,at))', 'file': self.tu, 'sha': tu.sha, 'cases': 1, 'lines': [None, None], 'extract_s': 0,
                'note': 'AST facts only: which accessor feeds which dataset; the HDF5 library calls themselves are trusted'}
        return [ex], info
