"""Contracts for the impedance classes (src/Z)."""
from .common import *


def Z_valid(cx, obj):
    return And(cx.len(obj + '._data') == cx.f(obj + '._nfreqs', 'u64'))


# =========================================================================== U20
class ImpedanceAddAssign(Contract):
    replay = lambda self, o, model, pid: z_replay_spec(model)
    name = 'vfps::Impedance::operator+='
    tu = 'src/Z/Impedance.cpp'
    params = ['rhs']
    tags = {'C16', 'C17'}
    ghosts = {'k': 'int'}
    returns_ref = True

    def requires(self, cx):
        # NOTE: no requirement on the length of rhs — an impedance read from a file has any length (C17)
        return [('valid', Z_valid(cx, cx.this or 'this'))]

    def assigns(self, cx):
        return [('r', cx.R('this._data'))]

    def summed(self, cx, k, leaf):
        o = cx.arg('rhs').name
        both = And(k >= 0, k < cx.f('this._nfreqs', 'u64'), k < cx.len(o + '._data'))
        return If(both, cx.old.sel('this._data', k, leaf) + cx.old.sel(o + '._data', k, leaf), cx.old.sel('this._data', k, leaf))

    def ensures(self, cx):
        k = cx.g('k')
        inr = And(k >= 0, k < cx.f('this._nfreqs', 'u64'))
        return [('sum.re', {'C16'}, Implies(inr, cx.sel('this._data', k, 're') == self.summed(cx, k, 're'))),
                ('sum.im', {'C16'}, Implies(inr, cx.sel('this._data', k, 'im') == self.summed(cx, k, 'im'))),
                ('size', {'C16', 'C17'}, And(cx.len('this._data') == cx.old.len('this._data'), cx.f('this._nfreqs', 'u64') == cx.old.f('this._nfreqs', 'u64')))]

    def _inv(self, cx):
        i, k = cx.v('i'), cx.g('k')
        n = cx.f('this._nfreqs', 'u64')
        o = cx.arg('rhs').name
        return [('range', And(i >= 0)),
                ('done.re', Implies(And(k >= 0, k < i, k < n), cx.sel('this._data', k, 're') == self.summed(cx, k, 're'))),
                ('done.im', Implies(And(k >= 0, k < i, k < n), cx.sel('this._data', k, 'im') == self.summed(cx, k, 'im'))),
                ('todo', Implies(And(k >= i, k < n), And(cx.sel('this._data', k, 're') == cx.old.sel('this._data', k, 're'), cx.sel('this._data', k, 'im') == cx.old.sel('this._data', k, 'im')))),
                ('rhs', And(cx.arr(o + '._data', 're') == cx.old.arr(o + '._data', 're'), cx.arr(o + '._data', 'im') == cx.old.arr(o + '._data', 'im')))]

    @property
    def loops(self):
        l = LoopSpec(inv=self._inv)
        l.split = split_ghost('i', 'k')
        return {'i#0': l}


# =========================================================================== U19 models
def z_replay_spec(model):
    ns = [v for k, v in model.items() if k in ('arg:n',) and isinstance(v, int) and 2 <= v <= 4096]
    return {'harness': 'ef_replay', 'runs': [['z', n] for n in (ns + [7, 8, 9, 255, 256, 257])]}


class CalcImpedanceBase(Contract):
    """common shape: exactly n samples, zero above n/2, non-negative real part (C16)"""
    replay = lambda self, o, model, pid: z_replay_spec(model)
    tags = {'C16', 'C17'}
    ghosts = {'k': 'int'}
    nname = 'n'

    def requires(self, cx):
        return [('n', And(cx.a(self.nname) >= 2, cx.a(self.nname) < 2 ** 32))] + self.domain(cx)

    def domain(self, cx):
        return []

    def rv(self, cx):
        return 'local:rv'

    def sel(self, cx, k, leaf):
        return z3.Select(cx.st.array(self.rv(cx), leaf, parse_type_str('float')), k)

    def value(self, cx, k):
        return None

    def ensures(self, cx):
        n, k = cx.a(self.nname), cx.g('k')
        out = [('size', {'C16', 'C17'}, cx.st.len_of(self.rv(cx)) == n),
               ('returns_rv', {'C16'}, z3.BoolVal(isinstance(cx.ret, ObjRef) and cx.ret.name == self.rv(cx))),
               ('upper_zero', {'C16'}, Implies(And(k > n / 2, k < n), And(self.sel(cx, k, 're') == 0, self.sel(cx, k, 'im') == 0))),
               ('passive', {'C16', 'C07'}, Implies(And(k >= 0, k < n), self.sel(cx, k, 're') >= 0))]
        v = self.value(cx, k)
        if v is not None:
            out.append(('law', {'C16'}, Implies(And(k >= 0, k <= n / 2), And(self.sel(cx, k, 're') == v[0], self.sel(cx, k, 'im') == v[1]))))
        return out

    def _inv_lower(self, cx):
        n, i, k = cx.a(self.nname), cx.v('i'), cx.g('k')
        out = [('range', And(i >= 0, i <= n / 2 + 1)), ('len', cx.st.len_of(self.rv(cx)) == i),
               ('passive', Implies(And(k >= 0, k < i), self.sel(cx, k, 're') >= 0))] + self.extra_inv(cx)
        v = self.value(cx, k)
        if v is not None:
            out.append(('law', Implies(And(k >= 0, k < i), And(self.sel(cx, k, 're') == v[0], self.sel(cx, k, 'im') == v[1]))))
        return out

    def _inv_upper(self, cx):
        n, i, k = cx.a(self.nname), cx.v('i'), cx.g('k')
        out = [('range', And(i >= n / 2 + 1, Or(i <= n, i == n / 2 + 1))), ('len', cx.st.len_of(self.rv(cx)) == i),
               ('passive', Implies(And(k >= 0, k <= n / 2), self.sel(cx, k, 're') >= 0)),
               ('zero', Implies(And(k > n / 2, k < i), And(self.sel(cx, k, 're') == 0, self.sel(cx, k, 'im') == 0)))] + self.extra_inv(cx)
        v = self.value(cx, k)
        if v is not None:
            out.append(('law', Implies(And(k >= 0, k <= n / 2), And(self.sel(cx, k, 're') == v[0], self.sel(cx, k, 'im') == v[1]))))
        return out

    def extra_inv(self, cx):
        return []

    @property
    def loops(self):
        a, b = LoopSpec(inv=self._inv_lower), LoopSpec(inv=self._inv_upper)
        a.split = split_ghost('i', 'k')
        b.split = split_ghost('i', 'k')
        return {'i#0': a, 'i#1': b}


POW = models.uf('pow', 2)
SQRT = models.uf('sqrt')


class FreeSpaceCSRCalc(CalcImpedanceBase):
    name = 'vfps::FreeSpaceCSR::__calcImpedance'
    tu = 'src/Z/FreeSpaceCSR.cpp'
    params = ['n', 'f_rev', 'f_max']

    def domain(self, cx):
        return [('freqs', And(cx.a('f_rev') > 0, cx.a('f_max') > 0))]

    def value(self, cx, k):
        """cube-root growth with frequency: Z0 * (k*delta)^(1/3), delta = f_max/f_rev/(n-1)"""
        delta = cx.a('f_max') / cx.a('f_rev') / z3.ToReal(cx.a('n') - 1)
        w = POW(z3.ToReal(k) * delta, z3.RealVal(1) / 3)
        return (Rq(3063, 10) * w, Rq(1769, 10) * w)

    def extra_inv(self, cx):
        return [('delta', cx.v('delta') == cx.a('f_max') / cx.a('f_rev') / z3.ToReal(cx.a('n') - 1))]


def free_consts(t, acc=None):
    """names of the uninterpreted constants a term depends on"""
    acc = set() if acc is None else acc
    seen, todo = set(), [t]
    while todo:
        e = todo.pop()
        if e.get_id() in seen:
            continue
        seen.add(e.get_id())
        if z3.is_const(e) and e.decl().kind() == z3.Z3_OP_UNINTERPRETED:
            acc.add(e.decl().name())
        todo.extend(e.children())
    return acc


RW_PREF = z3.Function('RW_PREF', *([z3.RealSort()] * 6))


class ResistiveWallCalc(CalcImpedanceBase):
    name = 'vfps::ResistiveWall::__calcImpedance'
    tu = 'src/Z/ResistiveWall.cpp'
    params = ['n', 'f0', 'f_max', 'L', 's', 'xi', 'b']
    uf_mul = 'sign'

    def pref(self, cx):
        """RW_PREF(f0,L,s,xi,b) names the frequency-independent prefactor the code computes from exactly these
        parameters (definitional: introduced where Z1 is declared, after checking what its term depends on)"""
        return RW_PREF(cx.a('f0'), cx.a('L'), cx.a('s'), cx.a('xi'), cx.a('b'))

    @property
    def domain_after(self):
        def define(cx):
            z1 = cx.val('Z1')
            deps = free_consts(z1.fields['re'].t) | free_consts(z1.fields['im'].t)
            allowed = {'arg:f0', 'arg:L', 'arg:s', 'arg:xi', 'arg:b', 'const:PI'}
            if not deps <= allowed:
                raise ExtractionError(f'ResistiveWall prefactor Z1 depends on {sorted(deps - allowed)}: the definitional symbol RW_PREF(f0,L,s,xi,b) does not cover that')
            return z1.fields['re'].t == self.pref(cx)
        return {'Z1': define}

    def domain(self, cx):
        # what the factory guards before building this model
        return [('guards', And(cx.a('s') > 0, cx.a('xi') >= -1, cx.a('f0') > 0, cx.a('f_max') > 0, cx.a('L') > 0, cx.a('b') > 0,
                               models.uf_const('PI') > 3))]

    def value(self, cx, k):
        """square-root growth with frequency, resistive and inductive part of equal size (1 - j)"""
        delta = cx.a('f_max') / cx.a('f0') / (z3.ToReal(cx.a('n')) - 1)
        w = SQRT(models.FMUL(z3.ToReal(k), cx.v('delta') if self._has_delta(cx) else delta))
        return (models.FMUL(self.pref(cx), w), models.FMUL(-self.pref(cx), w))

    @staticmethod
    def _has_delta(cx):
        return any(nm == 'delta' and vid in cx.st.env for vid, nm in cx.st.names.items())

    def bounded_defs(self, cx, K):
        # bounded re-check: the loop counter is a numeral there, and a product with a numeral is evaluated as the real product;
        # the uninterpreted product of the law agrees with it on numerals (instances of fmul(c, y) == c*y)
        delta = cx.a('f_max') / cx.a('f0') / (z3.ToReal(cx.a('n')) - 1)
        return [models.FMUL(z3.RealVal(j), delta) == j * delta for j in range(K + 2)] + \
               [models.FMUL(z3.ToReal(z3.IntVal(j)), delta) == j * delta for j in range(K + 2)]

    def extra_inv(self, cx):
        z1 = cx.val('Z1')
        return [('delta', cx.v('delta') == cx.a('f_max') / cx.a('f0') / (z3.ToReal(cx.a('n')) - 1)),
                ('z1', And(z1.fields['re'].t >= 0, z1.fields['im'].t == -z1.fields['re'].t, z1.fields['re'].t == self.pref(cx)))]

    def ensures(self, cx):
        out = [o for o in CalcImpedanceBase.ensures(self, cx)]
        return out


class ConstImpedanceCalc(CalcImpedanceBase):
    name = 'vfps::ConstImpedance::__calcImpedance'
    tu = 'src/Z/ConstImpedance.cpp'
    params = ['n', 'Z']
    loops = {}

    def domain(self, cx):
        return [('passive', cx.arg('Z').fields['re'].t >= 0)]

    def ensures(self, cx):
        n, k = cx.a('n'), cx.g('k')
        z = cx.arg('Z')
        out = [o for o in CalcImpedanceBase.ensures(self, cx)]
        out.append(('const', {'C16'}, Implies(And(k >= 0, k < n / 2), And(self.sel(cx, k, 're') == z.fields['re'].t, self.sel(cx, k, 'im') == z.fields['im'].t))))
        return out


# =========================================================================== Impedance constructors (U20)
M_IMP_RULER = '_ZN4vfps9ImpedanceC1EONS_5RulerIfEERKSt6vectorISt7complexIfESaIS6_EEDn'
M_IMP_VEC = '_ZN4vfps9ImpedanceC1ERKSt6vectorISt7complexIfESaIS3_EEfDn'
M_IMP_ZERO = '_ZN4vfps9ImpedanceC1EmfDn'
M_IMP_FILE = '_ZN4vfps9ImpedanceC1ENSt7__cxx1112basic_stringIcSt11char_traitsIcESaIcEEEdDn'


def imp_copy_posts(cx, src, tags=frozenset({'C16', 'C17'})):
    """the object holds exactly the samples of `src` (a vector region of the pre-state)"""
    k = cx.g('k')
    n = cx.old.len(src)
    inr = And(k >= 0, k < n)
    return [('nfreqs', set(tags), cx.f('this._nfreqs', 'u64') == n),
            ('len', set(tags), cx.len('this._data') == n),
            ('copy.re', {'C16'}, Implies(inr, cx.sel('this._data', k, 're') == cx.old.sel(src, k, 're'))),
            ('copy.im', {'C16'}, Implies(inr, cx.sel('this._data', k, 'im') == cx.old.sel(src, k, 'im')))]


class ImpedanceCtorRuler(Contract):
    """Impedance(Ruler&&, const vector&, oclh): the basic constructor every other one delegates to"""
    name = 'vfps::Impedance::Impedance'
    tu = 'src/Z/Impedance.cpp'
    mangled = M_IMP_RULER
    params = ['axis', 'z', 'oclh']
    tags = {'C16', 'C17'}
    ghosts = {'k': 'int'}

    def assigns(self, cx):
        return [('s', 'this._nfreqs'), ('r', 'this._data'), ('len', 'this._data'), ('s', 'this._axis'), ('s', 'this._oclh')]

    def init__axis(self, ex, st, e):
        # Ruler(const Ruler&) copies the axis (a frequency ruler is not read by any unit under contract)
        st.scal['this._axis'] = ex.args0['axis']

    def init__oclh(self, ex, st, e):
        st.scal['this._oclh'] = Opaque('oclh')

    def ensures(self, cx):
        return imp_copy_posts(cx, cx.arg('z').name)


class RulerTemp:
    """call-site binding for the frequency ruler temporaries: Ruler<frequency_t>(steps,0,f_max,{{"Hertz",1}}).
    The frequency axis of an impedance is not read by any unit under contract; only its step count is kept."""

    def __call__(self, ex, n, st, objn, argn, this_override=None):
        steps = ex.ev(argn[0], st)
        st.scal[this_override + '._steps'] = IntV(ex.wrap(steps.t, parse_type_str('unsigned int')), parse_type_str('unsigned int'))
        return ObjRef(this_override, 'vfps::Ruler<float>')


def imp_ctor_calls(k_of=lambda cx: cx.ghost_of('k')):
    return {'ctor:vfps::Ruler<float>': RulerTemp(),
            'ctor:vfps::Impedance/3': None}


class ImpedanceCtorVec(Contract):
    """Impedance(const vector& z, f_max, oclh) -> Impedance(Ruler(z.size(),0,f_max), z, oclh)"""
    name = 'vfps::Impedance::Impedance'
    tu = 'src/Z/Impedance.cpp'
    mangled = M_IMP_VEC
    params = ['z', 'f_max', 'oclh']
    tags = {'C16', 'C17'}
    ghosts = {'k': 'int'}

    def assigns(self, cx):
        return [('s', 'this._nfreqs'), ('r', 'this._data'), ('len', 'this._data'), ('s', 'this._axis'), ('s', 'this._oclh')]

    @property
    def calls(self):
        return {'ctor:vfps::Ruler<float>': RulerTemp(),
                'ctor:vfps::Impedance': Use(ImpedanceCtorRuler(), inst=lambda cx: [{'k': cx.ghost_of('k')}])}

    def ensures(self, cx):
        return imp_copy_posts(cx, cx.arg('z').name)


class ImpedanceCtorZero(Contract):
    """Impedance(nfreqs, f_max, oclh): nfreqs zero samples"""
    name = 'vfps::Impedance::Impedance'
    tu = 'src/Z/Impedance.cpp'
    mangled = M_IMP_ZERO
    params = ['nfreqs', 'f_max', 'oclh']
    tags = {'C16', 'C17'}
    ghosts = {'k': 'int'}

    def assigns(self, cx):
        return [('s', 'this._nfreqs'), ('r', 'this._data'), ('len', 'this._data'), ('s', 'this._axis'), ('s', 'this._oclh')]

    calls = ImpedanceCtorVec.calls

    def ensures(self, cx):
        k, n = cx.g('k'), cx.a('nfreqs')
        inr = And(k >= 0, k < n)
        return [('nfreqs', {'C16', 'C17'}, cx.f('this._nfreqs', 'u64') == n),
                ('len', {'C16', 'C17'}, cx.len('this._data') == n),
                ('zero', {'C16'}, Implies(inr, And(cx.sel('this._data', k, 're') == 0, cx.sel('this._data', k, 'im') == 0)))]


# =========================================================================== constructors of the impedance models
def calc_use(calc_cls):
    """call-site view of a __calcImpedance contract: the returned vector is a fresh region"""
    class CalcUse(calc_cls):
        def rv(self, cx):
            return 'ret:' + calc_cls.__name__

        def result(self, cx):
            return ObjRef(self.rv(cx), 'std::vector<std::complex<float>>')

        def effect(self, cx):
            from vf.state import State
            st = cx.st
            st.havoc_region(self.rv(cx))
            st.length[self.rv(cx)] = State.fresh(f'len({self.rv(cx)})', z3.IntSort())
            st.assume(st.length[self.rv(cx)] >= 0)
    CalcUse.__name__ = calc_cls.__name__ + 'Use'
    return CalcUse


def model_ctor(calc_cls, qualname, tu, ctor_params, nparams=None):
    """contract of a model class constructor  `: Impedance(__calcImpedance(args...), f_max, oclh)`:
    the object holds exactly what __calcImpedance returns for the SAME arguments — so it inherits the shape,
    passivity and value posts of the calculation, restated on this._data"""
    class Ctor(calc_cls):
        name = qualname
        params = ctor_params
        loops = {}

        def sel(self, cx, k, leaf):
            return cx.sel('this._data', k, leaf)

        def assigns(self, cx):
            return [('s', 'this._nfreqs'), ('r', 'this._data'), ('len', 'this._data'), ('s', 'this._axis'), ('s', 'this._oclh')]

        @property
        def calls(self):
            inst = lambda cx: [{'k': cx.ghost_of('k')}, {'k': I(0)}]
            return {calc_cls.name: Use(calc_use(calc_cls)(), inst=inst),
                    'ctor:vfps::Impedance': Use(ImpedanceCtorVec(), inst=inst),
                    'ctor:vfps::ConstImpedance': Use(ConstImpedanceCtor(), inst=inst) if qualname.endswith('CollimatorImpedance') else None}

        def ensures(self, cx):
            n, k = cx.a(self.nname), cx.g('k')
            out = []
            for lab, tags, f in calc_cls.ensures(self, cx):
                if lab == 'returns_rv':
                    continue
                if lab == 'size':
                    f = And(cx.len('this._data') == n, cx.f('this._nfreqs', 'u64') == n)
                out.append((lab, tags, f))
            return out
    Ctor.tu = tu
    Ctor.nparams = nparams or len(ctor_params)
    Ctor.__name__ = calc_cls.__name__.replace('Calc', '') + 'Ctor'
    return Ctor


FreeSpaceCSRCtor = model_ctor(FreeSpaceCSRCalc, 'vfps::FreeSpaceCSR::FreeSpaceCSR', 'src/Z/FreeSpaceCSR.cpp', ['n', 'f_rev', 'f_max', 'oclh'])
ResistiveWallCtor = model_ctor(ResistiveWallCalc, 'vfps::ResistiveWall::ResistiveWall', 'src/Z/ResistiveWall.cpp', ['n', 'f0', 'f_max', 'L', 's', 'xi', 'b', 'oclh'])
ConstImpedanceCtor = model_ctor(ConstImpedanceCalc, 'vfps::ConstImpedance::ConstImpedance', 'src/Z/ConstImpedance.cpp', ['n', 'f_max', 'Z', 'oclh'])


LOG = models.uf('log')


class CollimatorCtor(Contract):
    """CollimatorImpedance(n, f_max, outer, inner): a positive constant resistance Z0/pi * ln(outer/inner) on the
    lower half (C16), built through ConstImpedance"""
    name = 'vfps::CollimatorImpedance::CollimatorImpedance'
    tu = 'src/Z/CollimatorImpedance.cpp'
    params = ['n', 'f_max', 'outer', 'inner', 'oclh']
    tags = {'C16', 'C17'}
    ghosts = {'k': 'int'}

    def requires(self, cx):
        # what the factory guards: 0 < inner < outer
        return [('n', And(cx.a('n') >= 2, cx.a('n') < 2 ** 32)),
                ('radii', And(cx.a('inner') > 0, cx.a('outer') > cx.a('inner'))),
                ('pi', models.uf_const('PI') > 3)]

    def assigns(self, cx):
        return [('s', 'this._nfreqs'), ('r', 'this._data'), ('len', 'this._data'), ('s', 'this._axis'), ('s', 'this._oclh')]

    @property
    def calls(self):
        return {'ctor:vfps::ConstImpedance': Use(ConstImpedanceCtor(), inst=lambda cx: [{'k': cx.ghost_of('k')}])}

    def resistance(self, cx):
        return Rq(376730313461, 10 ** 9) / models.uf_const('PI') * LOG(cx.a('outer') / cx.a('inner'))

    def ensures(self, cx):
        n, k = cx.a('n'), cx.g('k')
        re, im = cx.sel('this._data', k, 're'), cx.sel('this._data', k, 'im')
        return [('size', {'C16', 'C17'}, And(cx.len('this._data') == n, cx.f('this._nfreqs', 'u64') == n)),
                ('upper_zero', {'C16'}, Implies(And(k > n / 2, k < n), And(re == 0, im == 0))),
                ('passive', {'C16', 'C07'}, Implies(And(k >= 0, k < n), re >= 0)),
                ('constant_resistance', {'C16'}, Implies(And(k >= 0, k < n / 2), And(re == self.resistance(cx), im == 0))),
                ('positive', {'C16'}, Implies(And(k >= 0, k < n / 2), re > 0))]


class ParallelPlatesCalc(CalcImpedanceBase):
    """ParallelPlatesCSR::__calcImpedance: shape and passivity.  Re(zinc) = Ai'(u)^2 + u*Ai(u)^2 >= 0 for u >= 0 is pure
    sign algebra over the uninterpreted Airy functions; the prefactor is a product of non-negative terms."""
    name = 'vfps::ParallelPlatesCSR::__calcImpedance'
    tu = 'src/Z/ParallelPlatesCSR.cpp'
    safety_tags = {'C17', 'C16'}        # "finite samples" (C16): a pole of pow or a division by zero makes a sample infinite or NaN
    params = ['nfreqs', 'f0', 'f_max', 'g']
    nname = 'nfreqs'
    uf_mul = 'sign'

    def domain(self, cx):
        # factory guard: gap > 0; frequencies positive; the number of waveguide modes 2*f*g/c fits the mode counter
        return [('guards', And(cx.a('g') > 0, cx.a('f0') > 0, cx.a('f_max') > 0, models.uf_const('PI') > 3))]

    # the number of waveguide modes 2*f*gap/c (a double) is converted to uint32_t: representable for every physical
    # configuration (gap*f_max < 3e17 m/s); stated as a domain assumption on the converted value, listed in evidence
    domain_values = {'maxp': (lambda cx, t: And(t >= 0, t < 2 ** 31), 'number of waveguide modes 2*f*gap/c below 2^31 (VacuumGap*f_max < 3e17 m/s)')}

    def ensures(self, cx):
        n, k = cx.a(self.nname), cx.g('k')
        return [o for o in CalcImpedanceBase.ensures(self, cx)] + \
               [('dc_zero', {'C16'}, And(self.sel(cx, 0, 're') == 0, self.sel(cx, 0, 'im') == 0))]

    def _inv_i(self, cx):
        n, i, k = cx.a(self.nname), cx.v('i'), cx.g('k')
        return [('range', And(i >= 1, i <= n / 2 + 1)),
                ('len', cx.st.len_of(self.rv(cx)) == n),
                ('passive', Implies(And(k >= 0, k < n), self.sel(cx, k, 're') >= 0)),
                ('todo', Implies(And(k >= i, k < n), And(self.sel(cx, k, 're') == 0, self.sel(cx, k, 'im') == 0))),
                ('dc', And(self.sel(cx, 0, 're') == 0, self.sel(cx, 0, 'im') == 0)),
                ('consts', And(cx.v('delta') >= 0, cx.v('r_bend') > 0))]

    def _inv_p(self, cx):
        Z = cx.val('Z')
        return [('re', Z.fields['re'].t >= 0), ('p', And(cx.v('p') >= 1, cx.v('p') <= cx.v('maxp') + 3, cx.v('maxp') < 2 ** 31)), ('b', cx.v('b') >= 0), ('m', cx.v('m') >= 0), ('n', cx.v('n') >= 0)]

    @property
    def loops(self):
        a, b = LoopSpec(inv=self._inv_i), LoopSpec(inv=self._inv_p)
        a.split = split_ghost('i', 'k')
        return {'i#0': a, 'p#0': b}


ParallelPlatesCtor = model_ctor(ParallelPlatesCalc, 'vfps::ParallelPlatesCSR::ParallelPlatesCSR', 'src/Z/ParallelPlatesCSR.cpp', ['nfreqs', 'f0', 'f_max', 'g', 'oclh'])


# =========================================================================== U21 the factory
RS_ = z3.RealSort()
IS_ = z3.IntSort()


def model_val(name, nargs):
    """MODEL(args..., k, leaf): sample k of the impedance the model class constructor builds for these arguments.
    Definitional: the constructor is a deterministic function of its arguments (its own contract is verified from
    parameters and literals only); the symbol lets the factory post say WHICH model with WHICH arguments was added."""
    return z3.Function('Z_' + name, *([RS_] * nargs + [IS_, IS_, RS_]))


Z_PP, Z_FS, Z_RW, Z_CO = model_val('ParallelPlates', 4), model_val('FreeSpace', 3), model_val('ResistiveWall', 7), model_val('Collimator', 4)
Z_FILE = z3.Function('Z_File', IS_, IS_, RS_)          # contents of the impedance file (arbitrary)
LEAF = {'re': I(0), 'im': I(1)}


class ModelTemp(Use):
    """temporary of a model class inside the factory: the constructor contract (preconditions proved, shape/law posts
    assumed) plus the definitional value symbol"""

    def __init__(self, contract, fn, argnames):
        Use.__init__(self, contract, inst=lambda cx: [{'k': cx.ghost_of('k')}])
        self.fn, self.argnames = fn, argnames

    def __call__(self, ex, n, st, objn, argn, this_override=None):
        r = Use.__call__(self, ex, n, st, objn, argn, this_override=this_override)
        cx = Ctx(ex, st, st, ex.args0)
        k = ex.unit_ghosts['k']
        vals = []
        for a in argn[:len(self.argnames)]:
            v = ex.ev(a, st)
            vals.append(z3.ToReal(v.t) if isinstance(v, IntV) else v.t)
        for lf in ('re', 'im'):
            st.assume(z3.Select(st.array(this_override + '._data', lf, parse_type_str('float')), k) == self.fn(*(vals + [k, LEAF[lf]])))
        return ObjRef(this_override, self.c.name.rsplit('::', 1)[0])


class FileTemp:
    """Impedance(impedance_file, fmax): whatever the file holds — any number of samples (readData is not under
    contract: iostream parsing); the object is well formed (_nfreqs == _data.size(), by the delegating constructors)"""

    def __call__(self, ex, n, st, objn, argn, this_override=None):
        from vf.state import State
        t = this_override
        ln = z3.Int('arg:impedance_file_samples')       # an input of the factory: how many samples the file holds
        st.assume(ln >= 0)
        st.length[t + '._data'] = ln
        st.scal[t + '._nfreqs'] = IntV(ln, parse_type_str('unsigned long'))
        k = z3.Int('k!file')
        for lf in ('re', 'im'):
            st.arr[(t + '._data', lf)] = z3.Lambda([k], Z_FILE(k, LEAF[lf]))
            st.leafct[(t + '._data', lf)] = parse_type_str('float')
        return ObjRef(t, 'vfps::Impedance')


class ImpedanceSwap(Contract):
    """Impedance::swap exchanges the sample tables and nothing else — in particular NOT the sample counts: after swapping two
    impedances of different length nFreqs() no longer describes the table (callers must not rely on it; the factory, which is
    the only place main combines impedances, uses operator+= only — see MakeImpedance)"""
    name = 'vfps::Impedance::swap'
    tu = 'src/Z/Impedance.cpp'
    params = ['other']
    tags = {'C16', 'C17'}
    ghosts = {'k': 'int'}

    def assigns(self, cx):
        o = cx.arg('other').name
        return [('r', cx.R('this._data')), ('len', cx.R('this._data')), ('r', o + '._data'), ('len', o + '._data')]

    def ensures(self, cx):
        o = cx.arg('other').name
        k = cx.g('k')
        out = [('lengths', {'C16', 'C17'}, And(cx.len('this._data') == cx.old.len(o + '._data'), cx.len(o + '._data') == cx.old.len('this._data'))),
               ('counts_untouched', {'C17'}, And(cx.f('this._nfreqs', 'u64') == cx.old.f('this._nfreqs', 'u64'), cx.f(o + '._nfreqs', 'u64') == cx.old.f(o + '._nfreqs', 'u64')))]
        for lf in ('re', 'im'):
            out.append((f'this.{lf}', {'C16'}, Implies(And(k >= 0, k < cx.old.len(o + '._data')), cx.sel('this._data', k, lf) == cx.old.sel(o + '._data', k, lf))))
            out.append((f'other.{lf}', {'C16'}, Implies(And(k >= 0, k < cx.old.len('this._data')), cx.sel(o + '._data', k, lf) == cx.old.sel('this._data', k, lf))))
        return out


class ImpedanceAssign(Contract):
    """Impedance::operator= (copy and swap): the table becomes the argument's, the sample count stays what it was"""
    name = 'vfps::Impedance::operator='
    tu = 'src/Z/Impedance.cpp'
    params = ['other']
    tags = {'C16', 'C17'}
    ghosts = {'k': 'int'}
    returns_ref = True

    def assigns(self, cx):
        o = cx.arg('other').name
        return [('r', cx.R('this._data')), ('len', cx.R('this._data')), ('r', o + '._data'), ('len', o + '._data')]

    def ensures(self, cx):
        o = cx.arg('other').name
        k = cx.g('k')
        out = [('length', {'C16', 'C17'}, cx.len('this._data') == cx.old.len(o + '._data')),
               ('count_untouched', {'C17'}, cx.f('this._nfreqs', 'u64') == cx.old.f('this._nfreqs', 'u64'))]
        for lf in ('re', 'im'):
            out.append((f'table.{lf}', {'C16'}, Implies(And(k >= 0, k < cx.old.len(o + '._data')), cx.sel('this._data', k, lf) == cx.old.sel(o + '._data', k, lf))))
        return out

    @property
    def calls(self):
        return {'vfps::Impedance::swap': Use(ImpedanceSwap(), inst=lambda cx: [{'k': cx.ghost_of('k')}])}


class AssignOrReset:
    """`rv = nullptr` (the result pointer is reset) or `*rv = <Impedance>` (Impedance::operator= by its contract)"""

    def __call__(self, ex, n, st, objn, argn, this_override=None):
        from vf.unit import _walk
        if any(x.get('kind') == 'CXXNullPtrLiteralExpr' for x in _walk(argn[0])):
            return ResetToNull()(ex, n, st, objn, argn, this_override)
        return Use(ImpedanceAssign(), inst=lambda cx: [{'k': cx.ghost_of('k')}])(ex, n, st, objn, argn, this_override)


class MakeUniqueImpedance(Use):
    """std::make_unique<Impedance>(nfreqs, fmax, oclh): heap object built by the zero constructor"""

    def __init__(self):
        Use.__init__(self, ImpedanceCtorZero(), inst=lambda cx: [{'k': cx.ghost_of('k')}])

    def __call__(self, ex, n, st, objn, argn, this_override=None):
        Use.__call__(self, ex, n, st, None, argn, this_override='heap:rv')
        return ObjRef('heap:rv', 'std::unique_ptr<vfps::Impedance>', null=z3.BoolVal(False))


class ResetToNull:
    """rv = nullptr"""

    def __call__(self, ex, n, st, objn, argn, this_override=None):
        a = ex.ev(argn[0], st)
        if not (isinstance(a, PtrV) and a.region is None):
            raise ExtractionError(f'{ex.unit}: assignment to the result pointer from something other than nullptr (line {ex.curline})')
        d = objn
        while d.get('kind') in ('ImplicitCastExpr', 'ParenExpr'):
            d = d['inner'][0]
        vid = d.get('referencedDecl', {}).get('id')
        cur = st.env.get(vid)
        if not isinstance(cur, ObjRef):
            raise ExtractionError(f'{ex.unit}: operator= on {cur}')
        st.env[vid] = ObjRef(cur.name, cur.cls, null=z3.BoolVal(True))
        ex.logw(('v', vid))
        return VoidV()


class ResetNoArg:
    """rv.reset(): the same as rv = nullptr; reset(p) with an argument is not part of the factory as contracted"""

    def __call__(self, ex, n, st, objn, argn, this_override=None):
        if [a for a in argn if a.get('kind') != 'CXXDefaultArgExpr']:
            raise ExtractionError(f'{ex.unit}: reset() of the result pointer with an argument (line {ex.curline})')
        d = objn
        while d.get('kind') in ('ImplicitCastExpr', 'ParenExpr'):
            d = d['inner'][0]
        vid = d.get('referencedDecl', {}).get('id')
        cur = st.env.get(vid)
        if not isinstance(cur, ObjRef):
            raise ExtractionError(f'{ex.unit}: reset() on {cur}')
        st.env[vid] = ObjRef(cur.name, cur.cls, null=z3.BoolVal(True))
        ex.logw(('v', vid))
        return VoidV()


class StringIsEmpty:
    """impedance_file.empty(): the negation of the factory input `a file name is given`"""

    def __call__(self, ex, n, st, objn, argn, this_override=None):
        return BoolV(z3.Not(z3.Bool('arg:impedance_file_given')))


class StringNonEmpty:
    """impedance_file != "" : an input of the factory"""

    def __call__(self, ex, n, st, objn, argn, this_override=None):
        return BoolV(z3.Bool('arg:impedance_file_given'))


def _num(v, dflt):
    if isinstance(v, list) and len(v) == 2:
        try:
            return float(v[0]) / float(v[1])
        except Exception:
            return dflt
    if isinstance(v, bool):
        return 1.0 if v else 0.0
    if isinstance(v, (int, float)):
        return float(v)
    return dflt


FACTORY_SWEEP = [['factory', n_, gap_, csr_, s_, 0.0, inner_, file_, 1.0, 2.7e6]
                 for n_ in (16, 17) for gap_ in (0.032, -0.032, 0.0) for csr_ in (0, 1) for s_ in (0.0, 3.5e7)
                 for inner_ in (-1.0, 0.005, 0.05) for file_ in (0, 1)]


def factory_replay_spec(model):
    """the refuting model as arguments of the real makeImpedance (sizes and magnitudes brought into a range the real
    classes can evaluate), followed by the fixed sweep"""
    m = model or {}
    gap = _num(m.get('arg:gap'), 0.032)
    gap = 0.0 if gap == 0 else (0.032 if gap > 0 else -0.032)
    s_ = 3.5e7 if _num(m.get('arg:s'), 0.0) > 0 else 0.0
    xi = -2.0 if _num(m.get('arg:xi'), 0.0) < -1 else 0.0
    inner = _num(m.get('arg:inner_coll_radius'), -1.0)
    inner = -1.0 if inner <= 0 else (0.005 if (gap != 0 and inner < abs(gap) / 2 or _num(m.get('arg:gap'), 1.0) == 0) and inner < abs(_num(m.get('arg:gap'), 1.0)) / 2 else 0.05)
    first = ['factory', 16, gap, int(_num(m.get('arg:use_csr'), 0)), s_, xi, inner, int(_num(m.get('arg:impedance_file_given'), 0)), 1.0, 2.7e6]
    return {'harness': 'ef_replay', 'runs': [first] + FACTORY_SWEEP}


class MakeImpedance(Contract):
    replay = lambda self, o, model, pid: factory_replay_spec(model)
    name = 'vfps::makeImpedance'
    tu = 'src/Z/ImpedanceFactory.cpp'
    params = ['nfreqs', 'oclh', 'fmax', 'R_bend', 'frev', 'gap', 'use_csr', 's', 'xi', 'inner_coll_radius', 'impedance_file']
    tags = {'C16', 'C17'}
    ghosts = {'k': 'int'}
    uf_mul = False

    def requires(self, cx):
        # documented domain: at least two frequency samples, positive frequencies and bending radius; the mode-count
        # bound of the parallel-plates model is its own stated domain assumption
        return [('n', And(cx.a('nfreqs') >= 2, cx.a('nfreqs') < 2 ** 32)),
                ('freqs', And(cx.a('fmax') > 0, cx.a('frev') > 0, cx.a('R_bend') > 0)),
                ('pi', models.uf_const('PI') > 3)]

    def assigns(self, cx):
        return []

    @property
    def calls(self):
        inst = lambda cx: [{'k': cx.ghost_of('k')}]
        return {'make_unique': MakeUniqueImpedance(),
                'ctor:vfps::ParallelPlatesCSR': ModelTemp(ParallelPlatesCtor(), Z_PP, ['nfreqs', 'f0', 'f_max', 'g']),
                'ctor:vfps::FreeSpaceCSR': ModelTemp(FreeSpaceCSRCtor(), Z_FS, ['n', 'f_rev', 'f_max']),
                'ctor:vfps::ResistiveWall': ModelTemp(ResistiveWallCtor(), Z_RW, ['n', 'f0', 'f_max', 'L', 's', 'xi', 'b']),
                'ctor:vfps::CollimatorImpedance': ModelTemp(CollimatorCtor(), Z_CO, ['n', 'f_max', 'outer', 'inner']),
                'ctor:vfps::Impedance': FileTemp(),
                'vfps::Impedance::operator+=': Use(ImpedanceAddAssign(), inst=inst),
                'operator+=': Use(ImpedanceAddAssign(), inst=inst),
                'operator!=': StringNonEmpty(), 'empty': StringIsEmpty(), 'reset': ResetNoArg(),
                'operator=': AssignOrReset(),
                'printText': lambda ex, n, st, objn, argn, this_override=None: VoidV()}

    # ---- the statement: "the factory returns the sum of the selected contributions (or nothing when none is selected)"
    def selected(self, cx):
        a = cx.a
        gap, radius = a('gap'), If(a('gap') / 2 >= 0, a('gap') / 2, -a('gap') / 2)
        return {'pp': And(gap != 0, a('use_csr') != 0, gap > 0),
                'fs': And(gap != 0, a('use_csr') != 0, Not(gap > 0)),
                'rw': And(gap != 0, a('s') > 0, a('xi') >= -1),
                'co': And(gap != 0, 0 < a('inner_coll_radius'), a('inner_coll_radius') < radius),
                'file': z3.Bool('arg:impedance_file_given')}, radius

    def expected(self, cx, k, lf):
        a = cx.a
        n = z3.ToReal(a('nfreqs'))
        sel, radius = self.selected(cx)
        c = Rq(299792458)
        f0 = c / (2 * models.uf_const('PI') * a('R_bend'))          # CSR models take the bending-magnet frequency
        L = LEAF[lf]
        t = If(sel['pp'], Z_PP(n, f0, a('fmax'), a('gap'), k, L), 0) \
            + If(sel['fs'], Z_FS(n, f0, a('fmax'), k, L), 0) \
            + If(sel['rw'], Z_RW(n, a('frev'), a('fmax'), c / a('frev'), a('s'), a('xi'), radius, k, L), 0) \
            + If(sel['co'], Z_CO(n, a('fmax'), radius, a('inner_coll_radius'), k, L), 0)
        return t, sel

    def ensures(self, cx):
        k, n = cx.g('k'), cx.a('nfreqs')
        sel, _ = self.selected(cx)
        anysel = Or(*sel.values())
        r = cx.ret
        if isinstance(r, PtrV) and r.region is None:
            # a literal `return nullptr`: allowed exactly when nothing is selected
            return [('null_iff_nothing_selected', {'C16'}, Not(anysel))]
        if not isinstance(r, ObjRef):
            raise ExtractionError(f'makeImpedance: return value {r} is neither the impedance object nor nullptr')
        isnull = r.null if r.null is not None else z3.BoolVal(False)
        out = [('null_iff_nothing_selected', {'C16'}, isnull == Not(anysel))]
        data = r.name + '._data'
        flen = cx.len('tmp:file._data') if False else None
        inr = And(Not(isnull), k >= 0, k < n)
        out.append(('size', {'C16', 'C17'}, Implies(Not(isnull), And(cx.len(data) == n, cx.f(r.name + '._nfreqs', 'u64') == n))))
        for lf in ('re', 'im'):
            e, _s = self.expected(cx, k, lf)
            got = cx.sel(data, k, lf)
            # the file contribution: its samples are added where it has any (index below its own length)
            fl = z3.Int('arg:impedance_file_samples')
            out.append((f'sum_of_selected.{lf}', {'C16'},
                        Implies(inr, got == e + If(And(sel['file'], k < fl), Z_FILE(k, LEAF[lf]), 0))))
            out.append((f'sum_without_file.{lf}', {'C16'}, Implies(And(inr, Not(sel['file'])), got == e)))
        out.append(('passive_without_file', {'C16', 'C07'}, Implies(And(inr, Not(sel['file'])), cx.sel(data, k, 're') >= 0)))
        out.append(('upper_zero_without_file', {'C16'}, Implies(And(inr, Not(sel['file']), k > n / 2), And(cx.sel(data, k, 're') == 0, cx.sel(data, k, 'im') == 0))))
        return out


# =========================================================================== Impedance::readData (impedance file, C17)
class ImpedanceReadData(Contract):
    """readData(fname): for EVERY content of the file (empty, malformed, any number of lines, trailing newline) no value is
    used that was not read, and the result is a well-formed vector (any length).  std::istream is modelled by its fail/eof
    flags (specs/ps.py IStream)."""
    name = 'vfps::Impedance::readData'
    tu = 'src/Z/Impedance.cpp'
    params = ['fname']
    tags = {'C17'}
    replay = lambda self, o, model, pid: {'harness': 'ef_replay', 'runs': [['zfile']]}

    def assigns(self, cx):
        return [('s', 'ghost.*'), ('s', 'init:*')]

    @property
    def calls(self):
        from .ps import IStream
        noop = lambda ex, n, st, objn, argn, this_override=None: VoidV()
        return {'operator>>': IStream.extract, 'good': IStream.good, 'operator bool': IStream.as_bool, 'fail': IStream.failed,
                'ctor:std::basic_ifstream<char>': lambda ex, n, st, objn, argn, this_override=None: ObjRef(this_override, 'std::ifstream'),
                'ctor:std::ifstream': lambda ex, n, st, objn, argn, this_override=None: ObjRef(this_override, 'std::ifstream'),
                'max': lambda ex, n, st, objn, argn, this_override=None: IntV(I(2 ** 64 - 1), parse_type_str('unsigned long')),
                'close': noop}

    def ensures(self, cx):
        return [('returns_vector', {'C17'}, z3.BoolVal(isinstance(cx.ret, ObjRef)))]

    @property
    def loops(self):
        l = LoopSpec(inv=lambda cx: [('len', cx.st.len_of(cx.val('rv').name) >= 0)])
        return {'while#0': l}


# =========================================================================== ResistiveWall: absolute scale of the prefactor
class ResistiveWallScale(Contract):
    """ResistiveWall::__calcImpedance, the statements that compute the frequency-independent prefactor Z1 ("correctly scaled", C16):

        Z1 = (1 - j) * sqrt( Z0 * mu_r * f0 / (sigma * pi * c) ) * L / (2 b),     mu_r = 1 + xi

    (first harmonic of the classical thick-wall impedance (1-j) L/(2 pi b) sqrt(mu0 mu_r omega /(2 sigma)) at omega = 2 pi f0).
    The law of the samples (ResistiveWallCalc) is stated in terms of this prefactor; here it is tied to the formula, in REAL
    arithmetic with sqrt as an uninterpreted function constrained by sqrt(x) >= 0 and sqrt(x)^2 == x for the arguments that occur,
    so that an algebraically equivalent way of writing it (e.g. through the skin depth) verifies as well."""
    name = 'vfps::ResistiveWall::__calcImpedance'
    tu = 'src/Z/ResistiveWall.cpp'
    params = ['n', 'f0', 'f_max', 'L', 's', 'xi', 'b']
    tags = {'C16'}
    slice_from = 'mu_r'
    slice_until = 'delta'
    replay = lambda self, o, model, pid: z_replay_spec(model)

    def short(self):
        return 'ResistiveWall::prefactor'

    def requires(self, cx):
        # what the factory guards before building this model; xi > -1: at xi == -1 the formula gives a zero impedance
        return [('guards', And(cx.a('s') > 0, cx.a('xi') >= -1, cx.a('f0') > 0, cx.a('f_max') > 0, cx.a('L') > 0, cx.a('b') > 0))]

    def assigns(self, cx):
        return [('s', 'ghost.*')]

    def ensures(self, cx):
        z1 = cx.val('Z1')
        re, im = z1.fields['re'].t, z1.fields['im'].t
        PI = models.uf_const('PI')
        Z0c = z3.RealVal(models.CONST_GLOBALS['vfps::physcons::Z0'])
        c = z3.RealVal(models.CONST_GLOBALS['vfps::physcons::c'])
        a = cx.a
        # axioms for every sqrt application in the term (ideal arithmetic): non-negative, squares to its argument
        ax = [PI > 3, PI < 4]
        seen, todo = set(), [re, im]
        while todo:
            e = todo.pop()
            if e.get_id() in seen:
                continue
            seen.add(e.get_id())
            if z3.is_app(e) and e.decl().name() == SQRT(z3.RealVal(1)).decl().name():
                x = e.arg(0)
                ax += [Implies(x >= 0, And(e >= 0, e * e == x))]
            todo.extend(e.children())
        # Z0 = 1/(epsilon0 c) = 376.7303134... Ohm: the literal the compiler folded and the rational of the model agree to 1e-9
        lhs = re * re * (a('s') * PI * c) * (4 * a('b') * a('b'))
        rhs1 = (1 + a('xi')) * a('f0') * a('L') * a('L')
        law = And(re >= 0, im == -re, lhs >= Z0c * (1 - Rq(1, 10 ** 9)) * rhs1, lhs <= Z0c * (1 + Rq(1, 10 ** 9)) * rhs1)
        return [('prefactor_is_the_thick_wall_formula', {'C16'}, Implies(And(*ax), law))]
