"""Contracts for the impedance classes (src/Z)."""
from .common import *


def Z_valid(cx, obj):
    return And(cx.len(obj + '._data') == cx.f(obj + '._nfreqs', 'u64'))


# =========================================================================== U20
class ImpedanceAddAssign(Contract):
    replay = lambda self, o, model, pid: z_replay_spec(model)
    name = 'vfps::Impedance::operator+='
    tu = 'src/Z/Impedance.cpp'
    params = ['rhs']
    tags = {'C16', 'C17'}
    ghosts = {'k': 'int'}
    returns_ref = True

    def requires(self, cx):
        # NOTE: no requirement on the length of rhs — an impedance read from a file has any length (C17)
        return [('valid', Z_valid(cx, cx.this or 'this'))]

    def assigns(self, cx):
        return [('r', cx.R('this._data'))]

    def summed(self, cx, k, leaf):
        o = cx.arg('rhs').name
        both = And(k >= 0, k < cx.f('this._nfreqs', 'u64'), k < cx.len(o + '._data'))
        return If(both, cx.old.sel('this._data', k, leaf) + cx.old.sel(o + '._data', k, leaf), cx.old.sel('this._data', k, leaf))

    def ensures(self, cx):
        k = cx.g('k')
        inr = And(k >= 0, k < cx.f('this._nfreqs', 'u64'))
        return [('sum.re', {'C16'}, Implies(inr, cx.sel('this._data', k, 're') == self.summed(cx, k, 're'))),
                ('sum.im', {'C16'}, Implies(inr, cx.sel('this._data', k, 'im') == self.summed(cx, k, 'im'))),
                ('size', {'C16', 'C17'}, And(cx.len('this._data') == cx.old.len('this._data'), cx.f('this._nfreqs', 'u64') == cx.old.f('this._nfreqs', 'u64')))]

    def _inv(self, cx):
        i, k = cx.v('i'), cx.g('k')
        n = cx.f('this._nfreqs', 'u64')
        o = cx.arg('rhs').name
        return [('range', And(i >= 0)),
                ('done.re', Implies(And(k >= 0, k < i, k < n), cx.sel('this._data', k, 're') == self.summed(cx, k, 're'))),
                ('done.im', Implies(And(k >= 0, k < i, k < n), cx.sel('this._data', k, 'im') == self.summed(cx, k, 'im'))),
                ('todo', Implies(And(k >= i, k < n), And(cx.sel('this._data', k, 're') == cx.old.sel('this._data', k, 're'), cx.sel('this._data', k, 'im') == cx.old.sel('this._data', k, 'im')))),
                ('rhs', And(cx.arr(o + '._data', 're') == cx.old.arr(o + '._data', 're'), cx.arr(o + '._data', 'im') == cx.old.arr(o + '._data', 'im')))]

    @property
    def loops(self):
        l = LoopSpec(inv=self._inv)
        l.split = split_ghost('i', 'k')
        return {'i#0': l}


# =========================================================================== U19 models
def z_replay_spec(model):
    ns = [v for k, v in model.items() if k in ('arg:n',) and isinstance(v, int) and 2 <= v <= 4096]
    return {'harness': 'ef_replay', 'runs': [['z', n] for n in (ns + [7, 8, 9, 255, 256, 257])]}


class CalcImpedanceBase(Contract):
    """common shape: exactly n samples, zero above n/2, non-negative real part (C16)"""
    replay = lambda self, o, model, pid: z_replay_spec(model)
    tags = {'C16', 'C17'}
    ghosts = {'k': 'int'}
    nname = 'n'

    def requires(self, cx):
        return [('n', And(cx.a(self.nname) >= 2, cx.a(self.nname) < 2 ** 32))] + self.domain(cx)

    def domain(self, cx):
        return []

    def rv(self, cx):
        return 'local:rv'

    def sel(self, cx, k, leaf):
        return z3.Select(cx.st.array(self.rv(cx), leaf, parse_type_str('float')), k)

    def value(self, cx, k):
        return None

    def ensures(self, cx):
        n, k = cx.a(self.nname), cx.g('k')
        out = [('size', {'C16', 'C17'}, cx.st.len_of(self.rv(cx)) == n),
               ('returns_rv', {'C16'}, z3.BoolVal(isinstance(cx.ret, ObjRef) and cx.ret.name == self.rv(cx))),
               ('upper_zero', {'C16'}, Implies(And(k > n / 2, k < n), And(self.sel(cx, k, 're') == 0, self.sel(cx, k, 'im') == 0))),
               ('passive', {'C16', 'C07'}, Implies(And(k >= 0, k < n), self.sel(cx, k, 're') >= 0))]
        v = self.value(cx, k)
        if v is not None:
            out.append(('law', {'C16'}, Implies(And(k >= 0, k <= n / 2), And(self.sel(cx, k, 're') == v[0], self.sel(cx, k, 'im') == v[1]))))
        return out

    def _inv_lower(self, cx):
        n, i, k = cx.a(self.nname), cx.v('i'), cx.g('k')
        out = [('range', And(i >= 0, i <= n / 2 + 1)), ('len', cx.st.len_of(self.rv(cx)) == i),
               ('passive', Implies(And(k >= 0, k < i), self.sel(cx, k, 're') >= 0))] + self.extra_inv(cx)
        v = self.value(cx, k)
        if v is not None:
            out.append(('law', Implies(And(k >= 0, k < i), And(self.sel(cx, k, 're') == v[0], self.sel(cx, k, 'im') == v[1]))))
        return out

    def _inv_upper(self, cx):
        n, i, k = cx.a(self.nname), cx.v('i'), cx.g('k')
        out = [('range', And(i >= n / 2 + 1, Or(i <= n, i == n / 2 + 1))), ('len', cx.st.len_of(self.rv(cx)) == i),
               ('passive', Implies(And(k >= 0, k <= n / 2), self.sel(cx, k, 're') >= 0)),
               ('zero', Implies(And(k > n / 2, k < i), And(self.sel(cx, k, 're') == 0, self.sel(cx, k, 'im') == 0)))] + self.extra_inv(cx)
        v = self.value(cx, k)
        if v is not None:
            out.append(('law', Implies(And(k >= 0, k <= n / 2), And(self.sel(cx, k, 're') == v[0], self.sel(cx, k, 'im') == v[1]))))
        return out

    def extra_inv(self, cx):
        return []

    @property
    def loops(self):
        a, b = LoopSpec(inv=self._inv_lower), LoopSpec(inv=self._inv_upper)
        a.split = split_ghost('i', 'k')
        b.split = split_ghost('i', 'k')
        return {'i#0': a, 'i#1': b}


POW = models.uf('pow', 2)
SQRT = models.uf('sqrt')


class FreeSpaceCSRCalc(CalcImpedanceBase):
    name = 'vfps::FreeSpaceCSR::__calcImpedance'
    tu = 'src/Z/FreeSpaceCSR.cpp'
    params = ['n', 'f_rev', 'f_max']

    def domain(self, cx):
        return [('freqs', And(cx.a('f_rev') > 0, cx.a('f_max') > 0))]

    def value(self, cx, k):
        """cube-root growth with frequency: Z0 * (k*delta)^(1/3), delta = f_max/f_rev/(n-1)"""
        delta = cx.a('f_max') / cx.a('f_rev') / z3.ToReal(cx.a('n') - 1)
        w = POW(z3.ToReal(k) * delta, z3.RealVal(1) / 3)
        return (Rq(3063, 10) * w, Rq(1769, 10) * w)

    def extra_inv(self, cx):
        return [('delta', cx.v('delta') == cx.a('f_max') / cx.a('f_rev') / z3.ToReal(cx.a('n') - 1))]


class ResistiveWallCalc(CalcImpedanceBase):
    name = 'vfps::ResistiveWall::__calcImpedance'
    tu = 'src/Z/ResistiveWall.cpp'
    params = ['n', 'f0', 'f_max', 'L', 's', 'xi', 'b']
    uf_mul = 'sign'

    def domain(self, cx):
        # what the factory guards before building this model
        return [('guards', And(cx.a('s') > 0, cx.a('xi') >= -1, cx.a('f0') > 0, cx.a('f_max') > 0, cx.a('L') > 0, cx.a('b') > 0,
                               models.uf_const('PI') > 3))]

    def value(self, cx, k):
        """square-root growth with frequency, resistive and inductive part of equal size (1 - j)"""
        delta = cx.a('f_max') / cx.a('f0') / (z3.ToReal(cx.a('n')) - 1)
        w = SQRT(models.FMUL(z3.ToReal(k), cx.v('delta') if self._has_delta(cx) else delta))
        try:
            z1 = cx.val('Z1')
        except ExtractionError:
            return None
        return (models.FMUL(z1.fields['re'].t, w), models.FMUL(z1.fields['im'].t, w))

    @staticmethod
    def _has_delta(cx):
        return any(nm == 'delta' and vid in cx.st.env for vid, nm in cx.st.names.items())

    def extra_inv(self, cx):
        z1 = cx.val('Z1')
        return [('delta', cx.v('delta') == cx.a('f_max') / cx.a('f0') / (z3.ToReal(cx.a('n')) - 1)),
                ('z1', And(z1.fields['re'].t >= 0, z1.fields['im'].t == -z1.fields['re'].t))]

    def ensures(self, cx):
        out = [o for o in CalcImpedanceBase.ensures(self, cx) if o[0] != 'law']
        return out


class ConstImpedanceCalc(CalcImpedanceBase):
    name = 'vfps::ConstImpedance::__calcImpedance'
    tu = 'src/Z/ConstImpedance.cpp'
    params = ['n', 'Z']
    loops = {}

    def domain(self, cx):
        return [('passive', cx.arg('Z').fields['re'].t >= 0)]

    def ensures(self, cx):
        n, k = cx.a('n'), cx.g('k')
        z = cx.arg('Z')
        out = [o for o in CalcImpedanceBase.ensures(self, cx)]
        out.append(('const', {'C16'}, Implies(And(k >= 0, k < n / 2), And(self.sel(cx, k, 're') == z.fields['re'].t, self.sel(cx, k, 'im') == z.fields['im'].t))))
        return out
