"""Contracts on slices of main() (src/main.cpp): the configuration arithmetic (U23)."""
from .common import *

PI = models.uf_const('PI')


class UpperPow2(Contract):
    """vfps::upper_power_of_two: proved bit-precisely for all inputs by the CBMC leaf check (cbmc/upper_power_of_two)"""
    name = 'vfps::upper_power_of_two'
    tu = 'src/HelperFunctions.cpp'
    params = ['v']

    def requires(self, cx):
        return [('range', And(cx.a('v') >= 1, cx.a('v') <= 2 ** 63))]

    def result(self, cx):
        r = z3.Int(f'pow2!{id(cx)}')
        cx.st.assume(And(r >= cx.a('v'), r < 2 * cx.a('v'), r <= 2 ** 63))
        return IntV(r, parse_type_str('unsigned long'))


class MainConfig(Contract):
    name = 'main'
    tu = 'src/main.cpp'
    tu_filter = 'main'
    aux_tus = [('src/main.cpp', 'vfps::'), ('src/IO/ProgramOptions.cpp', 'vfps::')]      # option accessors defined out of line are inlined from their own file
    params = ['argc', 'argv']
    tags = {'C03', 'C04', 'C05', 'C06', 'C17'}
    ghosts = {'g': 'int', 'g2': 'int'}
    slice_targets = ['spacing_bins', 'padded_bins', 'spaced_bins', 'bucketnumbers', 'nbunches', 'nbuckets', 'angle', 'steps', 'dt', 'revolutionpart', 'ps_bins']
    slice_stop = 'startdistfile'
    slice_externals = {'opts': 'vfps::ProgramOptions'}
    canary = True

    def o(self, cx, name, kind='real'):
        return cx.f('opts.' + name, kind)

    def requires(self, cx):
        o = self.o
        N = o(cx, 'meshsize', 'int')
        fsz = cx.len('opts.I_b')
        # documented option domain: grid of at least 2 cells, positive machine parameters, a sane number of buckets
        return [('domain', And(N >= 2, N <= 65535, fsz >= 1, fsz <= 4096,
                               o(cx, 'pq_size') > 0, o(cx, 'E_0') > 0, o(cx, 's_E') > 0, o(cx, 'f0') > 0, o(cx, 'H') >= 1, o(cx, 'V_RF') > 0,
                               o(cx, 'padding') <= 1024, PI > 3, PI < 4))]

    # documented domain of derived configuration values (C17: "buckets not overlapping", lengths that fit the index types)
    domain_after = {
        'spacing_ps': lambda cx: And(cx.v('spacing_ps') >= 1, cx.v('spacing_ps') * z3.ToReal(cx.v('ps_bins')) * 4096 < 2 ** 31),
        'steps': lambda cx: cx.v('steps') > 0,
        'fs': lambda cx: cx.v('fs') != 0,
    }

    def post_state(self, cx):
        v = cx.v
        return v

    def ensures(self, cx):
        v = cx.v
        g, g2 = cx.g('g'), cx.g('g2')
        nbunches, nbuckets, N = v('nbunches'), v('nbuckets'), v('ps_bins')
        bn = cx.st.array('local:bucketnumbers', '', parse_type_str('unsigned int'))
        nfreq = If(nbuckets > 1, v('spaced_bins'), v('padded_bins'))
        out = [('buckets.count', {'C17', 'C06'}, And(cx.st.len_of('local:bucketnumbers') == nbunches, nbunches <= nbuckets)),
               ('buckets.range', {'C17', 'C06'}, Implies(And(g >= 0, g < nbunches), And(z3.Select(bn, g) >= 0, z3.Select(bn, g) <= nbuckets - 1))),
               ('buckets.decreasing', {'C17', 'C06', 'C18'}, Implies(And(g >= 0, g < g2, g2 < nbunches), z3.Select(bn, g) > z3.Select(bn, g2))),
               # every bunch fits into the padded buffer at its bucket position (precondition of ElectricField::padBunchProfiles)
               ('pad.fits', {'C17', 'C06'}, Implies(And(g >= 0, g < nbunches, cx.v('spacing_ps') >= 1), z3.Select(bn, g) * v('spacing_bins') + N <= nfreq)),
               ('pad.width', {'C17'}, v('padded_bins') >= N),
               ('angle', {'C03'}, v('angle') == 2 * PI / v('steps')),
               ('dt', {'C05', 'C03'}, And(v('dt') == 1 / (v('fs') * v('steps')), v('revolutionpart') == v('f_rev') * v('dt')))]
        return out

    def _inv_fill(self, cx):
        i = cx.v('i')
        g, g2 = cx.g('g'), cx.g('g2')
        st = cx.st
        bn = st.array('local:bucketnumbers', '', parse_type_str('unsigned int'))
        nbk = st.len_of('local:filling')
        lb = st.len_of('local:bucketnumbers')
        return [('range', And(i >= 0, i <= nbk)), ('len', And(lb <= i, lb == st.len_of('local:bunches'))),
                ('fill_len', nbk == cx.old.len('opts.I_b')),
                ('values', Implies(And(g >= 0, g < lb), And(z3.Select(bn, g) <= nbk - 1, z3.Select(bn, g) > nbk - 1 - i, z3.Select(bn, g) >= 0))),
                ('decreasing', Implies(And(g >= 0, g < g2, g2 < lb), z3.Select(bn, g) > z3.Select(bn, g2)))]

    @property
    def loops(self):
        return {'i#0': LoopSpec(inv=self._inv_fill)}

    calls = {'vfps::upper_power_of_two': Use(UpperPow2()), 'upper_power_of_two': Use(UpperPow2())}


class MainPhysics(MainConfig):
    """second slice: slip factors of the drift and the damping decrement"""
    tags = {'C03', 'C04', 'C05'}
    slice_targets = ['slip', 'e1', 'angle', 'steps', 'fs', 't_damp']
    slice_stop = 'wake_impedance'
    ghosts = {}
    loops = {}

    def ensures(self, cx):
        v = cx.v
        sl = cx.st.array('local:slip', '', parse_type_str('float'))
        # C05: the drift and the RF kick advance the synchrotron phase by the same angle per step (the dtheta of the Haissinski relation)
        return [('slip0', {'C03', 'C05'}, And(cx.st.len_of('local:slip') == 3, z3.Select(sl, 0) == v('angle'))),
                ('angle', {'C03', 'C05'}, v('angle') == 2 * PI / v('steps')),
                ('e1', {'C04'}, Implies(v('t_damp') > 0, v('e1') == 2 / (v('fs') * v('t_damp') * v('steps'))))]


class MainGrid(MainConfig):
    """third slice: the bounds of the phase-space grid.  Both axes span PhaseSpaceSize (with GridSize points each: equal cell sizes --
    the linear RF kick is tan(angle) * (distance from the centre IN CELLS) applied as a shift IN CELLS of the other axis, which is
    the rotation of C03 / the RF focusing of C05 only if a cell is as wide as it is high), centred at minus the requested shift."""
    tags = {'C03', 'C05'}
    slice_targets = ['qmin', 'qmax', 'pmin', 'pmax', 'ps_bins']
    slice_stop = 'startdistfile'
    ghosts = {}
    loops = {}
    domain_after = {}

    def ensures(self, cx):
        v, o = cx.v, self.o
        size = o(cx, 'pq_size')
        N1 = z3.ToReal(v('ps_bins')) - 1
        return [('both_axes_span_PhaseSpaceSize', {'C03', 'C05'}, And(v('qmax') - v('qmin') == size, v('pmax') - v('pmin') == size)),
                ('centred_at_minus_the_shift', {'C03', 'C05'}, And((v('qmax') + v('qmin')) * N1 == -2 * o(cx, 'meshshiftx') * size,
                                                                  (v('pmax') + v('pmin')) * N1 == -2 * o(cx, 'meshshifty') * size))]


class MainVoltage(Contract):
    """main(): from the accelerating voltage to the synchrotron frequency (C17).  Everything main derives next (synchrotron
    frequency, momentum compaction, natural bunch length, the frequency range of the impedance, every map) divides by
    V_eff = sqrt(V_RF^2 - V0^2), V0 the radiation loss per turn: a run goes on only if that square root is taken of a positive
    number.  (With V_RF <= V0 it is NaN or 0; the bunch length becomes NaN, the impedance is sampled up to a NaN frequency and the
    parallel-plates model loops over a NaN number of modes -- the program neither completes nor stops with a message.)"""
    name = 'main'
    tu = 'src/main.cpp'
    tu_filter = 'main'
    aux_tus = [('src/main.cpp', 'vfps::')]
    params = ['argc', 'argv']
    tags = {'C17'}
    slice_from = 'V_RF'
    slice_until = 'alpha'
    slice_externals = {'opts': 'vfps::ProgramOptions'}
    replay = lambda self, o, model, pid: {'driver': 'main', 'scenarios': ['voltage']}

    def requires(self, cx):
        return []

    def slice_setup(self, ex, st):
        # documented domain of the other machine parameters the slice reads (beam energy, revolution frequency, harmonic number)
        a = ex.args0
        for need in ('E0', 'f_rev', 'harmonic_number'):
            if need not in a:
                raise ExtractionError(f'main: variable {need} not found before the accelerating voltage is read')
        st.assume(And(a['E0'].t > 0, a['f_rev'].t > 0, a['harmonic_number'].t >= 1, models.uf_const('PI') > 3, models.uf_const('PI') < 4))

    def assigns(self, cx):
        return [('s', 'ghost.*'), ('s', 'arg:*')]

    @property
    def calls(self):
        noop = lambda ex, n, st, objn, argn, this_override=None: VoidV()
        strv = lambda ex, n, st, objn, argn, this_override=None: Opaque('string')
        ss = lambda ex, n, st, objn, argn, this_override=None: ObjRef(this_override, 'std::stringstream')
        return {'printText': noop, 'operator+': strv, 'operator<<': strv, 'str': strv,
                'ctor:std::basic_stringstream<char>': ss, 'ctor:std::stringstream': ss}

    def ensures(self, cx):
        if isinstance(cx.ret, IntV):
            return []           # the run was refused with a message
        v = cx.v
        arg = v('V_RF') * v('V_RF') - v('V0') * v('V0')
        # libm (IEEE): sqrt(x) > 0 only for x > 0 (sqrt of a negative number is NaN, which compares false; sqrt(0) = 0)
        from .z import SQRT
        ax = Implies(SQRT(arg) > 0, arg > 0)
        out = [('effective_voltage_is_a_positive_number', {'C17'}, Implies(ax, arg > 0))]
        # ... and with a synchrotron frequency that is a non-zero number: given, or computed as the square root of a positive
        # number (a momentum compaction factor that is not positive has none).  libm (ideal stand-in for IEEE, where every ordered
        # comparison with NaN is false): sqrt(x) >= 0, and sqrt(x) > 0 only for x > 0, for the square roots that occur
        fs = v('fs')
        axs, seen, todo = [], set(), [fs]
        name = SQRT(z3.RealVal(1)).decl().name()
        while todo:
            e = todo.pop()
            if e.get_id() in seen:
                continue
            seen.add(e.get_id())
            if z3.is_app(e) and e.decl().name() == name:
                axs += [e >= 0, Implies(e > 0, e.arg(0) > 0)]
            todo.extend(e.children())
        given = cx.old.f('arg:opts.f_s', 'real')
        radicand = v('alpha0_tmp') * v('harmonic_number') * v('V_eff') / (2 * models.uf_const('PI') * cx.a('E0'))
        out.append(('synchrotron_frequency_is_a_nonzero_number', {'C17'},
                    Implies(And(*axs), And(fs != 0, Implies(given == 0, And(arg > 0, cx.old.f('arg:opts.alpha0', 'real') > 0))))))
        return out


class MainTrackingFile(Contract):
    """main(): reading the particle tracking file (C15/C17).  For every content of the file — any number of values, malformed
    text, coordinates far outside the grid — each stored particle starts on the grid (0 <= x <= nx-1, 0 <= y <= ny-1): the
    precondition of every tracking map and of HDF5File::appendTracks.  std::istream as fail/eof flags (specs/ps.py)."""
    name = 'main'
    tu = 'src/main.cpp'
    tu_filter = 'main'
    aux_tus = [('src/main.cpp', 'vfps::')]
    params = ['argc', 'argv']
    tags = {'C15', 'C17'}
    ghosts = {'k': 'int'}
    slice_from = 'trackme'
    slice_until = 'hdf_file'        # everything between the declaration of the particle list and the preparation of the results file
    replay = lambda self, o, model, pid: {'driver': 'main', 'scenarios': ['tracking']} if 'kth_pair' in o.name or 'placed' in o.name else None

    def slice_setup(self, ex, st):
        from .common import PS_static, declare_ps, ps_globals
        from .sm import Ruler_valid
        cx = Ctx(ex, st, st, ex.args0)
        g = ex.args0.get('grid_t1')
        if not isinstance(g, ObjRef):
            raise ExtractionError('main: grid_t1 not found before the tracking file is read')
        self.grid = g.name
        nx, ny, nb = ps_globals(cx)
        st.assume(And(PS_static(cx), declare_ps(cx, g.name), Ruler_valid(cx, g.name + '._axis[0]', nx), Ruler_valid(cx, g.name + '._axis[1]', ny)))
        self.slice_ghosts(ex, st)

    def assigns(self, cx):
        return [('s', 'ghost.*'), ('s', 'init:*'), ('s', 'arg:*')]

    @property
    def calls(self):
        from .ps import IStream
        noop = lambda ex, n, st, objn, argn, this_override=None: VoidV()
        strv = lambda ex, n, st, objn, argn, this_override=None: Opaque('string')
        fresh_bool = lambda ex, n, st, objn, argn, this_override=None: BoolV(z3.Bool(f'str_cmp!{ex.curline}!{id(n) % 9973}'))
        return {'operator>>': IStream.extract, 'good': IStream.good, 'operator bool': IStream.as_bool, 'fail': IStream.failed,
                'getParticleTracking': strv, 'operator!=': fresh_bool, 'operator==': fresh_bool,
                'ctor:std::basic_ifstream<char>': lambda ex, n, st, objn, argn, this_override=None: ObjRef(this_override, 'std::ifstream'),
                'ctor:std::ifstream': lambda ex, n, st, objn, argn, this_override=None: ObjRef(this_override, 'std::ifstream'),
                'ctor:std::basic_stringstream<char>': lambda ex, n, st, objn, argn, this_override=None: ObjRef(this_override, 'std::stringstream'),
                'ctor:std::stringstream': lambda ex, n, st, objn, argn, this_override=None: ObjRef(this_override, 'std::stringstream'),
                'operator<<': strv, 'operator+': strv, 'str': strv, 'what': strv, 'printText': noop, 'clear': self._clear}

    @staticmethod
    def _clear(ex, n, st, objn, argn, this_override=None):
        o = ex.ev_obj(objn, st)
        st.length[o.name] = I(0)
        ex.logw(('len', o.name))
        return VoidV()

    def _placed(self, cx, k):
        """particle k is the k-th pair (q, p) of the file: q on the position axis, p on the energy axis, each clamped into the grid"""
        from .common import ps_globals
        from .sm import ruler_fields
        from .ps import IStream
        nx, ny, nb = ps_globals(cx)
        tm = cx.val('trackme').name
        tok = cx.arr(IStream.TOK)

        def on_axis(v, ax, n):
            r = ruler_fields(cx, f'{self.grid}._axis[{ax}]')
            raw = (v - r['mn']) / r['delta']
            hi = z3.ToReal(n) - 1
            return If(raw < 0, z3.RealVal(0), If(raw > hi, hi, raw))
        return And(cx.sel(tm, k, 'x') == on_axis(z3.Select(tok, 2 * k), 0, nx), cx.sel(tm, k, 'y') == on_axis(z3.Select(tok, 2 * k + 1), 1, ny))

    def slice_ghosts(self, ex, st):
        from .ps import IStream
        st.scal[IStream.POS] = IntV(I(0), parse_type_str('long'))

    def ensures(self, cx):
        from .common import ps_globals
        nx, ny, nb = ps_globals(cx)
        k = cx.g('k')
        tm = cx.val('trackme').name
        inr = And(k >= 0, k < cx.len(tm))
        return [('particles_start_on_grid', {'C15', 'C17'}, Implies(inr, And(cx.sel(tm, k, 'x') >= 0, cx.sel(tm, k, 'x') <= z3.ToReal(nx) - 1,
                                                                          cx.sel(tm, k, 'y') >= 0, cx.sel(tm, k, 'y') <= z3.ToReal(ny) - 1))),
                # C15: the tracked particle starts where the file says -- position on the position axis, energy on the energy axis
                ('particle_k_is_the_kth_pair_of_the_file', {'C15'}, Implies(inr, self._placed(cx, k)))]

    def _inv(self, cx):
        from .common import ps_globals
        from .ps import IStream
        nx, ny, nb = ps_globals(cx)
        k = cx.g('k')
        tm = cx.val('trackme').name
        inr = And(k >= 0, k < cx.len(tm))
        return [('len', cx.len(tm) >= 0), ('cursor', cx.st.scal[IStream.POS].t == 2 * cx.len(tm)),
                ('on_grid', Implies(inr, And(cx.sel(tm, k, 'x') >= 0, cx.sel(tm, k, 'x') <= z3.ToReal(nx) - 1, cx.sel(tm, k, 'y') >= 0, cx.sel(tm, k, 'y') <= z3.ToReal(ny) - 1))),
                ('placed', Implies(inr, self._placed(cx, k)))]

    @property
    def loops(self):
        return {'while#0': LoopSpec(inv=self._inv)}


class MainStartDistribution(Contract):
    """main(): from the declaration of grid_t1 to the scan for the highest cell (C17, C09): whichever way the start
    distribution is obtained — built-in Gaussian, HDF5 results file, text particle list — the grid that the rest of main
    works with has exactly GridSize x GridSize cells per bunch (every later size in main: padding, maps, output extents, is
    derived from GridSize), the PhaseSpace constructor gets one share per bunch, and the scan stays inside the grid."""
    name = 'main'
    tu = 'src/main.cpp'
    tu_filter = 'main'
    aux_tus = [('src/main.cpp', 'vfps::'), ('src/PS/PhaseSpace.cpp', 'vfps::')]
    params = ['argc', 'argv']
    tags = {'C17', 'C09', 'C11'}
    ghosts = {'k': 'int', 'n': 'int', 'x': 'int'}
    slice_from = 'grid_t1'
    slice_count = 7
    replay = lambda self, o, model, pid: {'driver': 'main', 'scenarios': ['restart']} if pid == 'C11' else None

    def slice_setup(self, ex, st):
        from .common import PS_NX, PS_NY, PS_NB, PS_NXY, PS_NXYB
        # facts of the statements before the slice (each checked on the AST): nbunches = bunches.size(); ps_bins = opts.getGridSize()
        fn = ex.fn
        from vf.unit import _walk
        facts = {'nbunches': 'size', 'ps_bins': 'getGridSize'}
        for vn, callee in facts.items():
            ok = False
            for d in _walk(fn):
                if d.get('kind') == 'VarDecl' and d.get('name') == vn:
                    ok = any(x.get('kind') == 'MemberExpr' and x.get('name') == callee for x in _walk(d))
            if not ok:
                raise ExtractionError(f'main: {vn} is no longer initialised from {callee}()')
        a = ex.args0
        for need in ('ps_bins', 'nbunches', 'bunches'):
            if need not in a:
                raise ExtractionError(f'main: variable {need} not found before the start distribution is built')
        st.assume(And(a['nbunches'].t == st.len_of(a['bunches'].name), a['nbunches'].t >= 1, a['ps_bins'].t >= 2, a['ps_bins'].t <= 65535,
                      a['ps_bins'].t * a['ps_bins'].t * a['nbunches'].t < 2 ** 32))
        # PhaseSpace::setSize has not been called yet (one-time setter; the globals are still zero)
        U32 = parse_type_str('unsigned int')
        for path in (PS_NX, PS_NY, PS_NB, PS_NXY, PS_NXYB):
            st.scal[path] = IntV(I(0), U32)
        st.scal['ghost.size_set'] = IntV(I(0), parse_type_str('int'))
        st.scal['ghost.h5_loader_called'] = IntV(I(0), parse_type_str('int'))
        st.scal['ghost.grid_origin'] = IntV(I(0), parse_type_str('int'))
        if 'qmax' in a and 'qmin' in a:
            st.assume(And(a['qmax'].t > a['qmin'].t, a['pmax'].t > a['pmin'].t))

    def assigns(self, cx):
        return [('s', 'ghost.*'), ('s', 'vfps::PhaseSpace::*'), ('s', 'arg:*'), ('r', 'heap:*'), ('len', 'heap:*'), ('s', 'heap:*')]

    @property
    def calls(self):
        from .common import PS_NX, PS_NY, PS_NB, PS_NXY, PS_NXYB, declare_ps, ps_globals
        from .ps import PhaseSpaceCtor12Use, PhaseSpaceCopyCtor, UpdateXProjection, Normalize
        from .sm import Ruler_valid
        U32 = parse_type_str('unsigned int')
        noop = lambda ex, n, st, objn, argn, this_override=None: VoidV()
        strv = lambda ex, n, st, objn, argn, this_override=None: Opaque('string')
        fresh_bool = lambda ex, n, st, objn, argn, this_override=None: BoolV(z3.Bool(f'cond!{ex.curline}!{id(n) % 99991}'))
        INST = lambda cx: [{'k': cx.ghost_of('k'), 'n': cx.ghost_of('n'), 'x': cx.ghost_of('x')}]

        def set_sizes(ex, st, x, b):
            """PhaseSpace::setSize(x, b): takes effect on the first call only"""
            first = st.scal['ghost.size_set'].t == 0
            xs, bs = ex.wrap(x, U32), ex.wrap(b, U32)
            for path, val in ((PS_NX, xs), (PS_NY, xs), (PS_NB, bs), (PS_NXY, ex.wrap(xs * xs, U32)), (PS_NXYB, ex.wrap(xs * xs * bs, U32))):
                st.scal[path] = IntV(If(first, val, st.scal[path].t), U32)
                ex.logw(('s', path))
            st.scal['ghost.size_set'] = IntV(I(1), parse_type_str('int'))
            ex.logw(('s', 'ghost.size_set'))

        def set_size(ex, n, st, objn, argn, this_override=None):
            x, b = ex.ev(argn[0], st), ex.ev(argn[1], st)
            set_sizes(ex, st, x.t, b.t)
            return VoidV()

        def loaded(ex, st, name, may_fail):
            """a phase space produced by one of the file loaders: class invariant for the sizes the loader set"""
            cx = Ctx(ex, st, st, ex.args0)
            nx, ny, nb = ps_globals(cx)
            st.assume(And(declare_ps(cx, name), Ruler_valid(cx, name + '._axis[0]', nx), Ruler_valid(cx, name + '._axis[1]', ny)))
            return ObjRef(name, 'std::unique_ptr<vfps::PhaseSpace>', null=z3.Bool(f'{name}==null') if may_fail else z3.BoolVal(False))

        def from_hdf5(ex, n, st, objn, argn, this_override=None):
            # contract of HDF5File::readPhaseSpace (specs/io.py ReadPhaseSpace) as seen through makePSFromHDF5: either nothing
            # (a message was printed), or a single-bunch phase space whose grid size is the one stored in the file
            for a_ in argn:
                try:
                    ex.ev(a_, st)
                except ExtractionError:
                    pass
            # the requested record (option InitialDistStep, negative = counted from the end) must reach the loader with its value:
            # compare the argument before and after the implicit conversion to the parameter type (C11)
            stepn = argn[1]
            inner = stepn
            while inner.get('kind') in ('ImplicitCastExpr',) and inner.get('castKind') in ('IntegralCast', 'NoOp', 'LValueToRValue'):
                inner = inner['inner'][0]
            try:
                v_out, v_in = ex.ev(stepn, st), ex.ev(inner, st)
                ex.oblig(st, 'start_step_reaches_loader_unchanged', v_out.t == v_in.t, 'postcondition', {'C11'},
                         'the InitialDistStep option value is passed to makePSFromHDF5 without a value-changing conversion (negative values select records from the end)')
            except ExtractionError:
                pass
            from vf.state import State
            nfile = State.fresh('h5.grid_size', z3.IntSort())
            st.assume(And(nfile >= 2, nfile <= 65535))
            set_sizes(ex, st, nfile, I(1))
            st.scal['ghost.h5_loader_called'] = IntV(I(1), parse_type_str('int'))
            ex.logw(('s', 'ghost.h5_loader_called'))
            r_ = loaded(ex, st, 'heap:PhaseSpace1', True)
            r_.origin = 2
            return r_

        def from_txt(ex, n, st, objn, argn, this_override=None):
            # makePSFromTXT(fname, ps_size, ...): PhaseSpace::setSize(ps_size, 1) and a phase space of that size
            ps_size = ex.ev(argn[1], st)
            for a_ in argn[2:]:
                try:
                    ex.ev(a_, st)
                except ExtractionError:
                    pass
            set_sizes(ex, st, ps_size.t, I(1))
            return loaded(ex, st, 'heap:PhaseSpace1', False)

        def reset(ex, n, st, objn, argn, this_override=None):
            from vf.vcg import LVar
            v = ex.ev(argn[0], st) if argn else None
            d = objn
            while d.get('kind') in ('ImplicitCastExpr', 'ParenExpr'):
                d = d['inner'][0]
            vid = (d.get('referencedDecl') or {}).get('id')
            if vid is None or not isinstance(v, ObjRef):
                raise ExtractionError('main: grid_t1.reset(...) with something that is not a new PhaseSpace')
            st.env[vid] = ObjRef(v.name, 'std::shared_ptr<vfps::PhaseSpace>', null=z3.BoolVal(False))
            ex.logw(('v', vid))
            if (d.get('referencedDecl') or {}).get('name') == 'grid_t1':
                st.scal['ghost.grid_origin'] = IntV(I(1), parse_type_str('int'))        # 1: built here (the default distribution)
                ex.logw(('s', 'ghost.grid_origin'))
            return VoidV()

        def assign_ptr(ex, n, st, objn, argn, this_override=None):
            # grid_t1 = <unique_ptr returned by a loader>
            v = ex.ev(argn[0], st) if parse_type(argn[0]['type']).kind != 'class' else ex.ev_obj(argn[0], st)
            d = objn
            while d.get('kind') in ('ImplicitCastExpr', 'ParenExpr'):
                d = d['inner'][0]
            vid = (d.get('referencedDecl') or {}).get('id')
            if isinstance(v, ObjRef) and vid is not None:
                st.env[vid] = ObjRef(v.name, 'std::shared_ptr<vfps::PhaseSpace>', null=v.null)
                ex.logw(('v', vid))
                if (d.get('referencedDecl') or {}).get('name') == 'grid_t1':
                    st.scal['ghost.grid_origin'] = IntV(I(getattr(v, 'origin', 0)), parse_type_str('int'))      # 2: what the results-file loader delivered
                    ex.logw(('s', 'ghost.grid_origin'))
                return VoidV()
            raise ExtractionError(f'main: assignment to a grid pointer from {v}')

        class MakeSharedCopy(Use):
            def __init__(self):
                Use.__init__(self, PhaseSpaceCopyCtor(), inst=INST)
                self.n = 0

            def __call__(self, ex, n, st, objn, argn, this_override=None):
                self.n += 1
                nm = f'heap:copy{self.n}'
                Use.__call__(self, ex, n, st, None, argn, this_override=nm)
                return ObjRef(nm, 'std::shared_ptr<vfps::PhaseSpace>', null=z3.BoolVal(False))
        class StartGrid(Use):
            """new PhaseSpace(...): the start grid built in main itself.  One region for the role 'grid the run starts with' -- on any
            path at most one such object is alive (a second one replaces a loader result that was null), so the branches can join"""
            def __call__(self, ex, n, st, objn, argn, this_override=None):
                Use.__call__(self, ex, n, st, None, argn, this_override='heap:PhaseSpace1')
                return ObjRef('heap:PhaseSpace1', 'vfps::PhaseSpace', null=z3.BoolVal(False))
        return {'setSize': set_size, 'makePSFromHDF5': from_hdf5, 'makePSFromTXT': from_txt, 'reset': reset, 'operator=': assign_ptr,
                'ctor:vfps::PhaseSpace': StartGrid(PhaseSpaceCtor12Use(), inst=INST), 'make_shared': MakeSharedCopy(),
                'isOfFileType': fresh_bool, 'empty': fresh_bool, 'printText': noop, 'operator+': strv, 'operator<<': strv, 'str': strv,
                'getStartDistStep': lambda ex, n, st, objn, argn, this_override=None: IntV(z3.Int('opt:StartDistStep'), parse_type_str('long')),       # any int64 the user may give
                'getGridSize': lambda ex, n, st, objn, argn, this_override=None: ex.args0['ps_bins'],
                'updateXProjection': Use(UpdateXProjection(), inst=lambda cx: [{'n': cx.ghost_of('n'), 'x': cx.ghost_of('x'), 'k': cx.ghost_of('k')}]),
                'normalize': Use(Normalize(), inst=lambda cx: [{'n': cx.ghost_of('n'), 'x': cx.ghost_of('x'), 'y': cx.ghost_of('k')}]),
                'min': lambda ex, n, st, objn, argn, this_override=None: RealV(z3.Real('float_min'), parse_type_str('float'))}

    def ensures(self, cx):
        from .common import ps_globals
        nx, ny, nb = ps_globals(cx)
        r = cx.ret
        if isinstance(r, IntV):
            return []           # early exit with a message (start file refused): nothing further runs
        out = [('grid_has_GridSize_cells', {'C17', 'C09'}, And(nx == cx.a('ps_bins'), ny == cx.a('ps_bins')))]
        # C11, the refusal half: whenever the results-file loader was asked, the run goes on only with what it delivered -- not with
        # nothing (a failed load: makePSFromHDF5 returns null after its message) and not with some other distribution
        called = cx.st.scal['ghost.h5_loader_called'].t == 1
        g = cx.val('grid_t1')
        failed = g.null if isinstance(g, ObjRef) and g.null is not None else z3.BoolVal(False)
        out.append(('run_continues_only_with_the_loaded_start_distribution', {'C11'},
                    Implies(called, And(Not(failed), cx.st.scal['ghost.grid_origin'].t == 2))))
        return out

    def _inv(self, var):
        def inv(cx):
            from .common import ps_globals
            nx, ny, nb = ps_globals(cx)
            out = [('sizes', And(nx == cx.a('ps_bins'), ny == cx.a('ps_bins'), nb >= 1))]
            return out
        return inv

    @property
    def loops(self):
        return {'x#0': LoopSpec(inv=self._inv('x')), 'y#0': LoopSpec(inv=self._inv('y'))}


class MainWiring(Contract):
    """main(): how the objects of the simulation are wired together (facts of the real AST of main's construction sites).

    * step cycle (C05 order, C12, C08, C03): the wake map reads grid_t1 and writes grid_t2, the RF map grid_t2 -> grid_t1, the drift
      grid_t1 -> grid_t3, damping/diffusion grid_t3 -> grid_t1 — the roles the control skeleton (specs/mainloop.py) gives to the
      variables wm/rfm/drm/fpm and to the three grids;
    * parameter plumbing: each constructor receives the variables that carry the quantity its contract names (rotation angle,
      slip factors, damping decrement, RF parameters, bucket numbers and spacing, charge scale);
    * results file (C10): the impedance stored in the file has the frequency axis stored in the file, i.e. it has as many samples
      as the field whose frequency ruler is written."""
    name = 'main'
    tu = 'src/main.cpp'
    tu_filter = 'main'
    tags = {'C03', 'C04', 'C05', 'C06', 'C08', 'C10', 'C12', 'C18', 'C19'}

    def replay(self, o, model, pid):
        sc = {'C10': ['records'], 'C12': ['cadence'], 'C18': ['cadence'], 'C19': ['rfkicks', 'cadence']}.get(pid)
        return {'driver': 'main', 'scenarios': sc} if sc else None

    # class -> list of (label, expected variable per leading constructor argument, tags)
    EXPECT = {
        'WakePotentialMap': [('wake_map', ['grid_t1', 'grid_t2', 'wake_field', 'interpolationtype', 'interpol_clamp'], {'C05', 'C12', 'C08'})],
        'DriftMap': [('drift_map', ['grid_t1', 'grid_t3', 'slip', 'E0', 'interpolationtype', 'interpol_clamp'], {'C03', 'C05', 'C12', 'C08'})],
        'FokkerPlanckMap': [('fokker_planck_map', ['grid_t3', 'grid_t1', 'ps_bins', 'ps_bins', 'fptype', 'fptrack', 'e1', 'derivationtype'], {'C04', 'C05', 'C12', 'C08'})],
        'RFKickMap': [('rf_map.linear', ['grid_t2', 'grid_t1', 'angle', 'f_RF', 'interpolationtype', 'interpol_clamp'], {'C03', 'C05', 'C12', 'C08'}),
                      ('rf_map.sinusoidal', ['grid_t2', 'grid_t1', 'revolutionpart', 'V_eff', 'f_RF', 'V0', 'interpolationtype', 'interpol_clamp'], {'C03', 'C05', 'C12', 'C08'})],
        'DynamicRFKickMap': [('dynamic_rf_map.linear', ['grid_t2', 'grid_t1', 'ps_bins', 'ps_bins', 'angle', 'revolutionpart', 'f_RF', 'rf_phase_noise', 'rf_ampl_noise',
                                                         'rf_mod_ampl', 'rf_mod_step', 'laststep', 'interpolationtype', 'interpol_clamp'], {'C19', 'C03', 'C05', 'C12'}),
                             ('dynamic_rf_map.sinusoidal', ['grid_t2', 'grid_t1', 'ps_bins', 'ps_bins', 'revolutionpart', 'V_eff', 'f_RF', 'V0', 'rf_phase_noise', 'rf_ampl_noise',
                                                             'rf_mod_ampl', 'rf_mod_step', 'laststep', 'interpolationtype', 'interpol_clamp'], {'C19', 'C03', 'C05', 'C12'})],
        'ElectricField': [('radiation_field', ['grid_t1', 'rdtn_impedance', 'bucketnumbers', 0, 'oclh', 'f_rev', 'revolutionpart'], {'C10', 'C06'}),
                          ('wake_field', ['grid_t1', 'wake_impedance', 'bucketnumbers', 'spacing_bins', 'oclh', 'f_rev', 'revolutionpart', 'Ib', 'E0', 'sE', 'dt'], {'C05', 'C06', 'C10'})],
        'HDF5File': [('results_file', ['ofname', 'grid_t1', 'rdtn_field', 'wake_impedance', 'trackme', 't_sync', 'f_rev'], {'C10'})],
        # the generated start grid: axis ranges, unit factors (natural bunch length in metres, energy spread in eV), bunch charge and
        # current are the derived quantities of THIS run (the unit attributes of the results file are read back from this object, C10)
        'PhaseSpace': [('start_grid.generated', ['qmin', 'qmax', 'bl', 'pmin', 'pmax', 'dE', 'oclh', 'Qb', 'Ib', 'bunches', 'zoom'], {'C10', 'C09'})],
    }
    MIN_ARGS = {'PhaseSpace': 6}        # copies of the start grid (grid_t2, grid_t3) are not construction sites in this sense
    # free functions that build the start grid from a file: expected variable per argument
    EXPECT_CALLS = {
        'makePSFromHDF5': ('start_grid.from_results_file', ['startdistfile', ('opts', 'getStartDistStep'), 'qmin', 'qmax', 'pmin', 'pmax', 'oclh', 'Qb', 'Ib', 'bl', 'dE'], {'C10', 'C11'}),
        'makePSFromTXT': ('start_grid.from_text_file', ['startdistfile', ('opts', 'getGridSize'), 'qmin', 'qmax', 'pmin', 'pmax', 'oclh', 'Qb', 'Ib', 'bl', 'dE'], {'C10', 'C09'}),
    }

    @staticmethod
    def _argname(a):
        """the variable an argument expression is rooted in (through casts, &x, x.size(), smart-pointer get), or an integer literal"""
        from vf.unit import _walk
        names = [(x.get('referencedDecl') or {}).get('name') for x in _walk(a) if x.get('kind') == 'DeclRefExpr' and (x.get('referencedDecl') or {}).get('kind') in ('VarDecl', 'ParmVarDecl')]
        if names:
            return names[0] if len(set(names)) == 1 else tuple(names)
        lits = [x.get('value') for x in _walk(a) if x.get('kind') == 'IntegerLiteral']
        if lits and len(lits) == 1:
            return int(lits[0])
        return None

    def custom_verify(self, scratch, tc):
        from vf.vcg import Exec
        from vf.state import Obligation
        from vf.unit import _walk
        from vf.ast import body
        tu = tc.get(self.tu, self.tu_filter)
        fn = tu.function('main')
        ex = Exec(tu, fn, 'main')
        ex.default_tags = set(self.tags)
        declared = set(x.get('name') for x in _walk(fn) if x.get('kind') == 'VarDecl')
        sites = {}
        site_nodes = {}
        for n in _walk(body(fn)):
            if n.get('kind') in ('CXXConstructExpr', 'CXXTemporaryObjectExpr'):
                t = n.get('type', {}).get('qualType', '')
                for cls in self.EXPECT:
                    if t.replace('vfps::', '') == cls:
                        nodes_ = [a for a in n.get('inner', []) if a.get('kind') != 'CXXDefaultArgExpr']
                        args_ = [self._argname(a) for a in nodes_]
                        if len(args_) >= self.MIN_ARGS.get(cls, 0):
                            sites.setdefault(cls, []).append(args_)
                            site_nodes[id(args_)] = nodes_
            if n.get('kind') == 'CallExpr':
                c_ = n['inner'][0]
                while c_.get('kind') in ('ImplicitCastExpr', 'ParenExpr'):
                    c_ = c_['inner'][0]
                if (c_.get('referencedDecl') or {}).get('name') in ('make_unique', 'make_shared'):
                    t = n.get('type', {}).get('qualType', '')
                    for cls in self.EXPECT:
                        if t.replace('vfps::', '').replace(' ', '') in (f'std::unique_ptr<{cls}>', f'std::shared_ptr<{cls}>', f'unique_ptr<{cls}>', f'shared_ptr<{cls}>',
                                                                       f'typenamestd::_MakeUniq<{cls}>::__single_object', f'typename_MakeUniq<{cls}>::__single_object') or \
                           (cls in t and ('_MakeUniq' in t or 'unique_ptr' in t or 'shared_ptr' in t) and 'Dynamic' + cls not in t):
                            nodes_ = [a for a in n['inner'][1:] if a.get('kind') != 'CXXDefaultArgExpr']
                            args_ = [self._argname(a) for a in nodes_]
                            sites.setdefault(cls, []).append(args_)
                            site_nodes[id(args_)] = nodes_
                            break
        obls = []

        def ob(label, ok, note, tags):
            obls.append(Obligation(f'main#wiring.{label}', set(tags), [], z3.BoolVal(bool(ok)), 'postcondition', None, note))
        const_locals = {x.get('name'): x for x in _walk(fn) if x.get('kind') == 'VarDecl' and x.get('inner') and 'const' in x.get('type', {}).get('qualType', '')}

        def through_const_locals(a, want_):
            """the argument's root variable, or -- if that is a const local initialised from a single variable -- what that one is
            rooted in, as far as needed to reach the expected name (a value kept in `const T x = opts.getX();` is still opts' value);
            an expected pair (variable, accessor) also asks for that accessor on the way"""
            want_var, want_get = want_ if isinstance(want_, tuple) else (want_, None)
            node, seen = a, set()
            while True:
                nm = self._argname(node)
                getters = [x['inner'][0].get('name') for x in _walk(node) if x.get('kind') == 'CXXMemberCallExpr' and x['inner'][0].get('kind') == 'MemberExpr']
                if nm == want_var and (want_get is None or want_get in getters):
                    return want_
                if not isinstance(nm, str) or nm in seen or nm not in const_locals:
                    return nm if want_get is None or nm != want_var else (nm, getters[0] if getters else None)
                seen.add(nm)
                node = const_locals[nm]['inner'][-1]
        for cls, variants in self.EXPECT.items():
            found = [f_ for f_ in sites.get(cls, []) if len(f_) >= self.MIN_ARGS.get(cls, 0)]
            if len(found) != len(variants):
                raise ExtractionError(f'main: {len(found)} construction sites of {cls}, contract knows {len(variants)}: {found}'[:600])
            for label, want, tags in variants:
                for w in want:
                    if isinstance(w, str) and w not in declared:
                        raise ExtractionError(f'main: variable {w} (expected at the construction of {cls}) does not exist any more')
                # match each expected variant to the site that agrees with it in the most positions
                best = max(found, key=lambda f_: sum(1 for a_, w_ in zip(f_, want) if a_ == w_))
                # a value kept in a const local (`const auto np = trackme.size();`) still is that variable's value
                nodes_ = site_nodes.get(id(best))
                if nodes_ is not None:
                    best = [(through_const_locals(nd_, want[i_]) if i_ < len(want) and isinstance(want[i_], (str, tuple)) and best[i_] != want[i_] else best[i_]) for i_, nd_ in enumerate(nodes_)]
                diffs = [(i_, a_, w_) for i_, (a_, w_) in enumerate(zip(best + [None] * len(want), want)) if a_ != w_]
                ob(label, not diffs, f'{cls}({", ".join(map(str, want))}, ...): ' + ('as expected' if not diffs else 'differs at ' + '; '.join(f'argument {i_ + 1}: {a_} instead of {w_}' for i_, a_, w_ in diffs)), tags)
        # ---- the field that computes the CSR spectrum is an object of its own (C12/C18: ElectricField::updateCSR uses the start of
        # the padded profile buffer as scratch; on the field that also pads and transforms the bunch train for the wake potential
        # what it leaves there enters the next wake potential -- and it runs only when a record is written)
        recv = []
        for n in _walk(body(fn)):
            if n.get('kind') == 'CXXMemberCallExpr' and n['inner'][0].get('kind') == 'MemberExpr' and n['inner'][0].get('name') == 'updateCSR':
                refs = [x.get('referencedDecl') or {} for x in _walk(n['inner'][0]) if x.get('kind') == 'DeclRefExpr']
                recv += [(r_.get('name'), (r_.get('type') or {}).get('qualType', '')) for r_ in refs if r_.get('kind') in ('VarDecl', 'ParmVarDecl')]
        if not recv:
            raise ExtractionError('main: no call of ElectricField::updateCSR found')
        own = all(t_.replace('vfps::', '').strip() == 'ElectricField' for _, t_ in recv)
        ob('csr_field_is_an_object_of_its_own', own and set(nm for nm, _ in recv) == {'rdtn_field'},
           f'updateCSR is called on {sorted(set(recv))}: expected the variable rdtn_field of class type ElectricField (not a reference or pointer that may alias the wake field)', {'C12', 'C18', 'C10'})
        for fname, (label, want, tags) in self.EXPECT_CALLS.items():
            found = []
            for n in _walk(body(fn)):
                if n.get('kind') == 'CallExpr':
                    c_ = n['inner'][0]
                    while c_.get('kind') in ('ImplicitCastExpr', 'ParenExpr'):
                        c_ = c_['inner'][0]
                    if (c_.get('referencedDecl') or {}).get('name') == fname:
                        real_ = [a for a in n['inner'][1:] if a.get('kind') != 'CXXDefaultArgExpr']
                        found.append([through_const_locals(a, want[i_]) if i_ < len(want) else self._argname(a) for i_, a in enumerate(real_)])
            if len(found) != 1:
                raise ExtractionError(f'main: {len(found)} calls of {fname}, contract knows 1')
            diffs = [(i_, a_, w_) for i_, (a_, w_) in enumerate(zip(found[0] + [None] * len(want), want)) if a_ != w_]
            ob(label, not diffs, f'{fname}({", ".join(map(str, want))}): ' + ('as expected' if not diffs else 'differs at ' + '; '.join(f'argument {i_ + 1}: {a_} instead of {w_}' for i_, a_, w_ in diffs)), tags)
        # ---- impedance stored in the file vs frequency axis stored in the file: both come from makeImpedance(nfreqs, ...)
        calls = {}
        for n in _walk(body(fn)):
            if n.get('kind') == 'VarDecl' and n.get('name') in ('wake_impedance', 'rdtn_impedance'):
                for c_ in _walk(n):
                    if c_.get('kind') == 'CallExpr' and any((y.get('referencedDecl') or {}).get('name') == 'makeImpedance' for y in _walk(c_['inner'][0])):
                        calls[n['name']] = c_['inner'][1]
        if set(calls) != {'wake_impedance', 'rdtn_impedance'}:
            raise ExtractionError('main: makeImpedance calls for wake_impedance / rdtn_impedance not found')

        def length_term(a):
            """nfreqs argument as a term over nbuckets, spaced_bins, padded_bins"""
            nbk, spaced, padded = z3.Ints('nbuckets spaced_bins padded_bins')
            env = {'spaced_bins': spaced, 'padded_bins': padded}
            b = a
            while b.get('kind') in ('ImplicitCastExpr', 'ParenExpr', 'ExprWithCleanups'):
                b = b['inner'][0]
            if b.get('kind') == 'ConditionalOperator':
                cond, x, y = b['inner']
                cn = self._argname(cond)
                gt1 = any(z_.get('kind') == 'BinaryOperator' and z_.get('opcode') == '>' for z_ in _walk(cond)) and any(z_.get('kind') == 'IntegerLiteral' and z_.get('value') == '1' for z_ in _walk(cond))
                if cn in ('filling', 'nbuckets') and gt1:
                    return z3.If(nbk > 1, length_term(x), length_term(y))
                raise ExtractionError('main: condition selecting the impedance length not understood')
            nm = self._argname(b)
            if nm in env:
                return env[nm]
            if b.get('kind') == 'DeclRefExpr' and (b.get('referencedDecl') or {}).get('kind') == 'VarDecl':
                # a named const local holding the selected length: follow its initialiser
                vds = [x for x in _walk(body(fn)) if x.get('kind') == 'VarDecl' and x.get('id') == b['referencedDecl'].get('id')]
                if len(vds) == 1 and 'const' in vds[0].get('type', {}).get('qualType', '') and vds[0].get('inner'):
                    return length_term(vds[0]['inner'][-1])
            raise ExtractionError(f'main: impedance length argument {nm} not understood')
        nbk, spaced, padded = z3.Ints('nbuckets spaced_bins padded_bins')
        lw, lr = length_term(calls['wake_impedance']), length_term(calls['rdtn_impedance'])
        # HDF5File(ofname, grid, &rdtn_field, wake_impedance, ...): the frequency axis written is rdtn_field's (built on rdtn_impedance),
        # the impedance written is wake_impedance and is linked to that axis
        o = Obligation('main#wiring.stored_impedance_has_the_stored_frequency_axis', {'C10'}, [nbk >= 1, spaced >= 2, padded >= 2],
                       lw == lr, 'postcondition', None, 'number of samples of the impedance written to /Impedance/data equals that of the field whose frequency ruler is written to /Info/AxisValues_f (its axis0)')
        obls.append(o)
        obls.append(Obligation('main#wiring.stored_impedance_axis_single_bucket', {'C10'}, [nbk == 1, spaced >= 2, padded >= 2], lw == lr, 'postcondition', None,
                               'the same for runs with one bucket (outside the region of the known finding)'))
        ex.obls = obls + [Obligation('main#wiring.canary', set(), [], z3.BoolVal(False), 'canary', None, '')]
        info = {'unit': 'main (construction sites)', 'file': self.tu, 'sha': tu.sha, 'cases': 1, 'lines': [None, None], 'extract_s': 0,
                'facts': {k: [[str(a) for a in s_] for s_ in v] for k, v in sites.items()}}
        return [ex], info


class MapDispatch(Contract):
    """Virtual dispatch of the transport maps main constructs: the function that actually runs for apply / applyTo / applyToAll /
    updateSM / _calcKick / update on each map class is the one under contract (final overrider = first class, from the
    constructed class up its base chain, that declares the member).  A new override in a derived class (or a removed one)
    silently replaces code under contract by code that is not; this unit makes that a failed obligation."""
    name = 'main (dispatch of the transport maps)'
    tu = 'src/main.cpp'
    tags = {'C01', 'C02', 'C03', 'C04', 'C05', 'C08', 'C12', 'C15', 'C19'}
    EXPECT = {
        'vfps::DriftMap': {'apply': 'KickMap', 'applyTo': 'KickMap', 'applyToAll': 'SourceMap', 'updateSM': 'KickMap'},
        'vfps::RFKickMap': {'apply': 'KickMap', 'applyTo': 'KickMap', 'applyToAll': 'SourceMap', 'updateSM': 'KickMap', '_calcKick': 'RFKickMap'},
        'vfps::DynamicRFKickMap': {'apply': 'DynamicRFKickMap', 'applyTo': 'KickMap', 'applyToAll': 'SourceMap', 'updateSM': 'KickMap', '_calcKick': 'DynamicRFKickMap'},
        'vfps::WakePotentialMap': {'apply': 'KickMap', 'applyTo': 'KickMap', 'applyToAll': 'SourceMap', 'updateSM': 'KickMap', 'update': 'WakePotentialMap'},
        'vfps::FokkerPlanckMap': {'apply': 'FokkerPlanckMap', 'applyTo': 'FokkerPlanckMap', 'applyToAll': 'SourceMap'},
        'vfps::Identity': {'apply': 'Identity', 'applyTo': 'Identity', 'applyToAll': 'SourceMap'},
    }
    MEMBER_TAGS = {'apply': {'C01', 'C02', 'C03', 'C04', 'C05', 'C08', 'C12', 'C19'}, 'applyTo': {'C15'}, 'applyToAll': {'C15'},
                   'updateSM': {'C02', 'C03', 'C05', 'C08'}, '_calcKick': {'C03', 'C19', 'C05'}, 'update': {'C05', 'C08', 'C12'}}

    def custom_verify(self, scratch, tc):
        from vf.vcg import Exec
        from vf.state import Obligation
        tu = tc.get(self.tu)
        fn = None
        try:
            fn = tc.get(self.tu, 'main').function('main')
        except Exception:
            pass
        ex = Exec(tu, fn if fn is not None else next(iter(tu.funcs.values()))[0], 'main')
        ex.default_tags = set(self.tags)

        def declared(rec):
            return set(c.get('name') for c in rec.get('inner', []) if c.get('kind') in ('CXXMethodDecl', 'FunctionTemplateDecl') and not c.get('isImplicit'))

        def rec_of(q):
            r = tu.records.get(q)
            if r is None:
                raise ExtractionError(f'class {q} not found among the declarations of main.cpp (renamed?)')
            return r

        obls = []
        for cls, members in sorted(self.EXPECT.items()):
            chain, q = [], cls
            while q:
                r = rec_of(q)
                chain.append((q.split('::')[-1], declared(r)))
                bases = [b['type']['qualType'] for b in r.get('bases', [])]
                if len(bases) > 1:
                    raise ExtractionError(f'{q}: multiple inheritance, dispatch contract has to be rewritten')
                q = None
                if bases:
                    q = bases[0] if bases[0].startswith('vfps::') else 'vfps::' + bases[0]
            for m, want in sorted(members.items()):
                got = next((c for c, ds in chain if m in ds), None)
                obls.append(Obligation(f'main#dispatch.{cls.split("::")[-1]}.{m}', set(self.MEMBER_TAGS[m]), [], z3.BoolVal(got == want), 'postcondition', None,
                                       f'{cls}::{m} resolves to {got}::{m}; the function under contract is {want}::{m} (base chain {[c for c, _ in chain]})'))
        ex.obls = obls + [Obligation('main#dispatch.canary', set(), [], z3.BoolVal(False), 'canary', None, '')]
        info = {'unit': self.name, 'file': self.tu, 'sha': tu.sha, 'cases': 1, 'lines': [None, None], 'extract_s': 0, 'classes': len(self.EXPECT)}
        return [ex], info


class MainUnits(MainConfig):
    """third slice of main's set-up: the derived quantities that become unit factors of the results file (C10) and scales of the
    kicks (C03/C05): absolute energy spread, natural bunch length, bunch charge, synchrotron period.  The formulas are the
    documented ones over the machine parameters recorded in the file's /Info/Parameters."""
    tags = {'C10', 'C03', 'C05'}
    slice_targets = ['dE', 'bl', 'Qb', 't_sync', 'fs', 'f_rev']
    slice_stop = 'spacing_ps'

    def ensures(self, cx):
        v, o = cx.v, self.o
        sqrt = models.uf('sqrt')
        c0 = z3.RealVal(299792458)
        frev, Veff, H, E0 = v('f_rev'), v('V_eff'), o(cx, 'H'), o(cx, 'E_0')
        out = [('dE', {'C10', 'C03'}, v('dE') == o(cx, 's_E') * o(cx, 'E_0')),
               # natural bunch length [m] = c * sigma_E / (h f_rev^2 V_eff) * f_s   (the factor "Meter" of every length in the file)
               ('bl', {'C10', 'C03', 'C05'}, v('bl') == c0 * v('dE') / H / (frev * frev) / Veff * v('fs')),
               ('V_eff', {'C10', 'C03'}, Veff == sqrt(o(cx, 'V_RF') * o(cx, 'V_RF') - v('V0') * v('V0'))),
               # the synchrotron frequency in use: the given one, or the one implied by alpha0 when none is given
               ('fs', {'C10', 'C03', 'C13'}, v('fs') == If(o(cx, 'f_s') == 0, frev * sqrt(o(cx, 'alpha0') * H * Veff / (2 * PI * E0)), o(cx, 'f_s'))),
               ('t_sync', {'C10'}, v('t_sync') == 1 / v('fs')),
               ('Qb', {'C10'}, v('Qb') == v('Ib') / v('f_rev')),
               ('f_rev', {'C10'}, v('f_rev') == o(cx, 'f0'))]
        return out


class MainMaps(Contract):
    """main(): construction of the transport maps (RF kick, drift, damping/diffusion), from the declaration of `drfm` up to the
    impedances.  Every constructor is called within its contract's precondition for every configuration of the documented domain
    (the domain is stated as the `requires` of this slice and listed in the evidence), and the branch that builds a
    FokkerPlanckMap is taken exactly when the damping decrement is positive (otherwise the identity)."""
    name = 'main'
    tu = 'src/main.cpp'
    tu_filter = 'main'
    aux_tus = [('src/main.cpp', 'vfps::')]
    params = ['argc', 'argv']
    tags = {'C03', 'C04', 'C17', 'C19', 'C08'}
    ghosts = {'k': 'int', 'n': 'int', 'x': 'int', 'y': 'int', 'e': 'int', 'g': 'int', 'j': 'int', 'r0': 'int', 'r1': 'int', 'r2': 'int', 'r3': 'int'}
    slice_from = 'drfm'
    slice_until = 'wake_impedance'
    slice_externals = {'opts': 'vfps::ProgramOptions'}
    canary = True
    no_bounded_fallback = True

    def slice_setup(self, ex, st):
        from .common import PS_NX, PS_NY, PS_NB, PS_NXY, PS_NXYB, declare_ps, ps_globals
        from .sm import Ruler_valid
        a = ex.args0
        cx = Ctx(ex, st, st, a)
        nx, ny, nb = ps_globals(cx)
        for g_ in ('grid_t1', 'grid_t2', 'grid_t3'):
            if g_ not in a or not isinstance(a[g_], ObjRef):
                raise ExtractionError(f'main: {g_} not found before the maps are built')
        # what the start-distribution slice establishes (MainStartDistribution): three grids of GridSize cells with valid axes
        st.assume(And(PS_static(cx), nx == a['ps_bins'].t, *[And(declare_ps(cx, a[g_].name), Ruler_valid(cx, a[g_].name + '._axis[0]', nx), Ruler_valid(cx, a[g_].name + '._axis[1]', ny)) for g_ in ('grid_t1', 'grid_t2', 'grid_t3')]))
        # documented domain of the options that reach the constructors unvalidated
        it = a['interpolationtype']
        st.assume(And(real_or_int(it) >= 1, real_or_int(it) <= 4))
        st.assume(And(a['f_RF'].t > 0, a['revolutionpart'].t > 0, models.uf_const('PI') > 3, nx * nb * 4 < 2 ** 32))
        for g_ in ('grid_t1', 'grid_t2', 'grid_t3'):
            st.assume(cx.rf(a[g_].name + '._axis[0]._scale[Meter]') > 0)
        for c_ in ('DynamicRFKickMap', 'RFKickMap', 'DriftMap', 'FokkerPlanckMap', 'Identity'):
            st.scal['ghost.built.' + c_] = IntV(I(0), parse_type_str('int'))
        # alpha is built with exactly three entries (alpha0, alpha1, alpha2): fact of the declaration, checked on the AST
        from vf.unit import _walk
        n3 = [len(x.get('inner', [])) for d in _walk(ex.fn) if d.get('kind') == 'VarDecl' and d.get('name') == 'alpha' for x in _walk(d) if x.get('kind') == 'InitListExpr']
        if 'alpha' in a and isinstance(a['alpha'], ObjRef):
            if not n3 or max(n3) != 3:
                raise ExtractionError('main: alpha is no longer built from three terms')
            st.assume(st.len_of(a['alpha'].name) == 3)
        dt_ = a.get('derivationtype')
        if dt_ is not None:
            st.assume(Implies(real_or_int(dt_) == 4, nx >= 4))
        ft_ = a.get('fptype')
        if ft_ is not None:
            st.assume(And(real_or_int(ft_) >= 0, real_or_int(ft_) <= 3))

    def assigns(self, cx):
        return [('s', 'ghost.*'), ('s', 'arg:*'), ('r', 'heap:*'), ('len', 'heap:*'), ('s', 'heap:*'), ('r', 'local:*'), ('len', 'local:*')]

    @property
    def calls(self):
        from .sm import RFKickMapLinearCtor, RFKickMapSinCtor, DriftMapCtor, FokkerPlanckCtor
        from .dynrf import DynRFLinearCtor, DynRFSinCtor
        noop = lambda ex, n, st, objn, argn, this_override=None: VoidV()
        strv = lambda ex, n, st, objn, argn, this_override=None: Opaque('string')
        INST = lambda cx: [{'x': cx.ghost_of('x'), 'y': cx.ghost_of('y'), 'e': cx.ghost_of('e'), 'g': cx.ghost_of('g'), 'k': cx.ghost_of('k'), 'n': cx.ghost_of('n'), 'j': cx.ghost_of('j'),
                            'r0': cx.ghost_of('r0'), 'r1': cx.ghost_of('r1'), 'r2': cx.ghost_of('r2'), 'r3': cx.ghost_of('r3')}]
        counter = [0]

        class New(Use):
            def __init__(self, c, cls, region=None):
                Use.__init__(self, c, inst=INST)
                self.cls = cls
                self.region = region or cls

            def __call__(self, ex, n, st, objn, argn, this_override=None):
                nm = f'heap:{self.region}'       # at most one object of each role (RF map, drift map, ...) is built on any path
                Use.__call__(self, ex, n, st, None, argn, this_override=nm)
                st.scal['ghost.built.' + self.cls] = IntV(st.scal['ghost.built.' + self.cls].t + 1, parse_type_str('int'))
                ex.logw(('s', 'ghost.built.' + self.cls))
                return ObjRef(nm, 'vfps::' + self.cls, null=z3.BoolVal(False))

        def reset(ex, n, st, objn, argn, this_override=None):
            v = ex.ev(argn[0], st) if argn else None
            d = objn
            while d.get('kind') in ('ImplicitCastExpr', 'ParenExpr'):
                d = d['inner'][0]
            vid = (d.get('referencedDecl') or {}).get('id')
            if vid is None or not isinstance(v, ObjRef):
                raise ExtractionError('main: reset(...) of a map pointer with something that is not a new map')
            st.env[vid] = ObjRef(v.name, v.cls, null=z3.BoolVal(False))
            ex.logw(('v', vid))
            return VoidV()

        def assign_ptr(ex, n, st, objn, argn, this_override=None):
            v = ex.ev(argn[0], st) if parse_type(argn[0]['type']).kind != 'class' else ex.ev_obj(argn[0], st)
            d = objn
            while d.get('kind') in ('ImplicitCastExpr', 'ParenExpr'):
                d = d['inner'][0]
            vid = (d.get('referencedDecl') or {}).get('id')
            if isinstance(v, ObjRef) and vid is not None:
                st.env[vid] = v
                ex.logw(('v', vid))
                return VoidV()
            if isinstance(v, Opaque) and vid is not None:
                return VoidV()
            raise ExtractionError(f'main: assignment to a map pointer from {v}')
        fresh_real = lambda ex, n, st, objn, argn, this_override=None: RealV(z3.Real(f'opt!{ex.curline}!{id(n) % 99991}'), parse_type_str('double'))
        return {'ctor:vfps::DynamicRFKickMap/15': New(DynRFLinearCtor(), 'DynamicRFKickMap', 'rfmap'), 'ctor:vfps::DynamicRFKickMap/16': New(DynRFSinCtor(), 'DynamicRFKickMap', 'rfmap'),
                'ctor:vfps::RFKickMap/7': New(RFKickMapLinearCtor(), 'RFKickMap', 'rfmap'), 'ctor:vfps::RFKickMap/9': New(RFKickMapSinCtor(), 'RFKickMap', 'rfmap'),
                'make_unique': New(DriftMapCtor(), 'DriftMap'),
                'ctor:vfps::FokkerPlanckMap': New(FokkerPlanckCtor(), 'FokkerPlanckMap', 'fpmap'),
                'ctor:vfps::Identity': lambda ex, n, st, objn, argn, this_override=None: (st.scal.__setitem__('ghost.built.Identity', IntV(st.scal['ghost.built.Identity'].t + 1, parse_type_str('int'))), ex.logw(('s', 'ghost.built.Identity')), ObjRef('heap:fpmap', 'vfps::Identity', null=z3.BoolVal(False)))[2],
                'reset': reset, 'operator=': assign_ptr, 'printText': noop, 'operator+': strv, 'operator<<': strv, 'str': strv,
                'getRFPhaseSpread': fresh_real, 'getRFPhaseModFrequency': fresh_real, 'getRFPhaseModAmplitude': fresh_real}

    def ensures(self, cx):
        b = lambda c: (cx.st.scal.get('ghost.built.' + c).t if cx.st.scal.get('ghost.built.' + c) is not None else I(0))
        e1 = cx.v('e1')
        return [('fokker_planck_iff_damping', {'C04'}, And(Implies(e1 > 0, And(b('FokkerPlanckMap') == 1, b('Identity') == 0)), Implies(Not(e1 > 0), And(b('Identity') == 1, b('FokkerPlanckMap') == 0)))),
                ('one_rf_map_one_drift_map', {'C03', 'C19'}, And(b('DriftMap') == 1, b('RFKickMap') + b('DynamicRFKickMap') == 1))]

    @property
    def loops(self):
        # trailing zero momentum-compaction terms are dropped (at most the three entries alpha was built with); the print loop
        return {'while#0': LoopSpec(unroll=4), 'n#0': LoopSpec(inv=lambda cx: [('range', cx.v('n') >= 0)])}


def real_or_int(v):
    return v.t


class MainFields(Contract):
    """main(): the two impedances, the radiation field, the wake field and the wake map (from the declaration of `wake_impedance` up to
    the tracking file).  The factory and the field / map constructors are called within their contracts' preconditions; in particular
    the impedance handed to the radiation field exists for every gap (the CSR contribution is always selected for it), and the wake
    field is built exactly when the factory returned an impedance."""
    name = 'main'
    tu = 'src/main.cpp'
    tu_filter = 'main'
    aux_tus = [('src/main.cpp', 'vfps::')]
    params = ['argc', 'argv']
    tags = {'C06', 'C16', 'C17', 'C05'}
    ghosts = {'k': 'int', 'n': 'int', 'x': 'int', 'y': 'int', 'e': 'int', 'g': 'int', 'b': 'int', 'i': 'int'}
    slice_from = 'wake_impedance'
    slice_until = 'trackme'
    slice_externals = {'opts': 'vfps::ProgramOptions'}
    canary = True
    no_bounded_fallback = True
    loops = {}

    def slice_setup(self, ex, st):
        from .common import declare_ps, ps_globals
        from .sm import Ruler_valid
        a = ex.args0
        cx = Ctx(ex, st, st, a)
        nx, ny, nb = ps_globals(cx)
        for g_ in ('grid_t1', 'grid_t2'):
            if g_ not in a or not isinstance(a[g_], ObjRef):
                raise ExtractionError(f'main: {g_} not found before the fields are built')
            st.assume(And(declare_ps(cx, a[g_].name), Ruler_valid(cx, a[g_].name + '._axis[0]', nx), Ruler_valid(cx, a[g_].name + '._axis[1]', ny)))
        # established by the configuration slice (MainConfig): sizes of the padded buffers, bucket numbers; documented domain of the rest
        need = ('padded_bins', 'spaced_bins', 'fmax', 'f_rev', 'R_bend', 'revolutionpart', 'E0', 'sE', 'interpolationtype')
        for v_ in need:
            if v_ not in a:
                raise ExtractionError(f'main: variable {v_} is not an input of the field construction block any more')
        st.assume(And(PS_static(cx), a['padded_bins'].t >= nx, a['padded_bins'].t >= 2, a['padded_bins'].t < 2 ** 32,
                      a['spaced_bins'].t >= nx, a['spaced_bins'].t >= 2, a['spaced_bins'].t < 2 ** 32,
                      a['fmax'].t > 0, a['f_rev'].t > 0, a['R_bend'].t > 0, a['revolutionpart'].t != 0, models.uf_const('PI') > 3,
                      a['E0'].t != 0, a['sE'].t != 0, nx * nb * 4 < 2 ** 32))
        it = a['interpolationtype']
        st.assume(And(it.t >= 1, it.t <= 4))
        st.scal['ghost.built.wake_field'] = IntV(I(0), parse_type_str('int'))
        # the defaults this slice uses for the short call of the factory are the declared ones
        from vf.unit import _walk
        decls = []
        for t_ in [ex.tu] + [t__ for t__ in (getattr(ex, 'aux_tus', None) or [])]:
            for d_ in getattr(t_, 'docs', []):
                for f_ in _walk(d_):
                    if f_.get('kind') == 'FunctionDecl' and f_.get('name') == 'makeImpedance':
                        decls.append(f_)
        want = {'use_csr': ('CXXBoolLiteralExpr', True), 's': ('IntegerLiteral', '0'), 'xi': ('IntegerLiteral', '0'), 'inner_coll_radius': ('IntegerLiteral', '0'), 'impedance_file': ('StringLiteral', '""')}
        ok_decl = False
        for f_ in decls:
            ps_ = [p_ for p_ in f_.get('inner', []) if p_.get('kind') == 'ParmVarDecl']
            got = {}
            for p_ in ps_:
                lits = [(x.get('kind'), x.get('value')) for x in _walk(p_) if x.get('kind') in ('CXXBoolLiteralExpr', 'IntegerLiteral', 'FloatingLiteral', 'StringLiteral')]
                if lits:
                    got[p_.get('name')] = lits[0]
            if got and all(got.get(k_) == v_ for k_, v_ in want.items()):
                ok_decl = True
        if not ok_decl:
            raise ExtractionError('main: the declared default arguments of makeImpedance are not (true, 0, 0, 0, "") any more — the call-site contract has to be updated')

    def assigns(self, cx):
        return [('s', 'ghost.*'), ('s', 'arg:*'), ('r', 'heap:*'), ('len', 'heap:*'), ('s', 'heap:*'), ('r', 'local:*'), ('len', 'local:*'), ('s', 'local:*'), ('r', 'ret:*'), ('len', 'ret:*'), ('s', 'ret:*')]

    @property
    def calls(self):
        from .z import MakeImpedance
        from .ef import ElectricFieldCtorUse, ElectricFieldCtor11
        noop = lambda ex, n, st, objn, argn, this_override=None: VoidV()
        strv = lambda ex, n, st, objn, argn, this_override=None: Opaque('string')
        K = lambda cx: [{'k': cx.ghost_of('k')}]
        mk = [0]

        class MakeImpedanceUse(MakeImpedance):
            """call-site view: the factory returns either nothing or a fresh impedance object"""
            # defaults of the trailing parameters as declared in inc/Z/ImpedanceFactory.hpp (checked against the declaration in slice_setup)
            param_defaults = {'use_csr': lambda: IntV(I(1), parse_type_str('int')), 's': lambda: RealV(z3.RealVal(0), parse_type_str('double')),
                              'xi': lambda: RealV(z3.RealVal(0), parse_type_str('double')), 'inner_coll_radius': lambda: RealV(z3.RealVal(0), parse_type_str('double')),
                              'impedance_file': lambda: Opaque('string:')}

            def result(self, cx):
                mk[0] += 1
                return ObjRef(f'heap:impedance{mk[0]}', 'std::shared_ptr<vfps::Impedance>', null=z3.Bool(f'heap:impedance{mk[0]}==null'))

        class Factory(Use):
            def __init__(self):
                Use.__init__(self, MakeImpedanceUse(), inst=K)

        class RadiationFieldCtor(ElectricFieldCtorUse):
            # ElectricField(ps, impedance, buckets, spacing, oclh, f_rev, revolutionpart = 1, wakescalining = 0.0): declared defaults
            param_defaults = {'revolutionpart': lambda: RealV(z3.RealVal(1), parse_type_str('float')), 'wakescalining': lambda: RealV(z3.RealVal(0), parse_type_str('float'))}

        class NewField(Use):
            def __call__(self, ex, n, st, objn, argn, this_override=None):
                Use.__call__(self, ex, n, st, None, argn, this_override='heap:wake_field')
                st.scal['ghost.built.wake_field'] = IntV(st.scal['ghost.built.wake_field'].t + 1, parse_type_str('int'))
                ex.logw(('s', 'ghost.built.wake_field'))
                return ObjRef('heap:wake_field', 'vfps::ElectricField', null=z3.BoolVal(False))

        def new_map(ex, n, st, objn, argn, this_override=None):
            for a_ in argn:
                try:
                    ex.ev(a_, st) if parse_type(a_['type']).kind != 'class' else ex.ev_obj(a_, st)
                except ExtractionError:
                    pass
            return ObjRef('heap:wakemap', 'vfps::SourceMap', null=z3.BoolVal(False))
        return {'makeImpedance': Factory(),
                'ctor:vfps::ElectricField/7': Use(RadiationFieldCtor(), inst=K), 'ctor:vfps::ElectricField/8': Use(RadiationFieldCtor(), inst=K),
                'ctor:vfps::ElectricField/11': NewField(ElectricFieldCtor11(), inst=K),
                'ctor:vfps::WakePotentialMap': new_map, 'ctor:vfps::Identity': new_map,
                'printText': noop, 'operator+': strv, 'operator<<': strv, 'str': strv}

    def ensures(self, cx):
        built = cx.st.scal['ghost.built.wake_field'].t
        wi = cx.st.env.get(next((k for k, nm in cx.st.names.items() if nm == 'wake_impedance'), None))
        if not isinstance(wi, ObjRef) or wi.null is None:
            raise ExtractionError('main: wake_impedance is not the factory result any more')
        return [('wake_field_iff_wake_impedance', {'C05', 'C06', 'C16'}, And(Implies(Not(wi.null), built == 1), Implies(wi.null, built == 0)))]
