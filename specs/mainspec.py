"""Contracts on slices of main() (src/main.cpp): the configuration arithmetic (U23)."""
from .common import *

PI = models.uf_const('PI')


class UpperPow2(Contract):
    """vfps::upper_power_of_two: proved bit-precisely for all inputs by the CBMC leaf check (cbmc/upper_power_of_two)"""
    name = 'vfps::upper_power_of_two'
    tu = 'src/HelperFunctions.cpp'
    params = ['v']

    def requires(self, cx):
        return [('range', And(cx.a('v') >= 1, cx.a('v') <= 2 ** 63))]

    def result(self, cx):
        r = z3.Int(f'pow2!{id(cx)}')
        cx.st.assume(And(r >= cx.a('v'), r < 2 * cx.a('v'), r <= 2 ** 63))
        return IntV(r, parse_type_str('unsigned long'))


class MainConfig(Contract):
    name = 'main'
    tu = 'src/main.cpp'
    tu_filter = 'main'
    aux_tus = [('src/main.cpp', 'vfps::')]
    params = ['argc', 'argv']
    tags = {'C03', 'C04', 'C05', 'C06', 'C17'}
    ghosts = {'g': 'int', 'g2': 'int'}
    slice_targets = ['spacing_bins', 'padded_bins', 'spaced_bins', 'bucketnumbers', 'nbunches', 'nbuckets', 'angle', 'steps', 'dt', 'revolutionpart', 'ps_bins']
    slice_stop = 'startdistfile'
    slice_externals = {'opts': 'vfps::ProgramOptions'}
    canary = True

    def o(self, cx, name, kind='real'):
        return cx.f('opts.' + name, kind)

    def requires(self, cx):
        o = self.o
        N = o(cx, 'meshsize', 'int')
        fsz = cx.len('opts.I_b')
        # documented option domain: grid of at least 2 cells, positive machine parameters, a sane number of buckets
        return [('domain', And(N >= 2, N <= 65535, fsz >= 1, fsz <= 4096,
                               o(cx, 'pq_size') > 0, o(cx, 'E_0') > 0, o(cx, 's_E') > 0, o(cx, 'f0') > 0, o(cx, 'H') >= 1, o(cx, 'V_RF') > 0,
                               o(cx, 'padding') <= 1024, PI > 3, PI < 4))]

    # documented domain of derived configuration values (C17: "buckets not overlapping", lengths that fit the index types)
    domain_after = {
        'spacing_ps': lambda cx: And(cx.v('spacing_ps') >= 1, cx.v('spacing_ps') * z3.ToReal(cx.v('ps_bins')) * 4096 < 2 ** 31),
        'steps': lambda cx: cx.v('steps') > 0,
        'fs': lambda cx: cx.v('fs') != 0,
    }

    def post_state(self, cx):
        v = cx.v
        return v

    def ensures(self, cx):
        v = cx.v
        g, g2 = cx.g('g'), cx.g('g2')
        nbunches, nbuckets, N = v('nbunches'), v('nbuckets'), v('ps_bins')
        bn = cx.st.array('local:bucketnumbers', '', parse_type_str('unsigned int'))
        nfreq = If(nbuckets > 1, v('spaced_bins'), v('padded_bins'))
        out = [('buckets.count', {'C17', 'C06'}, And(cx.st.len_of('local:bucketnumbers') == nbunches, nbunches <= nbuckets)),
               ('buckets.range', {'C17', 'C06'}, Implies(And(g >= 0, g < nbunches), And(z3.Select(bn, g) >= 0, z3.Select(bn, g) <= nbuckets - 1))),
               ('buckets.decreasing', {'C17', 'C06', 'C18'}, Implies(And(g >= 0, g < g2, g2 < nbunches), z3.Select(bn, g) > z3.Select(bn, g2))),
               # every bunch fits into the padded buffer at its bucket position (precondition of ElectricField::padBunchProfiles)
               ('pad.fits', {'C17', 'C06'}, Implies(And(g >= 0, g < nbunches, cx.v('spacing_ps') >= 1), z3.Select(bn, g) * v('spacing_bins') + N <= nfreq)),
               ('pad.width', {'C17'}, v('padded_bins') >= N),
               ('angle', {'C03'}, v('angle') == 2 * PI / v('steps')),
               ('dt', {'C05', 'C03'}, And(v('dt') == 1 / (v('fs') * v('steps')), v('revolutionpart') == v('f_rev') * v('dt')))]
        return out

    def _inv_fill(self, cx):
        i = cx.v('i')
        g, g2 = cx.g('g'), cx.g('g2')
        st = cx.st
        bn = st.array('local:bucketnumbers', '', parse_type_str('unsigned int'))
        nbk = st.len_of('local:filling')
        lb = st.len_of('local:bucketnumbers')
        return [('range', And(i >= 0, i <= nbk)), ('len', And(lb <= i, lb == st.len_of('local:bunches'))),
                ('fill_len', nbk == cx.old.len('opts.I_b')),
                ('values', Implies(And(g >= 0, g < lb), And(z3.Select(bn, g) <= nbk - 1, z3.Select(bn, g) > nbk - 1 - i, z3.Select(bn, g) >= 0))),
                ('decreasing', Implies(And(g >= 0, g < g2, g2 < lb), z3.Select(bn, g) > z3.Select(bn, g2)))]

    @property
    def loops(self):
        return {'i#0': LoopSpec(inv=self._inv_fill)}

    calls = {'vfps::upper_power_of_two': Use(UpperPow2()), 'upper_power_of_two': Use(UpperPow2())}


class MainPhysics(MainConfig):
    """second slice: slip factors of the drift and the damping decrement"""
    tags = {'C03', 'C04'}
    slice_targets = ['slip', 'e1', 'angle', 'steps', 'fs', 't_damp']
    slice_stop = 'wake_impedance'
    ghosts = {}
    loops = {}

    def ensures(self, cx):
        v = cx.v
        sl = cx.st.array('local:slip', '', parse_type_str('float'))
        return [('slip0', {'C03'}, And(cx.st.len_of('local:slip') == 3, z3.Select(sl, 0) == v('angle'))),
                ('angle', {'C03'}, v('angle') == 2 * PI / v('steps')),
                ('e1', {'C04'}, Implies(v('t_damp') > 0, v('e1') == 2 / (v('fs') * v('t_damp') * v('steps'))))]


class MainTrackingFile(Contract):
    """main(): reading the particle tracking file (C15/C17).  For every content of the file — any number of values, malformed
    text, coordinates far outside the grid — each stored particle starts on the grid (0 <= x <= nx-1, 0 <= y <= ny-1): the
    precondition of every tracking map and of HDF5File::appendTracks.  std::istream as fail/eof flags (specs/ps.py)."""
    name = 'main'
    tu = 'src/main.cpp'
    tu_filter = 'main'
    aux_tus = [('src/main.cpp', 'vfps::')]
    params = ['argc', 'argv']
    tags = {'C15', 'C17'}
    ghosts = {'k': 'int'}
    slice_from = 'trackme'
    slice_count = 2

    def slice_setup(self, ex, st):
        from .common import PS_static, declare_ps, ps_globals
        from .sm import Ruler_valid
        cx = Ctx(ex, st, st, ex.args0)
        g = ex.args0.get('grid_t1')
        if not isinstance(g, ObjRef):
            raise ExtractionError('main: grid_t1 not found before the tracking file is read')
        self.grid = g.name
        nx, ny, nb = ps_globals(cx)
        st.assume(And(PS_static(cx), declare_ps(cx, g.name), Ruler_valid(cx, g.name + '._axis[0]', nx), Ruler_valid(cx, g.name + '._axis[1]', ny)))

    def assigns(self, cx):
        return [('s', 'ghost.*'), ('s', 'init:*'), ('s', 'arg:*')]

    @property
    def calls(self):
        from .ps import IStream
        noop = lambda ex, n, st, objn, argn, this_override=None: VoidV()
        strv = lambda ex, n, st, objn, argn, this_override=None: Opaque('string')
        fresh_bool = lambda ex, n, st, objn, argn, this_override=None: BoolV(z3.Bool(f'str_cmp!{ex.curline}!{id(n) % 9973}'))
        return {'operator>>': IStream.extract, 'good': IStream.good, 'operator bool': IStream.as_bool, 'fail': IStream.failed,
                'getParticleTracking': strv, 'operator!=': fresh_bool, 'operator==': fresh_bool,
                'ctor:std::basic_ifstream<char>': lambda ex, n, st, objn, argn, this_override=None: ObjRef(this_override, 'std::ifstream'),
                'ctor:std::ifstream': lambda ex, n, st, objn, argn, this_override=None: ObjRef(this_override, 'std::ifstream'),
                'ctor:std::basic_stringstream<char>': lambda ex, n, st, objn, argn, this_override=None: ObjRef(this_override, 'std::stringstream'),
                'ctor:std::stringstream': lambda ex, n, st, objn, argn, this_override=None: ObjRef(this_override, 'std::stringstream'),
                'operator<<': strv, 'operator+': strv, 'str': strv, 'what': strv, 'printText': noop, 'clear': self._clear}

    @staticmethod
    def _clear(ex, n, st, objn, argn, this_override=None):
        o = ex.ev_obj(objn, st)
        st.length[o.name] = I(0)
        ex.logw(('len', o.name))
        return VoidV()

    def ensures(self, cx):
        from .common import ps_globals
        nx, ny, nb = ps_globals(cx)
        k = cx.g('k')
        tm = cx.val('trackme').name
        inr = And(k >= 0, k < cx.len(tm))
        return [('particles_start_on_grid', {'C15', 'C17'}, Implies(inr, And(cx.sel(tm, k, 'x') >= 0, cx.sel(tm, k, 'x') <= z3.ToReal(nx) - 1,
                                                                          cx.sel(tm, k, 'y') >= 0, cx.sel(tm, k, 'y') <= z3.ToReal(ny) - 1)))]

    def _inv(self, cx):
        from .common import ps_globals
        nx, ny, nb = ps_globals(cx)
        k = cx.g('k')
        tm = cx.val('trackme').name
        inr = And(k >= 0, k < cx.len(tm))
        return [('len', cx.len(tm) >= 0),
                ('on_grid', Implies(inr, And(cx.sel(tm, k, 'x') >= 0, cx.sel(tm, k, 'x') <= z3.ToReal(nx) - 1, cx.sel(tm, k, 'y') >= 0, cx.sel(tm, k, 'y') <= z3.ToReal(ny) - 1)))]

    @property
    def loops(self):
        return {'while#0': LoopSpec(inv=self._inv)}


class MainStartDistribution(Contract):
    """main(): from the declaration of grid_t1 to the scan for the highest cell (C17, C09): whichever way the start
    distribution is obtained — built-in Gaussian, HDF5 results file, text particle list — the grid that the rest of main
    works with has exactly GridSize x GridSize cells per bunch (every later size in main: padding, maps, output extents, is
    derived from GridSize), the PhaseSpace constructor gets one share per bunch, and the scan stays inside the grid."""
    name = 'main'
    tu = 'src/main.cpp'
    tu_filter = 'main'
    aux_tus = [('src/main.cpp', 'vfps::'), ('src/PS/PhaseSpace.cpp', 'vfps::')]
    params = ['argc', 'argv']
    tags = {'C17', 'C09'}
    ghosts = {'k': 'int', 'n': 'int', 'x': 'int'}
    slice_from = 'grid_t1'
    slice_count = 7

    def slice_setup(self, ex, st):
        from .common import PS_NX, PS_NY, PS_NB, PS_NXY, PS_NXYB
        # facts of the statements before the slice (each checked on the AST): nbunches = bunches.size(); ps_bins = opts.getGridSize()
        fn = ex.fn
        from vf.unit import _walk
        facts = {'nbunches': 'size', 'ps_bins': 'getGridSize'}
        for vn, callee in facts.items():
            ok = False
            for d in _walk(fn):
                if d.get('kind') == 'VarDecl' and d.get('name') == vn:
                    ok = any(x.get('kind') == 'MemberExpr' and x.get('name') == callee for x in _walk(d))
            if not ok:
                raise ExtractionError(f'main: {vn} is no longer initialised from {callee}()')
        a = ex.args0
        for need in ('ps_bins', 'nbunches', 'bunches'):
            if need not in a:
                raise ExtractionError(f'main: variable {need} not found before the start distribution is built')
        st.assume(And(a['nbunches'].t == st.len_of(a['bunches'].name), a['nbunches'].t >= 1, a['ps_bins'].t >= 2, a['ps_bins'].t <= 65535,
                      a['ps_bins'].t * a['ps_bins'].t * a['nbunches'].t < 2 ** 32))
        # PhaseSpace::setSize has not been called yet (one-time setter; the globals are still zero)
        U32 = parse_type_str('unsigned int')
        for path in (PS_NX, PS_NY, PS_NB, PS_NXY, PS_NXYB):
            st.scal[path] = IntV(I(0), U32)
        st.scal['ghost.size_set'] = IntV(I(0), parse_type_str('int'))
        if 'qmax' in a and 'qmin' in a:
            st.assume(And(a['qmax'].t > a['qmin'].t, a['pmax'].t > a['pmin'].t))

    def assigns(self, cx):
        return [('s', 'ghost.*'), ('s', 'vfps::PhaseSpace::*'), ('s', 'arg:*'), ('r', 'heap:*'), ('len', 'heap:*'), ('s', 'heap:*')]

    @property
    def calls(self):
        from .common import PS_NX, PS_NY, PS_NB, PS_NXY, PS_NXYB, declare_ps, ps_globals
        from .ps import PhaseSpaceCtor12Use, PhaseSpaceCopyCtor, UpdateXProjection, Normalize
        from .sm import Ruler_valid
        U32 = parse_type_str('unsigned int')
        noop = lambda ex, n, st, objn, argn, this_override=None: VoidV()
        strv = lambda ex, n, st, objn, argn, this_override=None: Opaque('string')
        fresh_bool = lambda ex, n, st, objn, argn, this_override=None: BoolV(z3.Bool(f'cond!{ex.curline}!{id(n) % 99991}'))
        INST = lambda cx: [{'k': cx.ghost_of('k'), 'n': cx.ghost_of('n'), 'x': cx.ghost_of('x')}]

        def set_sizes(ex, st, x, b):
            """PhaseSpace::setSize(x, b): takes effect on the first call only"""
            first = st.scal['ghost.size_set'].t == 0
            xs, bs = ex.wrap(x, U32), ex.wrap(b, U32)
            for path, val in ((PS_NX, xs), (PS_NY, xs), (PS_NB, bs), (PS_NXY, ex.wrap(xs * xs, U32)), (PS_NXYB, ex.wrap(xs * xs * bs, U32))):
                st.scal[path] = IntV(If(first, val, st.scal[path].t), U32)
                ex.logw(('s', path))
            st.scal['ghost.size_set'] = IntV(I(1), parse_type_str('int'))
            ex.logw(('s', 'ghost.size_set'))

        def set_size(ex, n, st, objn, argn, this_override=None):
            x, b = ex.ev(argn[0], st), ex.ev(argn[1], st)
            set_sizes(ex, st, x.t, b.t)
            return VoidV()

        def loaded(ex, st, name, may_fail):
            """a phase space produced by one of the file loaders: class invariant for the sizes the loader set"""
            cx = Ctx(ex, st, st, ex.args0)
            nx, ny, nb = ps_globals(cx)
            st.assume(And(declare_ps(cx, name), Ruler_valid(cx, name + '._axis[0]', nx), Ruler_valid(cx, name + '._axis[1]', ny)))
            return ObjRef(name, 'std::unique_ptr<vfps::PhaseSpace>', null=z3.Bool(f'{name}==null') if may_fail else z3.BoolVal(False))

        def from_hdf5(ex, n, st, objn, argn, this_override=None):
            # contract of HDF5File::readPhaseSpace (specs/io.py ReadPhaseSpace) as seen through makePSFromHDF5: either nothing
            # (a message was printed), or a single-bunch phase space whose grid size is the one stored in the file
            for a_ in argn:
                try:
                    ex.ev(a_, st)
                except ExtractionError:
                    pass
            from vf.state import State
            nfile = State.fresh('h5.grid_size', z3.IntSort())
            st.assume(And(nfile >= 2, nfile <= 65535))
            set_sizes(ex, st, nfile, I(1))
            return loaded(ex, st, 'heap:PhaseSpace1', True)

        def from_txt(ex, n, st, objn, argn, this_override=None):
            # makePSFromTXT(fname, ps_size, ...): PhaseSpace::setSize(ps_size, 1) and a phase space of that size
            ps_size = ex.ev(argn[1], st)
            for a_ in argn[2:]:
                try:
                    ex.ev(a_, st)
                except ExtractionError:
                    pass
            set_sizes(ex, st, ps_size.t, I(1))
            return loaded(ex, st, 'heap:PhaseSpace1', False)

        def reset(ex, n, st, objn, argn, this_override=None):
            from vf.vcg import LVar
            v = ex.ev(argn[0], st) if argn else None
            d = objn
            while d.get('kind') in ('ImplicitCastExpr', 'ParenExpr'):
                d = d['inner'][0]
            vid = (d.get('referencedDecl') or {}).get('id')
            if vid is None or not isinstance(v, ObjRef):
                raise ExtractionError('main: grid_t1.reset(...) with something that is not a new PhaseSpace')
            st.env[vid] = ObjRef(v.name, 'std::shared_ptr<vfps::PhaseSpace>', null=z3.BoolVal(False))
            ex.logw(('v', vid))
            return VoidV()

        def assign_ptr(ex, n, st, objn, argn, this_override=None):
            # grid_t1 = <unique_ptr returned by a loader>
            v = ex.ev(argn[0], st) if parse_type(argn[0]['type']).kind != 'class' else ex.ev_obj(argn[0], st)
            d = objn
            while d.get('kind') in ('ImplicitCastExpr', 'ParenExpr'):
                d = d['inner'][0]
            vid = (d.get('referencedDecl') or {}).get('id')
            if isinstance(v, ObjRef) and vid is not None:
                st.env[vid] = ObjRef(v.name, 'std::shared_ptr<vfps::PhaseSpace>', null=v.null)
                ex.logw(('v', vid))
                return VoidV()
            raise ExtractionError(f'main: assignment to a grid pointer from {v}')

        class MakeSharedCopy(Use):
            def __init__(self):
                Use.__init__(self, PhaseSpaceCopyCtor(), inst=INST)
                self.n = 0

            def __call__(self, ex, n, st, objn, argn, this_override=None):
                self.n += 1
                nm = f'heap:copy{self.n}'
                Use.__call__(self, ex, n, st, None, argn, this_override=nm)
                return ObjRef(nm, 'std::shared_ptr<vfps::PhaseSpace>', null=z3.BoolVal(False))
        return {'setSize': set_size, 'makePSFromHDF5': from_hdf5, 'makePSFromTXT': from_txt, 'reset': reset, 'operator=': assign_ptr,
                'ctor:vfps::PhaseSpace': Use(PhaseSpaceCtor12Use(), inst=INST), 'make_shared': MakeSharedCopy(),
                'isOfFileType': fresh_bool, 'empty': fresh_bool, 'printText': noop, 'operator+': strv, 'operator<<': strv, 'str': strv,
                'getStartDistStep': lambda ex, n, st, objn, argn, this_override=None: IntV(z3.Int('opt:StartDistStep'), parse_type_str('long')),
                'getGridSize': lambda ex, n, st, objn, argn, this_override=None: ex.args0['ps_bins'],
                'updateXProjection': Use(UpdateXProjection(), inst=lambda cx: [{'n': cx.ghost_of('n'), 'x': cx.ghost_of('x'), 'k': cx.ghost_of('k')}]),
                'normalize': Use(Normalize(), inst=lambda cx: [{'n': cx.ghost_of('n'), 'x': cx.ghost_of('x'), 'y': cx.ghost_of('k')}]),
                'min': lambda ex, n, st, objn, argn, this_override=None: RealV(z3.Real('float_min'), parse_type_str('float'))}

    def ensures(self, cx):
        from .common import ps_globals
        nx, ny, nb = ps_globals(cx)
        r = cx.ret
        if isinstance(r, IntV):
            return []           # early exit with a message (start file refused): nothing further runs
        return [('grid_has_GridSize_cells', {'C17', 'C09'}, And(nx == cx.a('ps_bins'), ny == cx.a('ps_bins')))]

    def _inv(self, var):
        def inv(cx):
            from .common import ps_globals
            nx, ny, nb = ps_globals(cx)
            out = [('sizes', And(nx == cx.a('ps_bins'), ny == cx.a('ps_bins'), nb >= 1))]
            return out
        return inv

    @property
    def loops(self):
        return {'x#0': LoopSpec(inv=self._inv('x')), 'y#0': LoopSpec(inv=self._inv('y'))}
