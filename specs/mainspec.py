"""Contracts on slices of main() (src/main.cpp): the configuration arithmetic (U23)."""
from .common import *

PI = models.uf_const('PI')


class UpperPow2(Contract):
    """vfps::upper_power_of_two: proved bit-precisely for all inputs by the CBMC leaf check (cbmc/upper_power_of_two)"""
    name = 'vfps::upper_power_of_two'
    tu = 'src/HelperFunctions.cpp'
    params = ['v']

    def requires(self, cx):
        return [('range', And(cx.a('v') >= 1, cx.a('v') <= 2 ** 63))]

    def result(self, cx):
        r = z3.Int(f'pow2!{id(cx)}')
        cx.st.assume(And(r >= cx.a('v'), r < 2 * cx.a('v'), r <= 2 ** 63))
        return IntV(r, parse_type_str('unsigned long'))


class MainConfig(Contract):
    name = 'main'
    tu = 'src/main.cpp'
    tu_filter = 'main'
    aux_tus = [('src/main.cpp', 'vfps::')]
    params = ['argc', 'argv']
    tags = {'C03', 'C04', 'C05', 'C06', 'C17'}
    ghosts = {'g': 'int', 'g2': 'int'}
    slice_targets = ['spacing_bins', 'padded_bins', 'spaced_bins', 'bucketnumbers', 'nbunches', 'nbuckets', 'angle', 'steps', 'dt', 'revolutionpart', 'ps_bins']
    slice_stop = 'startdistfile'
    slice_externals = {'opts': 'vfps::ProgramOptions'}
    canary = True

    def o(self, cx, name, kind='real'):
        return cx.f('opts.' + name, kind)

    def requires(self, cx):
        o = self.o
        N = o(cx, 'meshsize', 'int')
        fsz = cx.len('opts.I_b')
        # documented option domain: grid of at least 2 cells, positive machine parameters, a sane number of buckets
        return [('domain', And(N >= 2, N <= 65535, fsz >= 1, fsz <= 4096,
                               o(cx, 'pq_size') > 0, o(cx, 'E_0') > 0, o(cx, 's_E') > 0, o(cx, 'f0') > 0, o(cx, 'H') >= 1, o(cx, 'V_RF') > 0,
                               o(cx, 'padding') <= 1024, PI > 3, PI < 4))]

    # documented domain of derived configuration values (C17: "buckets not overlapping", lengths that fit the index types)
    domain_after = {
        'spacing_ps': lambda cx: And(cx.v('spacing_ps') >= 1, cx.v('spacing_ps') * z3.ToReal(cx.v('ps_bins')) * 4096 < 2 ** 31),
        'steps': lambda cx: cx.v('steps') > 0,
        'fs': lambda cx: cx.v('fs') != 0,
    }

    def post_state(self, cx):
        v = cx.v
        return v

    def ensures(self, cx):
        v = cx.v
        g, g2 = cx.g('g'), cx.g('g2')
        nbunches, nbuckets, N = v('nbunches'), v('nbuckets'), v('ps_bins')
        bn = cx.st.array('local:bucketnumbers', '', parse_type_str('unsigned int'))
        nfreq = If(nbuckets > 1, v('spaced_bins'), v('padded_bins'))
        out = [('buckets.count', {'C17', 'C06'}, And(cx.st.len_of('local:bucketnumbers') == nbunches, nbunches <= nbuckets)),
               ('buckets.range', {'C17', 'C06'}, Implies(And(g >= 0, g < nbunches), And(z3.Select(bn, g) >= 0, z3.Select(bn, g) <= nbuckets - 1))),
               ('buckets.decreasing', {'C17', 'C06', 'C18'}, Implies(And(g >= 0, g < g2, g2 < nbunches), z3.Select(bn, g) > z3.Select(bn, g2))),
               # every bunch fits into the padded buffer at its bucket position (precondition of ElectricField::padBunchProfiles)
               ('pad.fits', {'C17', 'C06'}, Implies(And(g >= 0, g < nbunches, cx.v('spacing_ps') >= 1), z3.Select(bn, g) * v('spacing_bins') + N <= nfreq)),
               ('pad.width', {'C17'}, v('padded_bins') >= N),
               ('angle', {'C03'}, v('angle') == 2 * PI / v('steps')),
               ('dt', {'C05', 'C03'}, And(v('dt') == 1 / (v('fs') * v('steps')), v('revolutionpart') == v('f_rev') * v('dt')))]
        return out

    def _inv_fill(self, cx):
        i = cx.v('i')
        g, g2 = cx.g('g'), cx.g('g2')
        st = cx.st
        bn = st.array('local:bucketnumbers', '', parse_type_str('unsigned int'))
        nbk = st.len_of('local:filling')
        lb = st.len_of('local:bucketnumbers')
        return [('range', And(i >= 0, i <= nbk)), ('len', And(lb <= i, lb == st.len_of('local:bunches'))),
                ('fill_len', nbk == cx.old.len('opts.I_b')),
                ('values', Implies(And(g >= 0, g < lb), And(z3.Select(bn, g) <= nbk - 1, z3.Select(bn, g) > nbk - 1 - i, z3.Select(bn, g) >= 0))),
                ('decreasing', Implies(And(g >= 0, g < g2, g2 < lb), z3.Select(bn, g) > z3.Select(bn, g2)))]

    @property
    def loops(self):
        return {'i#0': LoopSpec(inv=self._inv_fill)}

    calls = {'vfps::upper_power_of_two': Use(UpperPow2()), 'upper_power_of_two': Use(UpperPow2())}


class MainPhysics(MainConfig):
    """second slice: slip factors of the drift and the damping decrement"""
    tags = {'C03', 'C04'}
    slice_targets = ['slip', 'e1', 'angle', 'steps', 'fs', 't_damp']
    slice_stop = 'wake_impedance'
    ghosts = {}
    loops = {}

    def ensures(self, cx):
        v = cx.v
        sl = cx.st.array('local:slip', '', parse_type_str('float'))
        return [('slip0', {'C03'}, And(cx.st.len_of('local:slip') == 3, z3.Select(sl, 0) == v('angle'))),
                ('angle', {'C03'}, v('angle') == 2 * PI / v('steps')),
                ('e1', {'C04'}, Implies(v('t_damp') > 0, v('e1') == 2 / (v('fs') * v('t_damp') * v('steps'))))]


class MainTrackingFile(Contract):
    """main(): reading the particle tracking file (C15/C17).  For every content of the file — any number of values, malformed
    text, coordinates far outside the grid — each stored particle starts on the grid (0 <= x <= nx-1, 0 <= y <= ny-1): the
    precondition of every tracking map and of HDF5File::appendTracks.  std::istream as fail/eof flags (specs/ps.py)."""
    name = 'main'
    tu = 'src/main.cpp'
    tu_filter = 'main'
    aux_tus = [('src/main.cpp', 'vfps::')]
    params = ['argc', 'argv']
    tags = {'C15', 'C17'}
    ghosts = {'k': 'int'}
    slice_from = 'trackme'
    slice_count = 2

    def slice_setup(self, ex, st):
        from .common import PS_static, declare_ps, ps_globals
        from .sm import Ruler_valid
        cx = Ctx(ex, st, st, ex.args0)
        g = ex.args0.get('grid_t1')
        if not isinstance(g, ObjRef):
            raise ExtractionError('main: grid_t1 not found before the tracking file is read')
        self.grid = g.name
        nx, ny, nb = ps_globals(cx)
        st.assume(And(PS_static(cx), declare_ps(cx, g.name), Ruler_valid(cx, g.name + '._axis[0]', nx), Ruler_valid(cx, g.name + '._axis[1]', ny)))

    def assigns(self, cx):
        return [('s', 'ghost.*'), ('s', 'init:*'), ('s', 'arg:*')]

    @property
    def calls(self):
        from .ps import IStream
        noop = lambda ex, n, st, objn, argn, this_override=None: VoidV()
        strv = lambda ex, n, st, objn, argn, this_override=None: Opaque('string')
        fresh_bool = lambda ex, n, st, objn, argn, this_override=None: BoolV(z3.Bool(f'str_cmp!{ex.curline}!{id(n) % 9973}'))
        return {'operator>>': IStream.extract, 'good': IStream.good, 'operator bool': IStream.as_bool, 'fail': IStream.failed,
                'getParticleTracking': strv, 'operator!=': fresh_bool, 'operator==': fresh_bool,
                'ctor:std::basic_ifstream<char>': lambda ex, n, st, objn, argn, this_override=None: ObjRef(this_override, 'std::ifstream'),
                'ctor:std::ifstream': lambda ex, n, st, objn, argn, this_override=None: ObjRef(this_override, 'std::ifstream'),
                'ctor:std::basic_stringstream<char>': lambda ex, n, st, objn, argn, this_override=None: ObjRef(this_override, 'std::stringstream'),
                'ctor:std::stringstream': lambda ex, n, st, objn, argn, this_override=None: ObjRef(this_override, 'std::stringstream'),
                'operator<<': strv, 'operator+': strv, 'str': strv, 'what': strv, 'printText': noop, 'clear': self._clear}

    @staticmethod
    def _clear(ex, n, st, objn, argn, this_override=None):
        o = ex.ev_obj(objn, st)
        st.length[o.name] = I(0)
        ex.logw(('len', o.name))
        return VoidV()

    def ensures(self, cx):
        from .common import ps_globals
        nx, ny, nb = ps_globals(cx)
        k = cx.g('k')
        tm = cx.val('trackme').name
        inr = And(k >= 0, k < cx.len(tm))
        return [('particles_start_on_grid', {'C15', 'C17'}, Implies(inr, And(cx.sel(tm, k, 'x') >= 0, cx.sel(tm, k, 'x') <= z3.ToReal(nx) - 1,
                                                                          cx.sel(tm, k, 'y') >= 0, cx.sel(tm, k, 'y') <= z3.ToReal(ny) - 1)))]

    def _inv(self, cx):
        from .common import ps_globals
        nx, ny, nb = ps_globals(cx)
        k = cx.g('k')
        tm = cx.val('trackme').name
        inr = And(k >= 0, k < cx.len(tm))
        return [('len', cx.len(tm) >= 0),
                ('on_grid', Implies(inr, And(cx.sel(tm, k, 'x') >= 0, cx.sel(tm, k, 'x') <= z3.ToReal(nx) - 1, cx.sel(tm, k, 'y') >= 0, cx.sel(tm, k, 'y') <= z3.ToReal(ny) - 1)))]

    @property
    def loops(self):
        return {'while#0': LoopSpec(inv=self._inv)}
