// Native check: /Info/AxisValues_E must hold the energy-axis coordinates actually used (C10).
// usage: h5_axis_check <file.h5> <GridSize> <PhaseSpaceSize> <ShiftY>  ; exit 1 if the stored axis deviates
#include <H5Cpp.h>
#include <cstdio>
#include <cstdlib>
#include <cmath>
#include <vector>
int main(int argc, char** argv) {
    if (argc < 5) return 3;
    H5::H5File f(argv[1], H5F_ACC_RDONLY);
    int N = atoi(argv[2]); double pq = atof(argv[3]), shift = atof(argv[4]);
    H5::DataSet ds = f.openDataSet("/Info/AxisValues_E");
    std::vector<float> v(N);
    ds.read(v.data(), H5::PredType::NATIVE_FLOAT);
    double centre = -shift * pq / (N - 1), pmin = centre - pq / 2, d = pq / (N - 1);
    int bad = 0;
    for (int i = 0; i < N; i++) if (std::fabs(v[i] - (pmin + i * d)) > 1e-4) { if (bad < 3) printf("MISMATCH AxisValues_E[%d] stored=%g grid coordinate used=%g\n", i, v[i], pmin + i * d); bad++; }
    printf("%d deviating axis entries\n", bad);
    return bad ? 1 : 0;
}
