// Native check for the C10 finding: in every record that holds both a phase space and a bunch profile,
// is the stored profile the Simpson projection of the stored phase space?
// usage: h5_profile_check <file.h5>   exit 1 if some record deviates by more than 20 float ulps relative, else 0
#include <H5Cpp.h>
#include <cstdio>
#include <cmath>
#include <vector>
int main(int argc, char** argv) {
    if (argc < 2) return 3;
    H5::H5File f(argv[1], H5F_ACC_RDONLY);
    auto rd = [&](const char* name, std::vector<hsize_t>& dims) {
        H5::DataSet ds = f.openDataSet(name);
        H5::DataSpace sp = ds.getSpace();
        dims.resize(sp.getSimpleExtentNdims());
        sp.getSimpleExtentDims(dims.data());
        size_t n = 1; for (auto d : dims) n *= d;
        std::vector<float> v(n);
        ds.read(v.data(), H5::PredType::NATIVE_FLOAT);
        return v;
    };
    std::vector<hsize_t> dps, dbp, dt, dtp, dax;
    auto ps = rd("/PhaseSpace/data", dps);
    auto bp = rd("/BunchProfile/data", dbp);
    auto t = rd("/Info/AxisValues_t", dt);
    auto tp = rd("/PhaseSpace/axis0", dtp);
    auto ax = rd("/Info/AxisValues_E", dax);
    size_t nb = dps[1], N = dps[2];
    double h = ax[1] - ax[0];
    int bad = 0;
    for (size_t r = 0; r < dps[0]; r++) {
        // matching record in the profile dataset (same time value)
        size_t rr = dt[0];
        for (size_t k = 0; k < dt[0]; k++) if (t[k] == tp[r]) rr = k;
        if (rr == dt[0]) continue;
        for (size_t b = 0; b < nb; b++) {
            double worst = 0, num = 0, den = 0;
            for (size_t x = 0; x < N; x++) {
                double s = 0;
                for (size_t y = 0; y < N; y++) {
                    double w = (y == 0 || y == N - 1) ? 1 : ((y % 2) ? 4 : 2);
                    s += w * h / 3 * ps[((r * nb + b) * N + x) * N + y];
                }
                double p = bp[(rr * nb + b) * N + x];
                num += p; den += s;
            }
            double ratio = num / den;
            if (std::fabs(ratio - 1) > 20 * 6e-8) { printf("record t=%g bunch %zu: stored profile / projection of stored phase space = %.9f\n", tp[r], b, ratio); bad++; }
        }
    }
    printf("%d inconsistent records\n", bad);
    return bad ? 1 : 0;
}
