// Native check for C10 on a results file: "the stored CSR intensity is the sum of the stored spectrum, and each bunch's
// row holds that bunch's data".  For every record and bunch:  delta_f * sum_i Spectrum[t][b][i]  ==  Intensity[t][b]
// (the spectrum is zero above half the transform length, so the stored lower half carries the whole sum).
// usage: h5_csr_rows_check <file.h5>   exit 1 if some bunch row deviates by more than 1e-3 relative, else 0
#include <H5Cpp.h>
#include <cstdio>
#include <cmath>
#include <vector>
int main(int argc, char** argv) {
    if (argc < 2) return 3;
    H5::H5File f(argv[1], H5F_ACC_RDONLY);
    auto rd = [&](const char* name, std::vector<hsize_t>& dims) {
        H5::DataSet ds = f.openDataSet(name);
        H5::DataSpace sp = ds.getSpace();
        dims.resize(sp.getSimpleExtentNdims());
        sp.getSimpleExtentDims(dims.data());
        size_t n = 1; for (auto d : dims) n *= d;
        std::vector<float> v(n);
        ds.read(v.data(), H5::PredType::NATIVE_FLOAT);
        return v;
    };
    std::vector<hsize_t> dsp, din, dax;
    auto sp = rd("/CSR/Spectrum/data", dsp);
    auto in = rd("/CSR/Intensity/data", din);
    auto ax = rd("/Info/AxisValues_f", dax);
    if (dsp.size() != 3 || din.size() != 2 || dsp[0] == 0) { printf("no CSR spectrum records\n"); return 0; }
    size_t nt = dsp[0], nb = dsp[1], nf = dsp[2];
    double df = ax[1] - ax[0];
    int bad = 0;
    for (size_t t = 0; t < nt && t < din[0]; t++)
        for (size_t b = 0; b < nb; b++) {
            double s = 0; for (size_t i = 0; i < nf; i++) s += sp[(t * nb + b) * nf + i];
            double want = in[t * nb + b];
            if (std::fabs(s * df - want) > 1e-3 * std::fabs(want) + 1e-30) {
                if (bad < 6) printf("record %zu bunch %zu: delta_f * sum(stored spectrum row) = %.6g, stored intensity = %.6g\n", t, b, s * df, want);
                bad++; }
        }
    printf("%d bunch rows whose spectrum does not sum to the stored intensity (%zu records, %zu bunches)\n", bad, nt, nb);
    return bad ? 1 : 0;
}
