// Native replay for the HDF5 start distribution (HDF5File::readPhaseSpace through makePSFromHDF5) on the real sources.
// usage: h5start_replay all
//   writes start files whose /PhaseSpace/data has an unexpected shape (scalar, no records, grid size 0 or 1, rank 2, rank 5, several bunches)
//   plus a good one, loads each with the real function in a child process, and requires: no crash (signal), and either a
//   phase space of the stored grid size or a refusal (nullptr) — C17: "either completes or stops with a message".
// exit 0 fine, 1 some file crashes the loader, 3 usage
#include <cstdio>
#include <cstdlib>
#include <vector>
#include <string>
#include <sys/wait.h>
#include <unistd.h>
#include "IO/Display.cpp"
#include "PS/PhaseSpace.cpp"
#include "PS/PhaseSpaceFactory.cpp"
#include "PS/ElectricField.cpp"
#include "Z/Impedance.cpp"
#include "SM/SourceMap.cpp"
#include "SM/KickMap.cpp"
#include "SM/WakeKickMap.cpp"
#include "IO/HDF5File.cpp"
#include "FFTWWrapper.cpp"
#include "HelperFunctions.cpp"
#include "IO/FSPath.cpp"
using namespace vfps;
static void mk(const std::string& fn, std::vector<hsize_t> d) {
    H5::H5File f(fn, H5F_ACC_TRUNC); f.createGroup("/PhaseSpace");
    H5::DataSpace sp = d.size() ? H5::DataSpace((int)d.size(), d.data()) : H5::DataSpace(H5S_SCALAR);
    H5::DataSet ds = f.createDataSet("/PhaseSpace/data", H5::PredType::IEEE_F32LE, sp);
    size_t n = 1; for (auto x : d) n *= x;
    if (n && d.size()) { std::vector<float> v(n, 0.001f); ds.write(v.data(), H5::PredType::NATIVE_FLOAT); }
}
int main(int argc, char** argv) {
    if (argc != 2) return 3;
    struct C { const char* name; std::vector<hsize_t> dims; long want; } cases[] = {
        {"good", {2, 16, 16}, 16}, {"good_rank4", {1, 1, 8, 8}, 8}, {"scalar", {}, -1}, {"no_records", {0, 16, 16}, -1}, {"grid_size_0", {1, 0, 0}, -1},
        {"grid_size_1", {1, 1, 1}, -1}, {"rank2", {4, 4}, -1}, {"rank5", {1, 1, 4, 4, 2}, -1},
        {"two_bunches", {1, 2, 8, 8}, -1}, {"three_bunches_two_records", {2, 3, 8, 8}, -1}};    // C11: a multi-bunch results file is refused, not loaded in part
    int bad = 0;
    H5::Exception::dontPrint();
    for (auto& c : cases) {
        std::string fn = std::string("/tmp/vf_h5start_") + std::to_string((long)getpid()) + "_" + c.name + ".h5";
        mk(fn, c.dims);
        fflush(stdout);
        pid_t p = fork();
        if (p == 0) {
            freopen("/dev/null", "w", stderr);
            auto ps = makePSFromHDF5(fn, -1, -6, 6, -6, 6, nullptr, 1e-9, 1e-3, 1e-3, 1e3);
            long got = ps ? (long)PhaseSpace::nx : -1;
            _exit(got == c.want ? 0 : 1);
        }
        int stt = 0; waitpid(p, &stt, 0);
        if (WIFSIGNALED(stt)) { printf("MISMATCH start file '%s': loader killed by signal %d\n", c.name, WTERMSIG(stt)); bad++; }
        else if (WEXITSTATUS(stt) != 0) { printf("MISMATCH start file '%s': %s\n", c.name, c.want < 0 ? "was accepted although its shape is unusable" : "was refused or loaded with the wrong grid size"); bad++; }
        remove(fn.c_str());
    }
    // C11: which record is loaded.  Record k of the file holds the value 1+k everywhere; step s >= 0 selects record s, step s < 0
    // counts from the end (-1 = last).  Record counts that are not powers of two on purpose.
    for (hsize_t nrec : {2, 3, 5, 6, 8}) {
        std::string fn = std::string("/tmp/vf_h5start_") + std::to_string((long)getpid()) + "_rec" + std::to_string((long)nrec) + ".h5";
        {
            H5::H5File f(fn, H5F_ACC_TRUNC); f.createGroup("/PhaseSpace");
            hsize_t d[3] = {nrec, 8, 8};
            H5::DataSpace sp(3, d);
            H5::DataSet ds = f.createDataSet("/PhaseSpace/data", H5::PredType::IEEE_F32LE, sp);
            std::vector<float> v(nrec * 64);
            for (hsize_t k = 0; k < nrec; k++) for (int c = 0; c < 64; c++) v[k * 64 + c] = 1.0f + k;
            ds.write(v.data(), H5::PredType::NATIVE_FLOAT);
        }
        for (long step : {-1L, -2L, 0L, 1L, (long)nrec - 1, -(long)nrec}) {
            long want = step >= 0 ? step : (long)nrec + step;
            fflush(stdout);
            pid_t p = fork();
            if (p == 0) {
                freopen("/dev/null", "w", stderr);
                auto ps = makePSFromHDF5(fn, step, -6, 6, -6, 6, nullptr, 1e-9, 1e-3, 1e-3, 1e3);
                if (!ps) _exit(2);
                const meshdata_t* dd = ps->getData();
                bool ok = true;
                for (int c = 0; c < 64; c++) ok = ok && dd[c] == 1.0f + want;
                _exit(ok ? 0 : 1);
            }
            int stt = 0; waitpid(p, &stt, 0);
            if (WIFSIGNALED(stt) || WEXITSTATUS(stt) != 0) {
                printf("MISMATCH start file with %ld records, InitialDistStep %ld: %s (oracle: record %ld)\n", (long)nrec, step,
                       WIFSIGNALED(stt) ? "loader killed by a signal" : WEXITSTATUS(stt) == 2 ? "refused" : "another record was loaded", want);
                bad++;
            }
        }
        remove(fn.c_str());
    }
    printf("h5start: %d mismatches\n", bad);
    return bad ? 1 : 0;
}
