// Native replay for ProgramOptions (real class): accessors against the option of their meaning, and the save -> --config round trip.
// usage: po_replay getters      every accessor main reads returns the value given for the option of that meaning (C04, C03, ... )
//        po_replay roundtrip    parse (command line and/or a parent config with current or legacy names) -> save(cfg) -> parse --config cfg:
//                               every accessor returns the same value as in the original invocation, and the value the run uses is the one saved (C13, C10)
// (getHaissinskiIterations is left out: compatibility option of the config file only, never read by main, member not initialised without a config file)
// exit 0 agree, 1 mismatch, 3 usage
#include <cstdio>
#include <cstdlib>
#include <cmath>
#include <vector>
#include <string>
#include <sstream>
#include <fstream>
#include <functional>
#include <unistd.h>
#include "IO/Display.cpp"
#include "IO/ProgramOptions.cpp"
#include "HelperFunctions.cpp"
#include "IO/FSPath.cpp"
#if INOVESA_USE_HDF5 == 1
#include "PS/PhaseSpace.cpp"
#include "PS/ElectricField.cpp"
#include "Z/Impedance.cpp"
#include "SM/SourceMap.cpp"
#include "SM/KickMap.cpp"
#include "SM/WakeKickMap.cpp"
#include "IO/HDF5File.cpp"
#include "FFTWWrapper.cpp"
#endif
using namespace vfps;
static int bad = 0;
static std::string str(const std::string& s) { return s; }
static std::string str(bool b) { return b ? "1" : "0"; }
static std::string str(const std::vector<integral_t>& v) { std::ostringstream o; o.precision(17); for (auto x : v) o << x << ' '; return o.str(); }
template <class T> static std::string str(T v) { std::ostringstream o; o.precision(17); o << +v; return o.str(); }
struct Acc { const char* name; std::function<std::string(ProgramOptions&)> get; };
#define A(g) Acc{#g, [](ProgramOptions& o) { return str(o.g()); }}
static std::vector<Acc> accessors() {
    return {A(getFPType), A(getFPTrack), A(getDampingTime), A(getDerivationType), A(getEnergySpread), A(getStepsPerTsync), A(getStepsPerTrev), A(getNRotations),
            A(getOutSteps), A(getSavePhaseSpace), A(getRenormalizeCharge), A(getGridSize), A(getPhaseSpaceSize), A(getPSShiftX), A(getPSShiftY), A(getAlpha0), A(getAlpha1),
            A(getAlpha2), A(getSyncFreq), A(getRFVoltage), A(getRevolutionFrequency), A(getHarmonicNumber), A(getBeamEnergy), A(getBendingRadius), A(getLinearRF),
            A(getRFAmplitudeSpread), A(getRFPhaseSpread), A(getRFPhaseModAmplitude), A(getRFPhaseModFrequency), A(getBunchCurrents), A(getVacuumChamberGap), A(getUseCSR),
            A(getCollimatorRadius), A(getWallConductivity), A(getWallSusceptibility), A(getImpedanceFile), A(getCutoffFrequency), A(getPadding), A(getRoundPadding),
            A(getStartDistFile), A(getStartDistStep), A(getStartDistZoom), A(getParticleTracking), A(getOutFile), A(getInterpolationPoints),
            A(getInterpolationClamped)};
}
static bool parse(ProgramOptions& o, std::vector<std::string> args) {
    std::vector<char*> av; static std::string prog = "inovesa"; av.push_back(&prog[0]);
    for (auto& a : args) av.push_back(&a[0]);
    try { return o.parse((int)av.size(), av.data()); } catch (std::exception& e) { printf("parse threw: %s\n", e.what()); return false; }
}
int main(int argc, char** argv) {
    if (argc != 2) return 3;
    std::string mode = argv[1];
    char tmpl[] = "/tmp/po_replayXXXXXX"; std::string dir = mkdtemp(tmpl);
    if (mode == "getters") {
        // accessor, option of that meaning, a value no other option is given
        struct G { const char* acc; const char* opt; const char* val; } table[] = {
            {"getFPType", "FPType", "1"}, {"getFPTrack", "FPTrack", "2"}, {"getDampingTime", "DampingTime", "0.0125"}, {"getDerivationType", "derivation", "4"},
            {"getEnergySpread", "BeamEnergySpread", "0.00123"}, {"getStepsPerTsync", "StepsPerTs", "777"}, {"getStepsPerTrev", "StepsPerRevolution", "3.5"},
            {"getNRotations", "rotations", "6.25"}, {"getOutSteps", "outstep", "37"}, {"getSavePhaseSpace", "SavePhaseSpace", "5"}, {"getRenormalizeCharge", "RenormalizeCharge", "9"},
            {"getGridSize", "GridSize", "48"}, {"getPhaseSpaceSize", "PhaseSpaceSize", "9.5"}, {"getPSShiftX", "PhaseSpaceShiftX", "3"}, {"getPSShiftY", "PhaseSpaceShiftY", "-2"},
            {"getAlpha0", "alpha0", "0.0075"}, {"getAlpha1", "alpha1", "0.0011"}, {"getAlpha2", "alpha2", "0.0013"}, {"getSyncFreq", "SynchrotronFrequency", "8765"},
            {"getRFVoltage", "AcceleratingVoltage", "1234500"}, {"getRevolutionFrequency", "RevolutionFrequency", "2715000"}, {"getHarmonicNumber", "HarmonicNumber", "184"},
            {"getBeamEnergy", "BeamEnergy", "1.25e9"}, {"getBendingRadius", "BendingRadius", "5.25"}, {"getLinearRF", "LinearRF", "0"},
            {"getRFAmplitudeSpread", "RFAmplitudeSpread", "0.015"}, {"getRFPhaseSpread", "RFPhaseSpread", "0.025"}, {"getRFPhaseModAmplitude", "RFPhaseModAmplitude", "0.035"},
            {"getRFPhaseModFrequency", "RFPhaseModFrequency", "45000"}, {"getBunchCurrents", "BunchCurrent", "0.00175"}, {"getVacuumChamberGap", "VacuumGap", "0.0325"},
            {"getUseCSR", "UseCSR", "0"}, {"getCollimatorRadius", "CollimatorRadius", "0.0045"}, {"getWallConductivity", "WallConductivity", "35000000"},
            {"getWallSusceptibility", "WallSusceptibility", "-0.5"}, {"getImpedanceFile", "Impedance", "some_impedance.dat"}, {"getCutoffFrequency", "CutoffFreq", "2.5e10"},
            {"getPadding", "padding", "3.5"}, {"getRoundPadding", "RoundPadding", "0"},
            {"getStartDistFile", "InitialDistFile", "start_here.h5"}, {"getStartDistStep", "InitialDistStep", "-3"}, {"getStartDistZoom", "InitialDistZoom", "1.75"},
            {"getParticleTracking", "tracking", "particles.txt"}, {"getOutFile", "output", "result_file.h5"}, {"getInterpolationPoints", "InterpolationPoints", "3"},
            {"getInterpolationClamped", "InterpolateClamped", "0"}};
        auto accs = accessors();
        for (auto& g : table) {
            ProgramOptions o; ProgramOptions ref;
            if (!parse(o, {std::string("--") + g.opt, g.val}) ) { printf("MISMATCH option --%s %s refused\n", g.opt, g.val); bad++; continue; }
            parse(ref, {});
            // the same value given in a config file only (C20: the config file is the second source of every option)
            ProgramOptions oc;
            {
                std::ofstream cf(dir + "/one.cfg"); cf << g.opt << "=" << g.val << "\n";
            }
            bool cfg_ok = parse(oc, {"-c", dir + "/one.cfg"});
            if (!cfg_ok) { printf("MISMATCH option %s=%s refused in a config file\n", g.opt, g.val); bad++; }
            for (auto& a : accs) if (cfg_ok && std::string(a.name) == g.acc) {
                std::string got = a.get(oc);
                double gv = atof(got.c_str()), wv = atof(g.val);
                bool numeric = (std::string(g.val).find_first_not_of("0123456789.-+e") == std::string::npos);
                bool ok = numeric ? (std::fabs(gv - wv) <= 1e-6 * (std::fabs(wv) + 1e-30)) : (got == g.val);
                if (!ok) { printf("MISMATCH %s() = %s after %s=%s in the config file\n", g.acc, got.c_str(), g.opt, g.val); bad++; }
            }
            for (auto& a : accs) if (std::string(a.name) == g.acc) {
                std::string got = a.get(o), dflt = a.get(ref);
                // the accessor shows the given value: numerically equal (or the same text), and different from the default
                double gv = atof(got.c_str()), wv = atof(g.val);
                bool numeric = (std::string(g.val).find_first_not_of("0123456789.-+e") == std::string::npos);
                bool ok = numeric ? (std::fabs(gv - wv) <= 1e-6 * (std::fabs(wv) + 1e-30)) : (got == g.val);
                if (!ok) { printf("MISMATCH %s() = %s after --%s %s (default %s)\n", g.acc, got.c_str(), g.opt, g.val, dflt.c_str()); bad++; }
            }
        }
        printf("po_replay getters: %d mismatches over %zu accessors\n", bad, sizeof(table) / sizeof(table[0]));
        boost::filesystem::remove_all(dir);
        return bad ? 1 : 0;
    }
    if (mode == "roundtrip") {
        auto accs = accessors();
        auto wr = [&](const std::string& fn, const std::string& txt) { std::ofstream f(fn); f << txt; return fn; };
        std::string cur = wr(dir + "/current.cfg", "SynchrotronFrequency=9000\nAcceleratingVoltage=1.5e6\nStepsPerTs=1500\nBunchCurrent=0.001\nBunchCurrent=0.0005\n");
        std::string leg = wr(dir + "/legacy.cfg", "SyncFreq=9000\nRFVoltage=1.5e6\nsteps=1500\n");
        std::vector<std::vector<std::string>> scen = {
            {"-s", "64", "-T", "2.5", "-N", "500", "-I", "0.001", "0.002", "-f", "8000"},
            {"--alpha0", "0.005", "-V", "1.2e6", "-n", "7", "--RenormalizeCharge", "3", "--FPType", "1", "--FPTrack", "2"},
            {"-c", cur}, {"-c", cur, "-f", "8000", "-N", "900"},
            {"-c", leg}, {"-c", leg, "-f", "8000"}, {"-c", leg, "-V", "1.1e6", "-N", "700"},
            {"-F", "2715563.7", "-E", "1.2345678e9", "-I", "0.00123456789", "0.000987654321", "-f", "8765.4321", "--alpha1", "0.0123456789", "-T", "3.14159265", "-d", "0.010432118746123",
             "-V", "1234567.89", "--CutoffFreq", "2.3456789e10", "--VacuumGap", "0.0323456789", "--InitialDistZoom", "1.23456789"},
            {"--PhaseSpaceShiftX", "5", "--PhaseSpaceShiftY", "-3", "--padding", "4", "--RoundPadding", "0", "--InterpolationPoints", "3", "--derivation", "4"},
            // file names with blanks (text options are written verbatim: the config-file parser keeps quotes as part of the value)
            {"--tracking", "tracked particles.txt", "--Impedance", "my impedance table.dat", "-i", "results 2019/run 1.h5", "-o", "out dir/next run.h5"}};
        int si = 0;
        for (auto& args : scen) {
            si++;
            ProgramOptions a;
            if (!parse(a, args)) { printf("MISMATCH scenario %d refused\n", si); bad++; continue; }
            std::string saved = dir + "/saved" + std::to_string(si) + ".cfg";
            a.save(saved);
            ProgramOptions b;
            if (!parse(b, {"-c", saved})) { printf("MISMATCH scenario %d: saved config refused\n", si); bad++; continue; }
            for (auto& ac : accs) { std::string x = ac.get(a), y = ac.get(b);
                bool same = (x == y);      // exactly the same value (C13), printed with 17 significant digits
                if (std::string(ac.name) == "getAlpha0" && a.getSyncFreq() != 0) continue;    // alpha0 is deliberately written as 0 when a synchrotron frequency is in use
                if (!same) { if (bad < 10) printf("MISMATCH scenario %d: %s() original=%s, from the saved config=%s\n", si, ac.name, x.c_str(), y.c_str()); bad++; } }
        }
        printf("po_replay roundtrip: %d mismatches over %zu scenarios\n", bad, scen.size());
        boost::filesystem::remove_all(dir);
        return bad ? 1 : 0;
    }
    return 3;
}
