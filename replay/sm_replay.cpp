// Native replay harness for the source-map units: runs the REAL classes from /repo
// (unity build, -fno-access-control) on sizes taken from a verifier counterexample and
// evaluates an independent, direct double-precision oracle.
// usage: sm_replay kick <N> <nb> <it> <axis 0=x,1=y> <lastbunch|-1> <seed>
//        sm_replay rf   <N> <nb> <it> <linear 0|1> <seed>
//        sm_replay fp   <N> <nb> <fptype> <deriv 3|4> <e1> <seed>
//        sm_replay drift <N> <nb> <it> <seed>
//        sm_replay wholecell <N> <nb> <it> <axis> <seed>   every whole-cell displacement |m| < N/2: out == in moved by m cells, bit for bit, zeros flowing in
//        sm_replay weights <it>   ALL single-precision offsets f in [0,1): weights sum to one and reproduce monomials below the order (to a few ulp); unit vector at f == 0
//        sm_replay trackall <N> <it> <axis> <nparticles> <seed>   applyToAll(list) == applyTo on each element of a copy, once each, bit for bit; list length kept
// exit 0: real code agrees with the oracle; exit 1: mismatch (printed); exit 3: usage
#include <cstdio>
#include <cstdlib>
#include <cmath>
#include <cstring>
#include <vector>
#include <string>
#include <random>
#include <thread>

#include "IO/Display.cpp"
#include "PS/PhaseSpace.cpp"
#include "SM/SourceMap.cpp"
#include "SM/KickMap.cpp"
#include "SM/RFKickMap.cpp"
#include "SM/DriftMap.cpp"
#include "SM/FokkerPlanckMap.cpp"
#include "SM/Identity.cpp"
#include "HelperFunctions.cpp"
#include "IO/FSPath.cpp"

using namespace vfps;

static const int NODE0[5] = {0, 0, 0, -1, -1};

static double lag(int n, int j, double f) {
    double num = 1, den = 1;
    for (int m = 0; m < n; m++) if (m != j) { num *= f - (NODE0[n] + m); den *= (NODE0[n] + j) - (NODE0[n] + m); }
    return num / den;
}

struct TestKick : public KickMap {
    TestKick(std::shared_ptr<PhaseSpace> in, std::shared_ptr<PhaseSpace> out, InterpolationType it, Axis kd)
        : KickMap(in, out, it, false, kd, nullptr) {}
    void set(const std::vector<meshaxis_t>& o) { for (size_t i = 0; i < o.size() && i < _offset.size(); i++) _offset[i] = o[i]; updateSM(); }
};

static std::shared_ptr<PhaseSpace> mkps(int N, int nb, bool shifted = false) {
    std::vector<integral_t> filling(nb, 1.0f / nb);
    if (shifted)   // zero bins of the two axes differ
        return std::make_shared<PhaseSpace>(-5, 7, 1e-3, -6.5, 5.5, 1e3, nullptr, 1e-9, 1e-3, filling, 1.0, nullptr);
    return std::make_shared<PhaseSpace>(-6, 6, 1e-3, -6, 6, 1e3, nullptr, 1e-9, 1e-3, filling, 1.0, nullptr);
}

static void filldata(PhaseSpace& ps, int N, int nb, std::mt19937& g, int margin) {
    std::uniform_real_distribution<float> u(0.1f, 1.0f);
    meshdata_t* d = ps.getData();
    for (int n = 0; n < nb; n++) for (int x = 0; x < N; x++) for (int y = 0; y < N; y++) {
        bool inner = x >= margin && x < N - margin && y >= margin && y < N - margin;
        d[(n * N + x) * N + y] = inner ? u(g) * (1 + n) : 0.0f;
    }
}

static int cmp(const char* what, const meshdata_t* got, const std::vector<double>& exp, int N, int nb, double tol) {
    int bad = 0;
    for (int n = 0; n < nb; n++) for (int x = 0; x < N; x++) for (int y = 0; y < N; y++) {
        size_t k = (size_t(n) * N + x) * N + y;
        double e = exp[k], g = got[k];
        if (!(std::fabs(e - g) <= tol * (1 + std::fabs(e)))) {
            if (bad < 5) printf("MISMATCH %s bunch=%d x=%d y=%d real_code=%.9g oracle=%.9g\n", what, n, x, y, g, e);
            bad++;
        }
    }
    printf("%s: %d mismatching cells of %d\n", what, bad, nb * N * N);
    return bad;
}

// direct evaluation of a kick: out = interpolation of in at the displaced position
static std::vector<double> oracle_kick(const meshdata_t* in, int N, int nb, int it, int axis,
                                       const std::vector<double>& off /* per (bunchrow,row) */, int lastbunch) {
    std::vector<double> out(size_t(nb) * N * N, 0.0);
    for (int n = 0; n < nb; n++) for (int x = 0; x < N; x++) for (int y = 0; y < N; y++) {
        int row = axis == 0 ? y : (std::min(n, lastbunch) * N + x);
        double P = N / 2 + off[row];
        double T = std::trunc(P);
        double f = P - T;
        double v = 0;
        if (T >= 0 && T < N) {
            for (int j = 0; j < it; j++) {
                long idx = long(T) + NODE0[it] + j;
                if (idx < 0 || idx >= N) continue;
                long s = (axis == 0 ? x : y) + idx - N / 2;
                if (s < 0 || s >= N) continue;
                size_t k = axis == 0 ? (size_t(n) * N + s) * N + y : (size_t(n) * N + x) * N + s;
                v += lag(it, j, f) * in[k];
            }
        }
        out[(size_t(n) * N + x) * N + y] = v;
    }
    return out;
}

int main(int argc, char** argv) {
    if (argc < 2) return 3;
    std::string mode = argv[1];
    if (mode == "wholecell" && argc == 7) {
        int N = atoi(argv[2]), nb = atoi(argv[3]), it = atoi(argv[4]), axis = atoi(argv[5]);
        unsigned seed = atoi(argv[6]);
        PhaseSpace::resetSize(N, nb);
        auto a = mkps(N, nb), b = mkps(N, nb);
        std::mt19937 g(seed);
        std::uniform_real_distribution<float> u(-3.0f, 3.0f);
        meshdata_t* d = a->getData();
        for (int k = 0; k < nb * N * N; k++) d[k] = (k % 11 == 0) ? 0.0f : u(g) * std::ldexp(1.0f, (int)(g() % 40) - 20);      // signed, wide dynamic range, some zeros
        TestKick km(a, b, static_cast<SourceMap::InterpolationType>(it), axis == 0 ? KickMap::Axis::x : KickMap::Axis::y);
        int bad = 0, shifts = 0;
        for (int m = -(N / 2) + 2; m <= N / 2 - 3; m++) {          // displacements the centre-relative table can represent together with its stencil
            std::vector<meshaxis_t> off(km._offset.size(), (meshaxis_t)m);
            km.set(off);
            meshdata_t* o = b->getData();
            for (int k = 0; k < nb * N * N; k++) o[k] = 123.0f;        // junk that must be overwritten
            km.apply();
            shifts++;
            for (int n = 0; n < nb; n++) for (int x = 0; x < N; x++) for (int y = 0; y < N; y++) {
                int sx = axis == 0 ? x + m : x, sy = axis == 0 ? y : y + m;
                float want = (sx >= 0 && sx < N && sy >= 0 && sy < N) ? d[(n * N + sx) * N + sy] : 0.0f;
                float got = o[(n * N + x) * N + y];
                // bit for bit, except that a zero may come out with either sign (0*x + 1*(-0) + 0*y = +0)
                bool same = std::memcmp(&want, &got, sizeof(float)) == 0 || (want == 0.0f && got == 0.0f);
                if (!same) { if (bad < 5) printf("MISMATCH wholecell m=%d bunch=%d x=%d y=%d real_code=%.9g (0x%08x) expected=%.9g\n", m, n, x, y, got, *(unsigned*)&got, want); bad++; }
            }
        }
        printf("wholecell: %d mismatching cells over %d displacements (N=%d nb=%d it=%d axis=%d)\n", bad, shifts, N, nb, it, axis);
        return bad ? 1 : 0;
    }
    if (mode == "weights" && argc == 3) {
        // exhaustive over the finite domain: every float in [0,1) (2^30 - 2^23 values plus subnormals), scheme `it`
        int it = atoi(argv[2]);
        const int NT = 16;
        std::vector<unsigned long> bad(NT, 0);
        std::vector<double> worst(NT, 0.0);
        std::vector<std::thread> th;
        const unsigned last = 0x3F7FFFFFu;      // largest float below 1
        for (int t = 0; t < NT; t++) th.emplace_back([&, t]() {
            interpol_t ic[4];
            for (unsigned long bits = t; bits <= last; bits += NT) {
                unsigned bb = (unsigned)bits; float f; std::memcpy(&f, &bb, 4);
                SourceMap::calcCoefficiants(ic, f, it);
                double s = 0, m1 = 0, m2 = 0, m3 = 0, mag = 0;
                for (int j = 0; j < it; j++) { double node = NODE0[it] + j; s += ic[j]; m1 += ic[j] * node; m2 += ic[j] * node * node; m3 += ic[j] * node * node * node; mag += std::fabs(ic[j]) * (1 + std::fabs(node * node * node)); }
                double fd = f, tol = 8 * 5.96e-8 * (1 + mag);
                double e = std::fabs(s - 1);
                if (it >= 2) e = std::max(e, std::fabs(m1 - fd));
                if (it >= 3) e = std::max(e, std::fabs(m2 - fd * fd));
                if (it >= 4) e = std::max(e, std::fabs(m3 - fd * fd * fd));
                if (bits == 0) { for (int j = 0; j < it; j++) { double want = (NODE0[it] + j == 0) ? 1.0 : 0.0; if (ic[j] != want) e = 1; } }
                if (e > worst[t]) worst[t] = e;
                if (!(e <= tol)) bad[t]++;
            }
        });
        for (auto& x : th) x.join();
        unsigned long nbad = 0; double w = 0; for (int t = 0; t < NT; t++) { nbad += bad[t]; w = std::max(w, worst[t]); }
        printf("weights: scheme %d, %lu offsets with a defect above 8 ulp of the weight magnitudes, worst defect %.3g, %u offsets enumerated\n", it, nbad, w, last + 1);
        return nbad ? 1 : 0;
    }
    if (mode == "kick" && argc == 8) {
        int N = atoi(argv[2]), nb = atoi(argv[3]), it = atoi(argv[4]), axis = atoi(argv[5]), lb = atoi(argv[6]);
        unsigned seed = atoi(argv[7]);
        PhaseSpace::resetSize(N, nb);
        auto a = mkps(N, nb), b = mkps(N, nb);
        std::mt19937 g(seed);
        filldata(*a, N, nb, g, 0);
        TestKick km(a, b, static_cast<SourceMap::InterpolationType>(it), axis == 0 ? KickMap::Axis::x : KickMap::Axis::y);
        if (lb >= 0) km._lastbunch = lb; else lb = km._lastbunch;
        std::uniform_real_distribution<float> u(-N / 4.0f, N / 4.0f);
        std::vector<meshaxis_t> off(size_t(N) * nb);
        std::vector<double> offd(off.size());
        for (size_t i = 0; i < off.size(); i++) { off[i] = u(g); if (i % 5 == 0) off[i] = std::trunc(off[i]); offd[i] = off[i]; }
        km.set(off);
        km.apply();
        auto exp = oracle_kick(a->getData(), N, nb, it, axis, offd, lb);
        int bad = cmp("kick", b->getData(), exp, N, nb, 2e-5);
        return bad ? 1 : 0;
    }
    if (mode == "trackall" && argc == 7) {
        int N = atoi(argv[2]), it = atoi(argv[3]), axis = atoi(argv[4]), np = atoi(argv[5]);
        unsigned seed = atoi(argv[6]);
        PhaseSpace::resetSize(N, 1);
        auto a = mkps(N, 1), b = mkps(N, 1);
        std::mt19937 g(seed);
        TestKick km(a, b, static_cast<SourceMap::InterpolationType>(it), axis == 0 ? KickMap::Axis::x : KickMap::Axis::y);
        std::uniform_real_distribution<float> u(-N / 8.0f, N / 8.0f), w(1.0f, N - 2.0f);
        std::vector<meshaxis_t> off(static_cast<size_t>(N), 0.0f);
        for (size_t i = 0; i < off.size(); i++) off[i] = u(g);
        km.set(off);
        std::vector<PhaseSpace::Position> list(np), one(np);
        for (int k = 0; k < np; k++) { list[k] = {w(g), w(g)}; one[k] = list[k]; }
        for (int k = 0; k < np; k++) km.applyTo(one[k]);
        km.applyToAll(list);
        int bad = 0;
        if (int(list.size()) != np) { printf("MISMATCH trackall: list length real_code=%zu oracle=%d\n", list.size(), np); bad++; }
        for (int k = 0; k < np && k < int(list.size()); k++)
            if (std::memcmp(&list[k].x, &one[k].x, sizeof(float)) || std::memcmp(&list[k].y, &one[k].y, sizeof(float))) {
                if (bad < 5) printf("MISMATCH trackall particle=%d real_code=(%.9g,%.9g) oracle=(%.9g,%.9g)\n", k, list[k].x, list[k].y, one[k].x, one[k].y);
                bad++;
            }
        printf("trackall: %d mismatching particles of %d\n", bad, np);
        return bad ? 1 : 0;
    }
    if (mode == "conserve" && argc == 8) {
        // total charge of an interior blob under a uniform whole-cell kick of `m` cells (C01)
        int N = atoi(argv[2]), nb = atoi(argv[3]), it = atoi(argv[4]), axis = atoi(argv[5]), m = atoi(argv[6]);
        int s0 = atoi(argv[7]);
        PhaseSpace::resetSize(N, nb);
        auto a = mkps(N, nb), b = mkps(N, nb);
        meshdata_t* d = a->getData();
        for (size_t i = 0; i < size_t(nb) * N * N; i++) d[i] = 0;
        int c = N / 2;
        for (int n = 0; n < nb; n++) { if (axis == 0) d[(size_t(n) * N + s0) * N + c] = 1.0f; else d[(size_t(n) * N + c) * N + s0] = 1.0f; }
        TestKick km(a, b, static_cast<SourceMap::InterpolationType>(it), axis == 0 ? KickMap::Axis::x : KickMap::Axis::y);
        std::vector<meshaxis_t> off(size_t(N) * nb, float(m));
        km.set(off);
        km.apply();
        double s1 = 0;
        for (size_t i = 0; i < size_t(nb) * N * N; i++) s1 += b->getData()[i];
        printf("conserve: source line %d, destination line %d (both inside 0..%d), charge before=%d after=%.9g\n", s0, s0 - m, N - 1, nb, s1);
        if (std::fabs(s1 - nb) > 1e-4) { printf("MISMATCH total charge not conserved\n"); return 1; }
        return 0;
    }
    if (mode == "rf" && argc == 7) {
        // every bunch must receive the single-bunch RF kick (C08)
        int N = atoi(argv[2]), nb = atoi(argv[3]), it = atoi(argv[4]), lin = atoi(argv[5]);
        unsigned seed = atoi(argv[6]);
        PhaseSpace::resetSize(N, nb);
        auto a = mkps(N, nb, true), b = mkps(N, nb, true);
        std::mt19937 g(seed);
        filldata(*a, N, nb, g, N / 4);
        std::unique_ptr<RFKickMap> rf;
        double angle = 0.3;
        if (lin) rf.reset(new RFKickMap(a, b, angle, 5e8, static_cast<SourceMap::InterpolationType>(it), false, nullptr));
        else rf.reset(new RFKickMap(a, b, 0.01, 1e6, 5e8, 1e4, static_cast<SourceMap::InterpolationType>(it), false, nullptr));
        rf->apply();
        // oracle: offsets of bunch 0 as stored by the real object, applied to every bunch
        std::vector<double> offd(size_t(N) * nb);
        for (int n = 0; n < nb; n++) for (int x = 0; x < N; x++) offd[size_t(n) * N + x] = rf->_offset[x];
        auto exp = oracle_kick(a->getData(), N, nb, it, 1, offd, nb - 1);
        int bad = cmp("rf", b->getData(), exp, N, nb, 2e-5);
        // and the offsets of bunch 0 must be the RF law (linear: tan(angle)*(zerobin-x))
        if (lin) {
            double zb = a->getAxis(0)->zerobin();
            for (int x = 0; x < N; x++) {
                double e = std::tan(angle) * (zb - x);
                if (std::fabs(e - rf->_offset[x]) > 1e-4 * (1 + std::fabs(e))) { printf("MISMATCH rf offset x=%d real=%g oracle=%g\n", x, rf->_offset[x], e); bad++; }
            }
        }
        return bad ? 1 : 0;
    }
    if (mode == "fp" && argc == 8) {
        // Fokker-Planck step on a grid shifted differently in q and p: (a) charge of data that avoids the rows next to
        // the zero-energy bin is conserved exactly, for every bunch; (b) mean and second moment of a blob follow the
        // per-step law mean' = (1-A e1) mean, m2' = (1-2A e1) m2 + 2B e1 - c A e1 dp^2 (0<=c<=1)
        int N = atoi(argv[2]), nb = atoi(argv[3]), fpt = atoi(argv[4]), dt = atoi(argv[5]);
        double e1 = atof(argv[6]);
        unsigned seed = atoi(argv[7]);
        PhaseSpace::resetSize(N, nb);
        std::vector<integral_t> filling(nb, 1.0f / nb);
        double qmin = -6, qmax = 6, pmin = -4, pmax = 8;
        auto a = std::make_shared<PhaseSpace>(qmin, qmax, 1e-3, pmin, pmax, 1e3, nullptr, 1e-9, 1e-3, filling, 1.0, nullptr);
        auto b = std::make_shared<PhaseSpace>(qmin, qmax, 1e-3, pmin, pmax, 1e3, nullptr, 1e-9, 1e-3, filling, 1.0, nullptr);
        std::mt19937 g(seed);
        std::uniform_real_distribution<float> u(0.1f, 1.0f);
        double dp = (pmax - pmin) / (N - 1);
        int tz = int(a->getAxis(1)->zerobin());
        meshdata_t* in = a->getData();
        for (int n = 0; n < nb; n++) for (int x = 0; x < N; x++) for (int y = 0; y < N; y++) {
            bool ok = y >= 5 && y < N - 5 && (y < tz - 5 || y > tz + 5);
            in[(size_t(n) * N + x) * N + y] = ok ? u(g) * (1 + n) : 0.0f;
        }
        FokkerPlanckMap fp(a, b, N, N, static_cast<FokkerPlanckMap::FPType>(fpt), FokkerPlanckMap::FPTracking::none, e1,
                           static_cast<FokkerPlanckMap::DerivationType>(dt), nullptr);
        fp.apply();
        int bad = 0;
        const meshdata_t* out = b->getData();
        for (int n = 0; n < nb; n++) {
            double s0 = 0, s1 = 0;
            for (int x = 0; x < N; x++) for (int y = 0; y < N; y++) { s0 += in[(size_t(n) * N + x) * N + y]; s1 += out[(size_t(n) * N + x) * N + y]; }
            if (std::fabs(s1 - s0) > 3e-6 * s0) { printf("MISMATCH fp charge bunch=%d before=%.9g after=%.9g rel=%.3g\n", n, s0, s1, (s1 - s0) / s0); bad++; }
        }
        // moment law on a single column of data: narrow blob at energy p0
        double A = (fpt == 1 || fpt == 3) ? 1 : 0, B = (fpt == 2 || fpt == 3) ? 1 : 0;
        for (double p0 : {-1.8, 4.0}) {
            for (size_t i = 0; i < size_t(nb) * N * N; i++) in[i] = 0;
            int x0 = N / 2;
            for (int y = 0; y < N; y++) { double p = pmin + y * dp; double e_ = -0.5 * (p - p0) * (p - p0) / (p0 < 0 ? 0.09 : 0.25); in[(size_t(0) * N + x0) * N + y] = e_ > -30 ? float(std::exp(e_)) : 0.0f; }
            fp.apply();
            double m0 = 0, m1 = 0, m2 = 0, n0 = 0, n1 = 0, n2 = 0;
            for (int y = 0; y < N; y++) { double p = pmin + y * dp, v = in[(size_t(0) * N + x0) * N + y], w = out[(size_t(0) * N + x0) * N + y];
                m0 += v; m1 += v * p; m2 += v * p * p; n0 += w; n1 += w * p; n2 += w * p * p; }
            double mean = m1 / m0, mean2 = n1 / n0, sec = m2 / m0, sec2 = n2 / n0;
            double want1 = (1 - A * e1) * mean, want2hi = (1 - 2 * A * e1) * sec + 2 * B * e1, want2lo = want2hi - A * e1 * dp * dp;
            if (std::fabs(mean2 - want1) > 0.05 * e1 * (std::fabs(mean) + 0.1) + 2e-6) { printf("MISMATCH fp mean blob@%g: real_code=%.9g oracle=%.9g\n", p0, mean2, want1); bad++; }
            if (sec2 > want2hi + 0.05 * e1 + 2e-6 || sec2 < want2lo - 0.05 * e1 - 2e-6) { printf("MISMATCH fp second moment blob@%g: real_code=%.9g oracle in [%.9g, %.9g]\n", p0, sec2, want2lo, want2hi); bad++; }
        }
        printf("fp: %d mismatches\n", bad);
        return bad ? 1 : 0;
    }
    return 3;
}
