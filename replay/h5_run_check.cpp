// Native check of a results file written by the real binary against the statements of C10 / C14 / C19 that need no model:
//   h5_run_check <file.h5> <steps_per_Ts> <outstep> <rotations> [expect_rf_rows 0|1] [axis]
// (1) every time-indexed dataset has as many records as /Info/AxisValues_t;
// (2) the time axis lists every outstep-th step from 0 and then the final step, in units of synchrotron periods
//     (final step = ceil(steps*rotations), or earlier if the run was interrupted: then only monotonicity and the step grid are required);
// (3) delta_f * sum(CSR spectrum row) == CSR intensity for every bunch and record;
// (4) with expect_rf_rows: /RFKicks/data has one row per executed step.
// exit 0 consistent, 1 inconsistent, 3 usage
#include <H5Cpp.h>
#include <cstdio>
#include <cstdlib>
#include <cmath>
#include <vector>
#include <string>
static int bad = 0;
int main(int argc, char** argv) {
    if (argc < 5) return 3;
    H5::Exception::dontPrint();
    H5::H5File f(argv[1], H5F_ACC_RDONLY);
    double steps = atof(argv[2]); long outstep = atol(argv[3]); double rot = atof(argv[4]); bool rf = argc > 5 && atoi(argv[5]);
    bool axis_only = argc > 6 && std::string(argv[6]) == "axis";     // record counts and time axis only
    auto dims = [&](const char* name) { std::vector<hsize_t> d; try { H5::DataSet ds = f.openDataSet(name); H5::DataSpace sp = ds.getSpace(); d.resize(sp.getSimpleExtentNdims()); sp.getSimpleExtentDims(d.data()); } catch (...) {} return d; };
    auto rd = [&](const char* name) { std::vector<float> v; try { H5::DataSet ds = f.openDataSet(name); H5::DataSpace sp = ds.getSpace(); std::vector<hsize_t> d(sp.getSimpleExtentNdims()); sp.getSimpleExtentDims(d.data()); size_t n = 1; for (auto x : d) n *= x; v.resize(n); if (n) ds.read(v.data(), H5::PredType::NATIVE_FLOAT); } catch (...) {} return v; };
    auto t = rd("/Info/AxisValues_t");
    size_t nt = t.size();
    const char* tds[] = {"/BunchProfile/data", "/BunchLength/data", "/BunchPosition/data", "/BunchPopulation/data", "/EnergyProfile/data", "/EnergySpread/data", "/EnergyAverage/data", "/CSR/Intensity/data", "/CSR/Spectrum/data", "/WakePotential/data", "/Particles/data"};
    for (auto name : tds) { auto d = dims(name); if (d.empty()) continue;
        bool optional = std::string(name) == "/WakePotential/data" || std::string(name) == "/Particles/data";
        if (d[0] != nt && !(optional && d[0] == 0)) { printf("MISMATCH %s has %llu records, the time axis %zu\n", name, (unsigned long long)d[0], nt); bad++; } }
    // time axis
    long last = (long)std::ceil(steps * rot);
    for (size_t k = 0; k < nt; k++) {
        double stepk = t[k] * steps;
        if (std::fabs(stepk - std::round(stepk)) > 1e-3 * (1 + std::fabs(stepk))) { printf("MISMATCH time axis entry %zu = %.7g periods is not a whole number of steps (%.4f)\n", k, t[k], stepk); bad++; continue; }
        long sk = std::lround(stepk);
        if (k + 1 < nt) { if (outstep > 0 && sk != (long)k * outstep) { printf("MISMATCH time axis entry %zu is step %ld, expected output step %ld\n", k, sk, (long)k * outstep); bad++; } }
        else if (sk > last || (sk != last && false)) { printf("MISMATCH final record at step %ld beyond the last step %ld\n", sk, last); bad++; }
        if (k > 0 && !(t[k] >= t[k - 1])) { printf("MISMATCH time axis not ascending at %zu\n", k); bad++; }
    }
    // CSR rows
    auto sp = rd("/CSR/Spectrum/data"); auto in = rd("/CSR/Intensity/data"); auto ax = rd("/Info/AxisValues_f"); auto dsp = dims("/CSR/Spectrum/data");
    if (!axis_only && dsp.size() == 3 && ax.size() >= 2) { size_t nb = dsp[1], nf = dsp[2]; double df = ax[1] - ax[0];
        for (size_t r = 0; r < dsp[0] && r * nb < in.size(); r++) for (size_t b = 0; b < nb; b++) { double s = 0; for (size_t i = 0; i < nf; i++) s += sp[(r * nb + b) * nf + i];
            // the intensity also contains the Nyquist bin, which the file does not store (open known finding of C10): allow for a
            // bin of about the size of the last stored one
            double nyq = 2 * df * std::fabs(sp[(r * nb + b) * nf + nf - 1]);
            double want = in[r * nb + b]; if (std::fabs(s * df - want) > 2e-3 * std::fabs(want) + nyq + 1e-30) { if (bad < 12) printf("MISMATCH record %zu bunch %zu: delta_f*sum(spectrum) = %.6g, stored intensity %.6g\n", r, b, s * df, want); bad++; } } }
    if (rf) { auto d = dims("/RFKicks/data"); long lastrec = nt ? std::lround(t[nt - 1] * steps) : 0;
        if (d.empty() || (long)d[0] != lastrec) { printf("MISMATCH /RFKicks/data has %lld rows, %ld steps were executed\n", d.empty() ? -1LL : (long long)d[0], lastrec); bad++; } }
    printf("h5_run_check: %d inconsistencies (%zu records)\n", bad, nt);
    return bad ? 1 : 0;
}
