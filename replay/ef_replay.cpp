// Native replay for ElectricField and the impedance models: real classes vs naive double-precision DFT oracle.
// usage: ef_replay wake <N> <nb_buckets_pattern e.g. 101> <spacing> <nmax> <seed>
//        ef_replay z <n>
//        ef_replay fftw <nlo> <nhi>   conformance of the linked FFTW (through the real fft:: wrappers) with the transform contracts A-FFTW-R2C / A-FFTW-C2R
//        ef_replay zfile   impedance files: empty, malformed, trailing newline, incomplete last line -> number of samples read
//        ef_replay factory <n> <gap> <use_csr> <s> <xi> <inner_radius> <file 0|1> <R_bend> <frev>
// exit 0 agree, 1 mismatch, 3 usage
#include <cstdio>
#include <unistd.h>
#include <cstdlib>
#include <cmath>
#include <vector>
#include <random>
#include <complex>
#include <string>
#include "IO/Display.cpp"
#include "PS/PhaseSpace.cpp"
#include "PS/ElectricField.cpp"
#include "Z/Impedance.cpp"
#include "Z/ConstImpedance.cpp"
#include "Z/FreeSpaceCSR.cpp"
#include "Z/ResistiveWall.cpp"
#include "Z/ParallelPlatesCSR.cpp"
#include "Z/CollimatorImpedance.cpp"
#include "Z/ImpedanceFactory.cpp"
#include "FFTWWrapper.cpp"
#include "HelperFunctions.cpp"
#include "IO/FSPath.cpp"
using namespace vfps;
typedef std::complex<double> cd;
static int bad = 0;
static void cmp(const char* what, int a, int b, double got, double want, double tol, double scale) {
    if (!(std::fabs(got - want) <= tol * scale)) { if (bad < 8) printf("MISMATCH %s [%d][%d] real_code=%.9g oracle=%.9g\n", what, a, b, got, want); bad++; }
}
static std::vector<double> oracle_wake(const std::vector<double>& train, const std::vector<cd>& Z, size_t n) {
    std::vector<cd> F(n), L(n, 0.0);
    for (size_t k = 0; k <= n / 2; k++) { cd s = 0; for (size_t j = 0; j < n; j++) s += train[j] * std::polar(1.0, -2 * M_PI * double(k * j % n) / n); F[k] = s; }
    for (size_t k = 0; k < n / 2; k++) L[k] = Z[k] * F[k];
    std::vector<double> out(n);
    for (size_t j = 0; j < n; j++) { double s = L[0].real(); for (size_t k = 1; k <= n / 2; k++) { cd t = L[k] * std::polar(1.0, 2 * M_PI * double(k * j % n) / n); s += (2 * k == n) ? t.real() : 2 * t.real(); } out[j] = s; }
    return out;
}
int main(int argc, char** argv) {
    if (argc < 2) return 3;
    std::string mode = argv[1];
    if (mode == "z" && argc == 3) {
        size_t n = atoi(argv[2]);
        auto chk = [&](const char* nm, const Impedance& z) {
            if (z.size() != n) { printf("MISMATCH %s size %zu expected %zu\n", nm, z.size(), n); bad++; return; }
            for (size_t i = 0; i < n; i++) { impedance_t v = z[i];
                if (i > n / 2 && (v.real() != 0 || v.imag() != 0)) { if (bad < 8) printf("MISMATCH %s sample %zu above n/2 is (%g,%g)\n", nm, i, v.real(), v.imag()); bad++; }
                if (!std::isfinite(v.real()) || !std::isfinite(v.imag())) { if (bad < 8) printf("MISMATCH %s sample %zu is not finite: (%g,%g)\n", nm, i, v.real(), v.imag()); bad++; }
                if (!(v.real() >= 0)) { if (bad < 8) printf("MISMATCH %s sample %zu real part %g\n", nm, i, v.real()); bad++; } } };
        chk("FreeSpaceCSR", FreeSpaceCSR(n, 9e6, 1e12));
        chk("ResistiveWall", ResistiveWall(n, 9e6, 1e12, 33.0, 1e6, 0.0, 0.015));
        chk("ConstImpedance", ConstImpedance(n, 1e12, impedance_t(100, 20)));
        // parallel plates: narrow and wide gaps relative to the frequency resolution (cut-off of the lowest mode below the first sample)
        for (double gap : {1e-4, 3e-3, 0.03, 0.2, 2.0}) chk("ParallelPlatesCSR", ParallelPlatesCSR(n, 9e6, 1e12, gap));
        Impedance sum(n, 1e12); sum += FreeSpaceCSR(n, 9e6, 1e12); sum += ResistiveWall(n, 9e6, 1e12, 33.0, 1e6, 0.0, 0.015);
        chk("sum", sum);
        // absolute scale (C16 "correctly scaled"), independent double-precision oracles from the textbook formulas
        {
            const double f0 = 9e6, fmax = 1e12, delta = fmax / f0 / (n - 1.0);
            FreeSpaceCSR fs(n, f0, fmax);
            for (size_t i = 0; i <= n / 2; i++) {       // Murphy et al. Eq. 6.18: Z(n) = (306.3 + 176.9 j) Ohm * n^(1/3)
                double w = std::cbrt(i * delta);
                cmp("FreeSpaceCSR.re", (int)n, (int)i, fs[i].real(), 306.3 * w, 2e-5, 306.3 * w + 1e-30);
                cmp("FreeSpaceCSR.im", (int)n, (int)i, fs[i].imag(), 176.9 * w, 2e-5, 176.9 * w + 1e-30);
            }
            const double mu0 = 4e-7 * M_PI, c0 = 299792458.0;
            for (double xi : {0.0, 3.0, -0.25, 99.0}) for (double sigma : {1e6, 5.8e7}) {
                const double L = 33.0, b = 0.015;
                ResistiveWall rw(n, f0, fmax, L, sigma, xi, b);
                for (size_t i = 0; i <= n / 2; i++) {   // thick wall: Z = (1 - j) L/(2 pi b) sqrt(mu0 mu_r omega / (2 sigma)), omega = 2 pi f0 * (i delta)
                    double omega = 2 * M_PI * f0 * (i * delta);
                    double want = L / (2 * M_PI * b) * std::sqrt(mu0 * (1 + xi) * omega / (2 * sigma));
                    cmp("ResistiveWall.re", (int)(xi * 100), (int)i, rw[i].real(), want, 1e-4, want + 1e-30);
                    cmp("ResistiveWall.im", (int)(xi * 100), (int)i, rw[i].imag(), -want, 1e-4, want + 1e-30);
                }
            }
            (void)c0;
        }
        printf("z: %d mismatches (n=%zu)\n", bad, n);
        return bad ? 1 : 0;
    }
    if (mode == "fftw" && argc == 4) {
        // A-FFTW-R2C: out[k] = sum_j in[j] exp(-2 pi i jk/n) for k <= n/2, nothing above n/2 is written, input unchanged.
        // A-FFTW-C2R: out[j] = Re-part Hermitian inverse of in[0..n/2] (unnormalised); in[k] for k >= n/2 is NOT modified
        //             (in[0..n/2) may be destroyed) — the part of the buffer the class invariant keeps at zero.
        size_t lo = atoi(argv[2]), hi = atoi(argv[3]);
        std::mt19937 g(7); std::uniform_real_distribution<float> u(-1, 1);
        for (size_t n = lo; n <= hi; n++) {
            float* in = fft::fft_alloc_real(n); fft::complex* out = fft::fft_alloc_complex(n);
            auto p1 = fft::prepareFFT(n, in, out);
            std::vector<float> x(n); for (size_t j = 0; j < n; j++) x[j] = in[j] = u(g);
            impedance_t* o = reinterpret_cast<impedance_t*>(out);
            for (size_t k = 0; k < n; k++) o[k] = impedance_t(777.0f, -777.0f);
            fft::fft_execute(p1);
            double sc = std::sqrt((double)n);
            for (size_t k = 0; k <= n / 2; k++) { cd s = 0; for (size_t j = 0; j < n; j++) s += (double)x[j] * std::polar(1.0, -2 * M_PI * double(k * j % n) / n);
                cmp("r2c.re", (int)n, (int)k, o[k].real(), s.real(), 2e-5, sc); cmp("r2c.im", (int)n, (int)k, o[k].imag(), s.imag(), 2e-5, sc); }
            for (size_t k = n / 2 + 1; k < n; k++) if (o[k] != impedance_t(777.0f, -777.0f)) { if (bad < 8) printf("MISMATCH r2c n=%zu wrote output element %zu above n/2\n", n, k); bad++; }
            for (size_t j = 0; j < n; j++) if (in[j] != x[j]) { if (bad < 8) printf("MISMATCH r2c n=%zu modified its input at %zu\n", n, j); bad++; }
            fft::complex* cin = fft::fft_alloc_complex(n); float* rout = fft::fft_alloc_real(n);
            auto p2 = fft::prepareFFT(n, cin, rout);
            impedance_t* ci = reinterpret_cast<impedance_t*>(cin);
            std::vector<impedance_t> y(n); for (size_t k = 0; k < n; k++) y[k] = ci[k] = impedance_t(u(g), u(g));
            fft::fft_execute(p2);
            for (size_t j = 0; j < n; j++) { double s = y[0].real();
                for (size_t k = 1; k <= n / 2; k++) { cd t = cd(y[k].real(), y[k].imag()) * std::polar(1.0, 2 * M_PI * double(k * j % n) / n); s += (2 * k == n) ? t.real() : 2 * t.real(); }
                cmp("c2r", (int)n, (int)j, rout[j], s, 2e-5, (double)n); }
            for (size_t k = n / 2; k < n; k++) if (ci[k] != y[k] && !(2 * k == n)) { if (bad < 8) printf("MISMATCH c2r n=%zu modified input element %zu (>= n/2)\n", n, k); bad++; }
            fft::fft_destroy_plan(p1); fft::fft_destroy_plan(p2); fft::fft_free(in); fft::fft_free(out); fft::fft_free(cin); fft::fft_free(rout);
        }
        printf("fftw: %d mismatches (n=%zu..%zu)\n", bad, lo, hi);
        return bad ? 1 : 0;
    }
    if (mode == "zfile" && argc == 2) {
        // every complete line "n Re Im" with a new harmonic number is one sample; nothing else may produce a sample
        struct { const char* name; const char* text; size_t want; } cases[] = {
            {"empty", "", 0}, {"only_newline", "\n", 0}, {"malformed", "abc def\n", 0}, {"two_lines", "0 1 2\n1 3 4\n", 2},
            {"no_trailing_newline", "0 1 2\n1 3 4", 2}, {"incomplete_last_line", "0 1 2\n1 3\n", 1}, {"repeated_harmonic", "0 1 2\n0 5 6\n1 3 4\n", 2}};
        for (auto& c : cases) {
            std::string fn = std::string("/tmp/vf_zfile_") + std::to_string((long)getpid()) + "_" + c.name + ".dat";
            FILE* f = fopen(fn.c_str(), "w"); fputs(c.text, f); fclose(f);
            Impedance z(fn, 1e12);
            if (z.size() != c.want) { printf("MISMATCH impedance file '%s': %zu samples read, %zu complete lines in the file\n", c.name, z.size(), c.want); bad++; }
            remove(fn.c_str());
        }
        printf("zfile: %d mismatches\n", bad);
        return bad ? 1 : 0;
    }
    if (mode == "factory" && argc == 11) {
        // oracle taken from the statement of C16: the factory returns the sum of the selected contributions, nothing when none is selected
        size_t n = atoi(argv[2]); double gap = atof(argv[3]); bool csr = atoi(argv[4]); double s = atof(argv[5]), xi = atof(argv[6]), inner = atof(argv[7]);
        bool file = atoi(argv[8]); double R = atof(argv[9]), frev = atof(argv[10]); const double fmax = 1e12, c = 299792458.0;
        std::string fname = "";
        if (file) { fname = "/tmp/vf_factory_replay_" + std::to_string((long)getpid()) + ".dat"; FILE* f = fopen(fname.c_str(), "w"); for (int i = 0; i < 5; i++) fprintf(f, "%d %g %g\n", i, 10.0 + i, -1.0 * i); fclose(f); }
        auto got = makeImpedance(n, nullptr, fmax, R, frev, gap, csr, s, xi, inner, fname);
        std::vector<cd> want(n, 0.0); bool any = false;
        auto add = [&](const Impedance& z) { any = true; for (size_t i = 0; i < n && i < z.size(); i++) want[i] += cd(z[i].real(), z[i].imag()); };
        const double f0 = c / (2 * M_PI * R), radius = std::fabs(gap / 2);
        if (gap != 0) {
            if (csr && gap > 0) add(ParallelPlatesCSR(n, f0, fmax, gap));
            if (csr && gap < 0) add(FreeSpaceCSR(n, f0, fmax));
            if (s > 0 && xi >= -1) add(ResistiveWall(n, frev, fmax, c / frev, s, xi, radius));
            if (0 < inner && inner < radius) add(CollimatorImpedance(n, fmax, radius, inner));
        }
        if (file) add(Impedance(fname, fmax));
        if (any != (got != nullptr)) { printf("MISMATCH factory returned %s although %s contribution is selected\n", got ? "an impedance" : "nothing", any ? "a" : "no"); bad++; }
        if (got && any) {
            if (got->size() != n) { printf("MISMATCH factory size %zu expected %zu\n", got->size(), n); bad++; }
            double scale = 0; for (size_t i = 0; i < n; i++) scale = std::max(scale, std::abs(want[i]));
            for (size_t i = 0; i < n && i < got->size(); i++) { impedance_t v = (*got)[i];
                cmp("factory.re", 0, (int)i, v.real(), want[i].real(), 1e-5, scale + 1e-30); cmp("factory.im", 0, (int)i, v.imag(), want[i].imag(), 1e-5, scale + 1e-30); } }
        if (file) remove(fname.c_str());
        printf("factory: %d mismatches (n=%zu gap=%g csr=%d s=%g xi=%g inner=%g file=%d R=%g frev=%g)\n", bad, n, gap, (int)csr, s, xi, inner, (int)file, R, frev);
        return bad ? 1 : 0;
    }
    if (mode == "wake" && argc == 7) {
        int N = atoi(argv[2]); std::string pat = argv[3]; size_t spacing = atoi(argv[4]), nmax = atoi(argv[5]); unsigned seed = atoi(argv[6]);
        std::vector<uint32_t> buckets; std::vector<integral_t> fill;
        for (size_t i = 0; i < pat.size(); i++) if (pat[i] == '1') { buckets.push_back(pat.size() - 1 - i); fill.push_back(1); }
        int nb = buckets.size(); for (auto& f : fill) f = 1.0f / nb;
        std::mt19937 g(seed); std::uniform_real_distribution<double> u(-1, 1);
        PhaseSpace::resetSize(N, nb);
        auto ps = std::make_shared<PhaseSpace>(-6, 6, 1e-3, -6, 6, 1e3, nullptr, 1e-9, 1e-3, fill, 1.0, nullptr);
        std::vector<impedance_t> zv(nmax); std::vector<cd> Z(nmax);
        for (size_t i = 0; i < nmax; i++) { zv[i] = impedance_t(std::fabs(u(g)) * (1 + 0.01 * i), u(g)); Z[i] = cd(zv[i].real(), zv[i].imag()); }
        // seeds >= 100: an impedance table that ends well below the Nyquist frequency (exact zeros above, as after reading a short file)
        if (seed >= 100) for (size_t i = nmax / 5 + 1; i < nmax; i++) { zv[i] = impedance_t(0, 0); Z[i] = cd(0, 0); }
        auto imp = std::make_shared<Impedance>(zv, 1e12);
        ElectricField ef(ps, imp, buckets, spacing, nullptr, 9e6, 0.01, 1e-3, 1.3e9, 4.7e-4, 1e-9);
        ElectricField rad(ps, imp, buckets, 0, nullptr, 9e6, 0.01);
        ElectricField spc(ps, imp, buckets, spacing, nullptr, 9e6, 0.01);     // a spaced field that only ever computes CSR
        for (int round = 0; round < 3; round++) {        // later rounds: history independence
            boost::multi_array<projection_t, 3> proj(boost::extents[2][nb][N]);
            for (int n = 0; n < nb; n++) for (int x = 0; x < N; x++) proj[0][n][x] = float(std::exp(-0.5 * std::pow((x - N / 2.0 + n + 2 * round) / (2.0 + n), 2)) * (1 + 0.3 * u(g)));
            ps->setProjection(proj);
            std::vector<double> train(nmax, 0.0);
            for (int n = 0; n < nb; n++) for (int x = 0; x < N; x++) train[buckets[n] * spacing + x] = proj[0][n][x];
            auto w = oracle_wake(train, Z, nmax);
            meshaxis_t* wp = ef.wakePotential();
            double scale = 0; for (size_t j = 0; j < nmax; j++) scale = std::max(scale, std::fabs(w[j] * ef.getWakeScaling()));
            for (int n = 0; n < nb; n++) for (int x = 0; x < N; x++)
                cmp(round ? "wake(second call)" : "wake", n, x, wp[n * N + x], ef.getWakeScaling() * w[buckets[n] * spacing + x], 3e-5, scale);
            rad.updateCSR(0);
            for (int n = 0; n < nb; n++) { double s = 0; bool neg = false;
                for (size_t i = 0; i < nmax; i++) { double v = rad.getCSRSpectrum()[n * nmax + i]; if (v < 0) neg = true; s += v; }
                double P = rad.getCSRPower()[n];
                if (neg) { printf("MISMATCH negative spectrum bunch %d\n", n); bad++; }
                cmp("csr_power_vs_spectrum_sum", n, 0, P, s * rad.getFreqRuler()->delta(), 2e-5, std::fabs(P) + 1e-30);
                // spectrum law (C07/C18): renorm * Re Z[i] * |DFT of THIS bunch's zero-padded profile|^2 below the half length,
                // nothing above it (the radiation field never runs wakePotential, its upper form-factor half stays zero)
                std::vector<double> want(nmax, 0.0); double top = 0;
                for (size_t i = 0; i <= nmax / 2; i++) { cd f = 0; for (int x = 0; x < N; x++) f += double(proj[0][n][x]) * std::polar(1.0, -2 * M_PI * double((i * x) % nmax) / nmax);
                    want[i] = double(rad._formfactorrenorm) * Z[i].real() * std::norm(f); top = std::max(top, std::fabs(want[i])); }
                for (size_t i = 0; i < nmax; i++) cmp(round ? "csr_spectrum_law(second call)" : "csr_spectrum_law", n, (int)i, rad.getCSRSpectrum()[n * nmax + i], want[i], 2e-4, top + 1e-30);
                if (n == 0) spc.updateCSR(0);
                for (size_t i = 0; i < nmax; i++) cmp(round ? "csr_spectrum_law(spaced field, second call)" : "csr_spectrum_law(spaced field)", n, (int)i, spc.getCSRSpectrum()[n * nmax + i], want[i], 2e-4, top + 1e-30); }
        }
        printf("ef_replay: %d mismatches (N=%d pattern=%s spacing=%zu nmax=%zu)\n", bad, N, pat.c_str(), spacing, nmax);
        return bad ? 1 : 0;
    }
    return 3;
}
