// Native replay for the text start distribution (PhaseSpaceFactory::makePSFromTXT) on the real sources.
// usage: psf_replay txt <N> <trailing_newline 0|1> <nparticles> <outlier 0|1>
//   writes a particle list, loads it with the real function and compares the grid with an independent histogram in which
//   every particle of the file is counted exactly once (cells outside the grid are dropped).  A value used without having
//   been read (trailing newline: the extraction fails and leaves xf, yf untouched) shows as an extra count.
// exit 0 agree, 1 mismatch, 3 usage
#include <cstdio>
#include <unistd.h>
#include <cstdlib>
#include <cmath>
#include <vector>
#include <string>
#include "IO/Display.cpp"
#include "PS/PhaseSpace.cpp"
#include "PS/PhaseSpaceFactory.cpp"
#include "HelperFunctions.cpp"
#include "IO/FSPath.cpp"
using namespace vfps;
int main(int argc, char** argv) {
    if (argc != 6 || std::string(argv[1]) != "txt") return 3;
    int N = atoi(argv[2]); bool nl = atoi(argv[3]); int np = atoi(argv[4]); bool outlier = atoi(argv[5]);
    const float qmax = 6, pmax = 6;
    std::string fname = "/tmp/vf_psf_replay_" + std::to_string((long)getpid()) + ".txt";
    std::vector<std::pair<float, float>> parts;
    for (int i = 0; i < np; i++) parts.push_back({-2.5f + 5.0f * i / std::max(1, np - 1), 1.5f - 3.0f * i / std::max(1, np - 1)});
    if (outlier) { parts.push_back({-7.5f, 0.25f}); parts.push_back({0.5f, -30.0f}); parts.push_back({1.25f, 2.25f}); }
    FILE* f = fopen(fname.c_str(), "w");
    for (size_t i = 0; i < parts.size(); i++) fprintf(f, "%g %g%s", parts[i].first, parts[i].second, (i + 1 < parts.size() || nl) ? "\n" : "");
    fclose(f);
    // oracle: what the constructor leaves in the grid, plus 1/(number of newlines) for every particle of the file, once
    size_t newlines = parts.size() - (nl ? 0 : 1);
    PhaseSpace::resetSize(N, 1);
    std::vector<integral_t> filling = {1.0};
    PhaseSpace base(-qmax, qmax, 1e-3, -pmax, pmax, 1e3, nullptr, 1e-9, 1e-3, filling);
    std::vector<double> want(N * N, 0.0);
    for (int i = 0; i < N * N; i++) want[i] = base.getData()[i];
    for (auto& p : parts) { long x = std::lround((p.first / qmax + 0.5f) * N), y = std::lround((p.second / pmax + 0.5f) * N);
        if (x >= 0 && x < N && y >= 0 && y < N) want[x * N + y] += 1.0 / newlines; }
    PhaseSpace::_firstinit = true;
    auto ps = makePSFromTXT(fname, N, -qmax, qmax, -pmax, pmax, nullptr, 1e-9, 1e-3, 1e-3, 1e3);
    remove(fname.c_str());
    const float* d = ps->getData();
    // both are compared after normalising to unit sum (the real function normalises by the Simpson integral)
    double sw = 0, sg = 0; for (int i = 0; i < N * N; i++) { sw += want[i]; sg += d[i]; }
    int bad = 0;
    for (int i = 0; i < N * N; i++) { double a = sg ? d[i] / sg : 0, b = sw ? want[i] / sw : 0;
        if (std::fabs(a - b) > 1e-4) { if (bad < 6) printf("MISMATCH cell [%d][%d] real_code=%.6f oracle=%.6f (relative weights)\n", i / N, i % N, a, b); bad++; } }
    printf("psf_replay: %d mismatches (N=%d trailing_newline=%d particles=%zu)\n", bad, N, (int)nl, parts.size());
    return bad ? 1 : 0;
}
