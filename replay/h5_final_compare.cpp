// C12: two results files of runs that differ only in how they were observed must end in the same phase space, bit for bit.
// usage: h5_final_compare <a.h5> <b.h5>   compares the LAST record of /PhaseSpace/data; exit 0 identical, 1 different, 3 usage
#include <H5Cpp.h>
#include <cstdio>
#include <cstring>
#include <cstdlib>
#include <cmath>
#include <vector>
static std::vector<float> last(const char* fn, size_t& cells) {
    H5::H5File f(fn, H5F_ACC_RDONLY); H5::DataSet ds = f.openDataSet("/PhaseSpace/data"); H5::DataSpace sp = ds.getSpace();
    std::vector<hsize_t> d(sp.getSimpleExtentNdims()); sp.getSimpleExtentDims(d.data());
    size_t n = 1; for (auto x : d) n *= x; std::vector<float> v(n); if (n) ds.read(v.data(), H5::PredType::NATIVE_FLOAT);
    cells = d[0] ? n / d[0] : 0;
    return std::vector<float>(v.end() - cells, v.end());
}
int main(int argc, char** argv) {
    if (argc != 3 && argc != 4) return 3;
    size_t ca, cb; auto a = last(argv[1], ca), b = last(argv[2], cb);
    if (ca != cb) { printf("MISMATCH record sizes %zu vs %zu\n", ca, cb); return 1; }
    if (argc == 4) {   // C11: equal within rounding — tolerance relative to the peak density
        double tol = atof(argv[3]), peak = 0, worst = 0;
        for (size_t i = 0; i < ca; i++) { if (std::fabs(a[i]) > peak) peak = std::fabs(a[i]); }
        for (size_t i = 0; i < ca; i++) { double d = std::fabs((double)a[i] - (double)b[i]); if (!(d <= worst)) worst = d; }
        printf("final phase space: max abs difference %.3g, peak %.3g, relative %.3g (tolerance %.3g)\n", worst, peak, peak > 0 ? worst / peak : 0, tol);
        return (peak > 0 && worst <= tol * peak) ? 0 : 1;
    }
    size_t diff = 0; for (size_t i = 0; i < ca; i++) if (std::memcmp(&a[i], &b[i], 4)) diff++;
    printf("final phase space: %zu of %zu cells differ\n", diff, ca);
    return diff ? 1 : 0;
}
