// Whole-program replay for C15 (start of the tracked particles): record 0 of /Particles/data of a results file written by the
// REAL inovesa binary against the tracking file it was given.
// usage: h5_tracks_check <results.h5> <tracking.txt>
// Particle k of the record must be the k-th pair (q, p) of the tracking file: position on the position axis, energy on the
// energy axis, each to within one grid cell (the file stores the axis value of the cell the particle is in), clamped into the
// axis range.  exit 0: agrees; exit 1: mismatch (printed); exit 3: usage / file cannot be read
#include <H5Cpp.h>
#include <cstdio>
#include <cmath>
#include <fstream>
#include <vector>
#include <algorithm>

static std::vector<float> read1d(H5::H5File& f, const char* name) {
    H5::DataSet d = f.openDataSet(name);
    hsize_t n[1]; d.getSpace().getSimpleExtentDims(n);
    std::vector<float> v(n[0]);
    d.read(v.data(), H5::PredType::NATIVE_FLOAT);
    return v;
}

int main(int argc, char** argv) {
    if (argc != 3) return 3;
    try {
        H5::Exception::dontPrint();
        H5::H5File f(argv[1], H5F_ACC_RDONLY);
        std::vector<float> az = read1d(f, "/Info/AxisValues_z"), ae = read1d(f, "/Info/AxisValues_E");
        H5::DataSet d = f.openDataSet("/Particles/data");
        hsize_t dims[3]; d.getSpace().getSimpleExtentDims(dims);
        std::vector<std::pair<double, double>> want;
        std::ifstream tf(argv[2]);
        double q, p;
        while (tf >> q >> p) want.push_back({q, p});
        int bad = 0;
        if (dims[0] < 1 || dims[1] != want.size() || dims[2] != 2) {
            printf("MISMATCH /Particles/data has extents %llu x %llu x %llu, tracking file has %zu particles\n", (unsigned long long)dims[0], (unsigned long long)dims[1], (unsigned long long)dims[2], want.size());
            return 1;
        }
        std::vector<float> rec(dims[1] * 2);
        hsize_t cnt[3] = {1, dims[1], 2}, off[3] = {0, 0, 0};
        H5::DataSpace fs = d.getSpace(); fs.selectHyperslab(H5S_SELECT_SET, cnt, off);
        H5::DataSpace ms(3, cnt);
        d.read(rec.data(), H5::PredType::NATIVE_FLOAT, ms, fs);
        double dz = az[1] - az[0], de = ae[1] - ae[0];
        for (size_t k = 0; k < want.size(); k++) {
            double wq = std::min<double>(std::max<double>(want[k].first, az.front()), az.back());
            double wp = std::min<double>(std::max<double>(want[k].second, ae.front()), ae.back());
            // record 0 is written after the first step's maps have NOT yet moved the particles (output precedes the maps)
            if (std::fabs(rec[2 * k] - wq) > 1.001 * dz || std::fabs(rec[2 * k + 1] - wp) > 1.001 * de) {
                if (bad < 5) printf("MISMATCH particle %zu: real_code=(%.6g, %.6g) oracle=(%.6g, %.6g) to within one cell (%.4g, %.4g)\n", k, rec[2 * k], rec[2 * k + 1], wq, wp, dz, de);
                bad++;
            }
        }
        printf("tracks: %d of %zu particles of record 0 are not where the tracking file puts them\n", bad, want.size());
        return bad ? 1 : 0;
    } catch (H5::Exception& e) {
        printf("cannot read: %s\n", e.getCDetailMsg());
        return 3;
    }
}
