// Native replay for the PhaseSpace units: real class vs direct double-precision oracle.
// usage: ps_replay moments <N> <nb> <seed>     (projections, integrate, normalize, average, variance, swap/assign)
// exit 0 agree, 1 mismatch, 3 usage
#include <cstdio>
#include <cstdlib>
#include <cmath>
#include <vector>
#include <random>
#include "IO/Display.cpp"
#include "PS/PhaseSpace.cpp"
#include "HelperFunctions.cpp"
#include "IO/FSPath.cpp"
using namespace vfps;
static int bad = 0;
static void cmp(const char* what, int n, int i, double got, double want, double tol) {
    if (!(std::fabs(got - want) <= tol * (1 + std::fabs(want)))) { if (bad < 8) printf("MISMATCH %s bunch=%d idx=%d real_code=%.9g oracle=%.9g\n", what, n, i, got, want); bad++; }
}
int main(int argc, char** argv) {
    if (argc != 5 || std::string(argv[1]) != "moments") return 3;
    int N = atoi(argv[2]), nb = atoi(argv[3]); unsigned seed = atoi(argv[4]);
    std::mt19937 g(seed);
    std::uniform_real_distribution<double> u(0.2, 1.0);
    std::vector<integral_t> fill(nb);
    double s = 0; for (int n = 0; n < nb; n++) { fill[n] = (n == 1 && nb > 2) ? 0.0 : u(g); s += fill[n]; }
    for (auto& f : fill) f /= s;
    PhaseSpace::resetSize(N, nb);
    double qmin = -5, qmax = 6, pmin = -4, pmax = 7;
    PhaseSpace ps(qmin, qmax, 1e-3, pmin, pmax, 1e3, nullptr, 1e-9, 1e-3, fill, 1.0, nullptr);
    meshdata_t* d = ps.getData();
    // off-centre blobs of different width per bunch
    for (int n = 0; n < nb; n++) { double mq = -1.5 + n, mp = 0.5 - 0.7 * n, sq = 0.6 + 0.2 * n, sp = 0.9 - 0.1 * n, amp = u(g);
        for (int x = 0; x < N; x++) for (int y = 0; y < N; y++) { double q = qmin + x * (qmax - qmin) / (N - 1), p = pmin + y * (pmax - pmin) / (N - 1);
            d[(size_t(n) * N + x) * N + y] = float(amp * std::exp(-0.5 * ((q - mq) * (q - mq) / (sq * sq) + (p - mp) * (p - mp) / (sp * sp)))); } }
    double dq = (qmax - qmin) / (N - 1), dp = (pmax - pmin) / (N - 1);
    auto w = [&](int i, double h) { return (i == 0 || i == N - 1) ? h / 3 : ((i % 2) ? 4 * h / 3 : 2 * h / 3); };
    ps.updateXProjection(); ps.updateYProjection(); ps.integrate();
    std::vector<double> fillm(nb);
    for (int n = 0; n < nb; n++) { double tot = 0;
        for (int x = 0; x < N; x++) { double px = 0; for (int y = 0; y < N; y++) px += w(y, dq) * d[(size_t(n) * N + x) * N + y];
            cmp("xprojection", n, x, ps.getProjection(0)[n][x], px, 2e-5); tot += w(x, dq) * px; }
        for (int y = 0; y < N; y++) { double py = 0; for (int x = 0; x < N; x++) py += w(x, dq) * d[(size_t(n) * N + x) * N + y];
            cmp("yprojection", n, y, ps.getProjection(1)[n][y], py, 2e-5); }
        fillm[n] = tot; cmp("population", n, 0, ps.getBunchPopulation()[n], tot, 2e-5); }
    std::vector<double> before(d, d + size_t(nb) * N * N);
    ps.normalize();
    for (int n = 0; n < nb; n++) for (int k = 0; k < N * N; k += 7) {
        double want = fill[n] > 0 ? before[size_t(n) * N * N + k] * fill[n] / fillm[n] : 0.0;
        cmp("normalize", n, k, d[size_t(n) * N * N + k], want, 2e-5); }
    ps.updateXProjection(); ps.updateYProjection(); ps.integrate(); ps.variance(0); ps.variance(1);
    for (int a = 0; a < 2; a++) for (int n = 0; n < nb; n++) {
        double m0 = 0, m1 = 0, m2 = 0, lo = a == 0 ? qmin : pmin, h = a == 0 ? dq : dp;
        for (int i = 0; i < N; i++) { double pr = ps.getProjection(a)[n][i], c = lo + i * h; m0 += pr; m1 += pr * c; }
        double f = ps.getBunchPopulation()[n];
        double mean = fill[n] > 0 ? m1 * h / f : 0;
        for (int i = 0; i < N; i++) { double pr = ps.getProjection(a)[n][i], c = lo + i * h; m2 += pr * (c - mean) * (c - mean); }
        double var = fill[n] > 0 ? m2 * h / f : 0;
        cmp(a ? "mean_energy" : "position", n, a, ps.getMoment(a, 0)[n], mean, 5e-5);
        cmp(a ? "energy_spread" : "bunch_length", n, a, a ? ps.getEnergySpread()[n] : ps.getBunchLength()[n], std::sqrt(var), 5e-5); }
    // copy / assignment carry data and derived quantities
    PhaseSpace cp(ps); PhaseSpace other(qmin, qmax, 1e-3, pmin, pmax, 1e3, nullptr, 1e-9, 1e-3, fill, 1.0, nullptr);
    other = ps;
    for (int n = 0; n < nb; n++) for (int x = 0; x < N; x += 3) {
        cmp("copy_projection", n, x, cp.getProjection(0)[n][x], ps.getProjection(0)[n][x], 1e-6);
        cmp("assigned_projection", n, x, other.getProjection(0)[n][x], ps.getProjection(0)[n][x], 1e-6); }
    printf("ps_replay: %d mismatches (N=%d nb=%d)\n", bad, N, nb);
    return bad ? 1 : 0;
}
