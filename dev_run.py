#!/usr/bin/env python3-vt
import sys, time, tempfile, importlib
sys.path.insert(0, '/verif')
from vf.unit import verify, TUCache
from vf.solve import discharge
from vf.ast import ExtractionError
mod, cls = sys.argv[1].split(':')
m = importlib.import_module('specs.' + mod)
c = getattr(m, cls)()
scratch = tempfile.mkdtemp(prefix='vf')
tc = TUCache(scratch)
t0 = time.time()
exs, info = c.custom_verify(scratch, tc) if hasattr(c, 'custom_verify') else verify(c, scratch, tc)
obls = [o for ex in exs for o in ex.obls]
print(info, len(obls), 'obligations', round(time.time() - t0, 2), 's')
discharge(obls, timeout_s=int(sys.argv[2]) if len(sys.argv) > 2 and sys.argv[2].isdigit() else 30)
for o in obls:
    flag = {'proved': 'ok ', 'refuted': 'FAIL', 'unknown': '??? '}[o.result]
    if o.kind == 'canary':
        flag = 'ok(canary refuted)' if o.result == 'refuted' else 'CANARY-PASSED!'
    if o.result != 'proved' or '-v' in sys.argv:
        print(flag, o.name, o.kind, o.seconds, o.solver, o.note)
        if o.result == 'refuted' and o.kind != 'canary' and o.model:
            print('    model:', {k: v for k, v in o.model.items() if not k.startswith('k!') and '!' not in k and not isinstance(v, str)})
print('proved', sum(o.result == 'proved' for o in obls), 'of', len(obls), 'total', round(time.time() - t0, 1), 's')
