#!/bin/bash
export VERIF_EVIDENCE_DIR=$(mktemp -d /tmp/evid.XXXX)   # runs on patched trees must not overwrite the committed evidence
# tools_seed.sh <seedname> <worktree> <props...> : confirm an independently produced seeded change and run the checks on it
# 1. in the scratch worktree: build + ctest with the change, demo must fail; without the change demo must pass
# 2. apply the patch to /repo, run ./check for the given properties, undo it
set -u
NAME=$1; WT=$2; shift 2
D=/verif/seeded/$NAME
mkdir -p $D
cp $WT/_seed/patch.diff $WT/_seed/meta.json $D/ 2>/dev/null
cp $WT/_seed/RUN.txt $WT/_seed/demo.* $D/ 2>/dev/null
# helper sources the demonstration compiles (readers, comparers): everything small and textual in _seed/
find $WT/_seed -maxdepth 1 -type f \( -name '*.cpp' -o -name '*.hpp' -o -name '*.sh' -o -name '*.py' -o -name '*.cfg' \) -size -200k -exec cp {} $D/ \; 2>/dev/null
rm -f $D/demo
LOG=$D/confirm.log; : > $LOG
echo "== worktree reset to HEAD + the recorded patch only (git stash is shared between worktrees: never used here)" | tee -a $LOG
( cd $WT && git checkout -q -- src inc && git apply _seed/patch.diff && git status --short -- src inc | tr "\n" " " ) | tee -a $LOG
echo "== with change: build + ctest" | tee -a $LOG
( cd $WT && cmake --build _build -j16 2>&1 | tail -1 && ctest --test-dir _build 2>&1 | grep "tests passed" ) | tee -a $LOG
echo "== with change: demo (expect failure)" | tee -a $LOG
( cd $WT && bash -c "$(grep -v "^#" _seed/RUN.txt | head -3 | sed "s#WT/#$WT/#g; s#WT #$WT #g")" > /tmp/demo_with.out 2>&1; echo "exit=$?" ) | tee -a $LOG; tail -3 /tmp/demo_with.out | cut -c1-300 | tee -a $LOG
echo "== without change: demo (expect pass)" | tee -a $LOG
( cd $WT && git apply -R _seed/patch.diff && (cmake --build _build -j16 >/dev/null 2>&1; true) && bash -c "$(grep -v "^#" _seed/RUN.txt | head -3 | sed "s#WT/#$WT/#g; s#WT #$WT #g")" > /tmp/demo_without.out 2>&1; echo "exit=$?"; git apply _seed/patch.diff ) | tee -a $LOG; tail -2 /tmp/demo_without.out | cut -c1-300 | tee -a $LOG
if [ "${SEED_INPLACE:-0}" = 1 ]; then
  echo "== checks on /repo with the patch applied" | tee -a $LOG
  cd /repo && git apply $D/patch.diff || { echo "PATCH DOES NOT APPLY" | tee -a $LOG; exit 1; }
else
  echo "== checks with VERIF_REPO=$WT (the worktree carrying exactly the patch; /repo untouched)" | tee -a $LOG
  export VERIF_REPO=$WT
fi
cd /verif
for p in "$@"; do
  ./check $p > /tmp/seed_check_$NAME.out 2>&1; rc=$?
  echo "check $p rc=$rc: $(grep -c '^VIOLATION' /tmp/seed_check_$NAME.out) violation lines; $(grep '^VIOLATION' /tmp/seed_check_$NAME.out | head -3 | sed 's/.*replay=//' | tr '\n' ' ')" | tee -a $LOG
  grep "^UNDECIDED" /tmp/seed_check_$NAME.out | head -3 | cut -c1-200 | tee -a $LOG
done
if [ "${SEED_INPLACE:-0}" = 1 ]; then
  git -C /repo checkout -- . && echo "repo restored: $(git -C /repo status --short | grep -v _build | wc -l) modified files" | tee -a $LOG
fi
