#!/usr/local/bin/python3-vt
"""regenerates MANIFEST.json from specs/registry.py (claims) and the not-applicable table"""
import json, sys, os
sys.path.insert(0, os.path.dirname(os.path.abspath(__file__)))
from specs import registry
NA = registry.NOT_APPLICABLE
checks = []
for pid in sorted(registry.PROPERTIES):
    p = registry.PROPERTIES[pid]
    checks.append({
        'property_id': pid,
        'quick_cmd': f'./check {pid} --tier quick',
        'thorough_cmd': f'./check {pid} --tier thorough',
        'evidence_file': f'evidence/{pid}.json',
        'replay_cmd_template': './check --replay {path}',
        'engine': 'vf',
        'level_claimed': {'category': p.get('level', 'proof'), 'text': p['claim'], 'design_ref': p.get('design_ref', 'DESIGN.md §5 ' + pid)},
        'level_note': '; '.join(p.get('assumptions', [])),
        'technique': p.get('technique', 'contract-based deductive verification: contracts on the real functions, own VCG over clang AST, z3/cvc5'),
    })
m = {
    'version': 1,
    'setup_cmd': './setup.sh',
    'hooks': {'guard': 'INOVESA_VERIF', 'enable': 'no hooks: the checks read /repo sources in place (clang AST) and build replay harnesses with -fno-access-control',
              'baseline_off_cmd': 'cmake --build /repo/_build -j16 && ctest --test-dir /repo/_build -j8 --timeout 900',
              'source_commits': [], 'add_only': True},
    'engines': [{'name': 'vf', 'path': 'vf/', 'serves_properties': sorted(registry.PROPERTIES),
                 'kind_free_text': 'verification-condition generator over the clang JSON AST of the real /repo functions; contracts in specs/*.py; z3 (cvc5 second opinion); CBMC --dfcc for bit-precise leaf units; native replay harnesses in replay/'}],
    'checks': checks,
    'not_applicable': [{'property_id': k, 'reason': v} for k, v in sorted(NA.items()) if k not in registry.PROPERTIES],
    'notes': 'exit 2 of a check means undecided (extraction failure / solver timeout), never a violation. See DESIGN.md.',
}
json.dump(m, open(os.path.join(os.path.dirname(os.path.abspath(__file__)), 'MANIFEST.json'), 'w'), indent=1)
print('MANIFEST.json written:', len(checks), 'checks,', len(m['not_applicable']), 'not applicable')
