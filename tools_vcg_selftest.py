#!/usr/bin/env python3-vt
"""Differential self-test of the VCG's C++ semantics (integer conversions, promotions, wrap-around, truncation, short circuit,
compound assignment, conditional operator, loops with unrolling): small functions are compiled natively with g++ and run on
sample inputs; for the same inputs the VCG must PROVE `return value == what the compiled code returned` from the clang AST.

A disagreement means the generator mis-models the language (as it did for `int64 %= uint64`, found by seed G2) - every proof it
produced about such code would be worthless.  Run on every change of vf/vcg.py, vf/models.py, vf/state.py, vf/types.py.

usage: tools_vcg_selftest.py            exit 0: every case agrees; 1: disagreement(s) printed; 2: could not run
"""
import os, sys, subprocess, tempfile, shutil, random

FUNCS = r'''
#include <cstdint>
#include <cmath>
#include <algorithm>
#include <vector>
namespace vfps {
int64_t  t_mod_mixed(int64_t a, uint64_t b)            { a %= b; return a; }
int64_t  t_div_mixed(int64_t a, uint64_t b)            { a /= b; return a; }
int64_t  t_mod_fix(int64_t a, uint64_t b)              { a %= b; if (a < 0) { a += b; } return a; }
int64_t  t_mod_orig(int64_t a, uint64_t b)             { a = (b + a) % b; return a; }
uint32_t t_sub_wrap(uint32_t a, uint32_t b)            { return a - b; }
uint32_t t_mul_wrap(uint32_t a, uint32_t b)            { return a * b; }
int32_t  t_promote_u8(uint8_t a, uint8_t b)            { return a - b; }
uint8_t  t_narrow_u8(uint32_t a)                       { return static_cast<uint8_t>(a); }
uint16_t t_u16_add(uint16_t a, uint16_t b)             { uint16_t r = a + b; return r; }
int32_t  t_cmp_mixed(int32_t a, uint32_t b)            { return a < b ? 1 : 0; }
int32_t  t_cmp_mixed64(int64_t a, uint32_t b)          { return a < b ? 1 : 0; }
int64_t  t_shift_r(int64_t a, uint32_t s)              { uint64_t u = static_cast<uint64_t>(a); u >>= (s % 63); return static_cast<int64_t>(u & 0x7fffffffffffffffULL); }
uint32_t t_shift_l(uint32_t a, uint32_t s)             { return a << (s % 32); }
uint32_t t_and_or(uint32_t a, uint32_t b)              { return (a & 0xff00u) | (b & 0x00ffu); }
int32_t  t_sdiv(int32_t a, int32_t b)                  { return b != 0 && !(a == INT32_MIN && b == -1) ? a / b : 0; }
int32_t  t_smod(int32_t a, int32_t b)                  { return b != 0 && !(a == INT32_MIN && b == -1) ? a % b : 0; }
int32_t  t_trunc_f(float x)                            { return (x > -1e6f && x < 1e6f) ? static_cast<int32_t>(x) : 0; }
uint32_t t_trunc_fu(float x)                           { return (x >= 0.0f && x < 1e6f) ? static_cast<uint32_t>(x) : 7u; }
int32_t  t_floor_like(float x)                         { float ip; float fr = std::modf(x, &ip); if (fr < 0) { ip -= 1.0f; } return (x > -1e6f && x < 1e6f) ? static_cast<int32_t>(ip) : 0; }
int32_t  t_postinc(int32_t a)                          { int32_t b = a++; return a * 2 + b; }
int32_t  t_preinc(int32_t a)                           { int32_t b = ++a; return a * 2 + b; }
int32_t  t_shortcircuit(int32_t a, int32_t b)          { int32_t n = 0; if (a > 0 && ++n > 0 && b > 0) { n += 10; } if (a > 5 || ++n > 100) { n += 100; } return n; }
int32_t  t_ternary_chain(int32_t a)                    { return a < 0 ? -1 : a == 0 ? 0 : a < 10 ? 1 : 2; }
uint32_t t_loop_sum(uint32_t n)                        { uint32_t s = 0; for (uint32_t i = 0; i < n % 4; i++) { s += i * i + 1; } return s; }
int32_t  t_loop_down(int32_t n)                        { int32_t s = 0; int32_t k = n % 4; if (k < 0) k = -k; while (k > 0) { s += k; k--; } return s; }
uint32_t t_minmax(uint32_t a, uint32_t b)              { return std::min(2048U, a) + std::max(b, 1U); }
int64_t  t_unsigned_neg(uint32_t a)                    { return static_cast<int64_t>(-a); }
int64_t  t_size_diff(uint64_t a, uint64_t b)           { return static_cast<int64_t>(a - b); }
int32_t  t_bool_arith(int32_t a, int32_t b)            { return (a > b) + (a == b) * 2 + (a != 0); }
uint32_t t_compound_chain(uint32_t a, int32_t b)       { a += b; a *= 3u; a -= 7; a /= 2; return a; }
int32_t  t_compound_signed(int32_t a, uint8_t b)       { a -= b; a /= 3; a %= 5; return a; }
uint64_t t_u64_from_i32(int32_t a)                     { uint64_t r = a; return r % 1000003ULL; }
int32_t  t_abs_diff(uint32_t a, uint32_t b)            { return static_cast<int32_t>(a > b ? a - b : b - a) & 0x7fffffff; }
uint32_t t_idx(uint32_t n, uint32_t x, uint32_t y)     { return ((n % 7) * 13 + (x % 13)) * 11 + (y % 11); }
int32_t  t_ternary_side(int32_t a, int32_t b)          { int32_t n = 0; int32_t r = a > b ? (n += 3, a) : (n -= 2, b); return r * 10 + n; }
int32_t  t_dowhile(int32_t a)                          { int32_t k = a % 3; if (k < 0) k = -k; int32_t s = 0; do { s += 5; k--; } while (k > 0); return s; }
int32_t  t_switch(int32_t a)                           { int32_t r = 0; switch (a % 4) { case 0: r = 10; break; case 1: r = 11; case 2: r += 20; break; default: r = -1; } return r; }
static inline int32_t helper_sq(int32_t x)             { return x * x; }
int32_t  t_call(int32_t a)                             { int32_t k = a % 100; return helper_sq(k) + helper_sq(k + 1); }
static int32_t helper_multi(int32_t a, int32_t b)      { if (a < 0) return -1; if (b < 0) { a++; return a * 2; } return a % 7 + b % 5; }
int32_t  t_call_multi(int32_t a, int32_t b)            { int32_t k = helper_multi(a % 50, b % 50); return k * 3 + helper_multi(b % 9, a % 9); }
static void helper_void_multi(int32_t& x, int32_t y)   { if (y < 0) { x = -x; return; } if (y == 0) return; x += y; }
int32_t  t_call_void_multi(int32_t a, int32_t b)       { int32_t k = a % 100; helper_void_multi(k, b % 3); helper_void_multi(k, k % 2); return k; }
static void helper_ref(int32_t& x, const int32_t& y)   { x += y; x *= 2; }
int32_t  t_ref(int32_t a, int32_t b)                   { int32_t k = a % 1000; helper_ref(k, b % 1000); return k; }
int32_t  t_array(int32_t a, uint32_t i)                { int32_t v[4] = {1, 2, 3, 4}; v[i % 4] = a % 50; v[(i + 1) % 4] += 7; return v[0] * 1000 + v[1] * 100 + v[2] * 10 + v[3]; }
int32_t  t_break_continue(uint32_t n)                  { int32_t s = 0; for (uint32_t i = 0; i < 4; i++) { if (i == n % 5) continue; if (i > (n / 5) % 5) break; s += i + 1; } return s; }
int32_t  t_early_return(int32_t a, int32_t b)          { if (a < 0) return -1; if (b < 0) { a++; return a; } return a % 7 + b % 5; }
uint32_t t_comma_for(uint32_t n)                       { uint32_t s = 0; for (uint32_t i = 0, j = 10; i < n % 4; i++, j--) { s += j - i; } return s; }
int64_t  t_mixed_chain(int32_t a, uint16_t b, int64_t c) { return (a % 1000) * b + (c % 1000) - static_cast<int64_t>(b) * 3; }
int32_t  t_vector(int32_t a, uint32_t i)               { std::vector<int32_t> v; v.push_back(a % 10); v.push_back(7); v.push_back(-3); v[i % 3] += 100; v.resize(4, 9); return static_cast<int32_t>(v.size()) * 10000 + v[0] * 100 + v[1] * 10 + v[2] + v[3] * 1000; }
int32_t  t_vector_fill(uint32_t n)                     { std::vector<int32_t> v(4, 2); std::fill(v.begin(), v.begin() + (n % 4), 5); return v[0] * 1000 + v[1] * 100 + v[2] * 10 + v[3]; }
int32_t  t_copy_n(uint32_t n)                          { std::vector<int32_t> a(4, 1); std::vector<int32_t> b(4, 0); a[1] = 2; a[2] = 3; a[3] = 4; std::copy_n(a.data() + (n % 2), 2, b.data() + 1); return b[0] * 1000 + b[1] * 100 + b[2] * 10 + b[3]; }
struct Pt { float x; float y; };
int32_t  t_struct(int32_t a, int32_t b)                { Pt p{static_cast<float>(a % 100), static_cast<float>(b % 100)}; Pt q = p; q.x += 1.0f; p.y = q.x; return static_cast<int32_t>(p.x) * 1000 + static_cast<int32_t>(p.y) * 10 + (q.y == static_cast<float>(b % 100) ? 1 : 0); }
int32_t  t_ptr_walk(uint32_t n)                        { std::vector<int32_t> v(5, 0); int32_t* p = v.data(); for (uint32_t i = 0; i < 5; i++) { *p = static_cast<int32_t>(i * (n % 3)); p++; } const int32_t* q = v.data() + 2; return q[0] * 100 + q[1] * 10 + *(q - 1); }
int32_t  t_floor(float x)                              { return static_cast<int32_t>(std::floor(x)) * 10 + static_cast<int32_t>(std::ceil(x)); }
int32_t  t_round(float x)                              { return static_cast<int32_t>(std::round(x)) * 100 + static_cast<int32_t>(std::trunc(x)) * 10 + static_cast<int32_t>(std::lround(x)); }
int32_t  t_fabs_minmax(float x, float y)               { return static_cast<int32_t>(4 * (std::fabs(x) + std::min(x, y) - std::max(x, y) * 2)); }
int32_t  t_int_div_then_float(int32_t a, int32_t b)    { float r = (a % 1000) / ((b % 7) + 8); float q = static_cast<float>(a % 1000) / 8.0f; return static_cast<int32_t>(r) * 1000 + static_cast<int32_t>(q * 8.0f); }
int32_t  t_unsigned_minus_float(uint32_t n)            { float f = (n % 100) - 1.0f; uint32_t m = (n % 100) - 1; return static_cast<int32_t>(f) * 2 + (m > 1000 ? 1 : 0); }
int32_t  t_float_cmp(float x, float y)                 { return (x < y) + 2 * (x <= y) + 4 * (x == y) + 8 * (x != y) + 16 * (!(x > y)); }
int32_t  t_clamp(float q)                              { float v = std::min(std::max(0.0f, (q - (-6.0f)) / 0.5f), 24.0f - 1.0f); return static_cast<int32_t>(v * 2); }
uint32_t t_size_arith(uint32_t n)                      { std::vector<int32_t> v(n % 6, 1); return static_cast<uint32_t>(v.size() / 2 + v.size() % 2) * 10 + (v.empty() ? 1 : 0); }
}
'''

# name -> (return kind, [(param name, kind)]) ; kinds: i8 u8 u16 i32 u32 i64 u64 f32
SIGS = {
    't_mod_mixed': ('i64', [('a', 'i64'), ('b', 'u64nz')]), 't_div_mixed': ('i64', [('a', 'i64'), ('b', 'u64nz')]),
    't_mod_fix': ('i64', [('a', 'i64'), ('b', 'u64small')]), 't_mod_orig': ('i64', [('a', 'i64small'), ('b', 'u64small')]),
    't_sub_wrap': ('u32', [('a', 'u32'), ('b', 'u32')]), 't_mul_wrap': ('u32', [('a', 'u32'), ('b', 'u32')]),
    't_promote_u8': ('i32', [('a', 'u8'), ('b', 'u8')]), 't_narrow_u8': ('u8', [('a', 'u32')]), 't_u16_add': ('u16', [('a', 'u16'), ('b', 'u16')]),
    't_cmp_mixed': ('i32', [('a', 'i32'), ('b', 'u32')]), 't_cmp_mixed64': ('i32', [('a', 'i64'), ('b', 'u32')]),
    't_shift_r': ('i64', [('a', 'i64'), ('s', 'u32')]), 't_shift_l': ('u32', [('a', 'u32'), ('s', 'u32')]), 't_and_or': ('u32', [('a', 'u32'), ('b', 'u32')]),
    't_sdiv': ('i32', [('a', 'i32'), ('b', 'i32')]), 't_smod': ('i32', [('a', 'i32'), ('b', 'i32')]),
    't_trunc_f': ('i32', [('x', 'f32')]), 't_trunc_fu': ('u32', [('x', 'f32')]), 't_floor_like': ('i32', [('x', 'f32')]),
    't_postinc': ('i32', [('a', 'i32s')]), 't_preinc': ('i32', [('a', 'i32s')]), 't_shortcircuit': ('i32', [('a', 'i32s'), ('b', 'i32s')]),
    't_ternary_chain': ('i32', [('a', 'i32')]), 't_loop_sum': ('u32', [('n', 'u32')]), 't_loop_down': ('i32', [('n', 'i32')]),
    't_minmax': ('u32', [('a', 'u32s'), ('b', 'u32s')]), 't_unsigned_neg': ('i64', [('a', 'u32')]), 't_size_diff': ('i64', [('a', 'u64small'), ('b', 'u64small')]),
    't_bool_arith': ('i32', [('a', 'i32'), ('b', 'i32')]), 't_compound_chain': ('u32', [('a', 'u32'), ('b', 'i32')]),
    't_compound_signed': ('i32', [('a', 'i32s'), ('b', 'u8')]), 't_u64_from_i32': ('u64', [('a', 'i32')]), 't_abs_diff': ('i32', [('a', 'u32'), ('b', 'u32')]),
    't_idx': ('u32', [('n', 'u32'), ('x', 'u32'), ('y', 'u32')]),
    't_ternary_side': ('i32', [('a', 'i32s'), ('b', 'i32s')]), 't_dowhile': ('i32', [('a', 'i32')]), 't_switch': ('i32', [('a', 'u32s')]),
    't_call': ('i32', [('a', 'i32')]), 't_call_multi': ('i32', [('a', 'i32s'), ('b', 'i32s')]), 't_call_void_multi': ('i32', [('a', 'i32s'), ('b', 'i32s')]), 't_ref': ('i32', [('a', 'i32'), ('b', 'i32')]), 't_array': ('i32', [('a', 'i32'), ('i', 'u32')]),
    't_break_continue': ('i32', [('n', 'u32')]), 't_early_return': ('i32', [('a', 'i32s'), ('b', 'i32s')]), 't_comma_for': ('u32', [('n', 'u32')]),
    't_mixed_chain': ('i64', [('a', 'i32'), ('b', 'u16'), ('c', 'i64')]),
    't_vector': ('i32', [('a', 'i32'), ('i', 'u32')]), 't_vector_fill': ('i32', [('n', 'u32')]), 't_copy_n': ('i32', [('n', 'u32')]),
    't_floor': ('i32', [('x', 'f32')]), 't_round': ('i32', [('x', 'f32h')]), 't_fabs_minmax': ('i32', [('x', 'f32h'), ('y', 'f32h')]),
    't_int_div_then_float': ('i32', [('a', 'i32'), ('b', 'i32')]), 't_unsigned_minus_float': ('i32', [('n', 'u32')]), 't_float_cmp': ('i32', [('x', 'f32h'), ('y', 'f32h')]),
    't_clamp': ('i32', [('q', 'f32h')]),
    't_struct': ('i32', [('a', 'i32'), ('b', 'i32')]), 't_ptr_walk': ('i32', [('n', 'u32')]), 't_size_arith': ('u32', [('n', 'u32')]),
}
CT = {'i8': 'int8_t', 'u8': 'uint8_t', 'u16': 'uint16_t', 'i32': 'int32_t', 'u32': 'uint32_t', 'i64': 'int64_t', 'u64': 'uint64_t', 'f32': 'float'}
LOOPS = {'t_loop_sum': {'i#0': 4}, 't_loop_down': {'while#0': 4}, 't_dowhile': {'do#0': 4}, 't_break_continue': {'i#0': 5}, 't_comma_for': {'i#0': 4}, 't_ptr_walk': {'i#0': 5}}


def samples(kind, rnd):
    edge = {'u8': [0, 1, 127, 128, 255], 'u16': [0, 1, 32767, 32768, 65535], 'i32': [0, 1, -1, 2, -2, 7, -7, 2 ** 31 - 1, -2 ** 31, 100, -100],
            'i32s': [0, 1, -1, 5, 6, -6, 1000, -1000], 'u32': [0, 1, 2, 3, 255, 256, 2 ** 31, 2 ** 32 - 1, 12345], 'u32s': [0, 1, 2047, 2048, 2049, 100000],
            'i64': [0, 1, -1, -2, -5, 5, 2 ** 40, -2 ** 40, 2 ** 63 - 1, -2 ** 63], 'i64small': [0, 1, -1, -2, -5, 5, 1000, -1000],
            'u64nz': [1, 2, 3, 5, 6, 8, 1000, 2 ** 63, 2 ** 64 - 1], 'u64small': [1, 2, 3, 5, 6, 8, 9, 1000],
            'f32h': [0.0, 0.5, -0.5, 1.0, -1.0, 1.5, -1.5, 2.5, -2.5, 3.25, -3.25, 7.75, -100.5, 100.5, -6.0, 5.5, 6.0],
            'f32': [0.0, 0.5, -0.5, 1.0, -1.0, 1.5, -1.5, 2.999, -2.999, 123456.75, -123456.75, 0.999999, -0.000001]}[kind]
    return edge


def base(kind):
    return {'i32s': 'i32', 'u32s': 'u32', 'i64small': 'i64', 'u64nz': 'u64', 'u64small': 'u64', 'f32h': 'f32'}.get(kind, kind)


def main():
    scratch = tempfile.mkdtemp(prefix='/tmp/vfself')
    try:
        os.makedirs(os.path.join(scratch, 'src'))
        os.makedirs(os.path.join(scratch, 'inc'))
        open(os.path.join(scratch, 'src', 'selftest.cpp'), 'w').write(FUNCS)
        rnd = random.Random(1)
        vectors = {}
        for f, (rk, ps) in SIGS.items():
            pools = [samples(k, rnd) for _, k in ps]
            vs = set()
            for _ in range(200):
                vs.add(tuple(rnd.choice(p) for p in pools))
                if len(vs) >= 14:
                    break
            vectors[f] = sorted(vs, key=lambda t: [float(x) for x in t])
        # ---- native side
        drv = [FUNCS, '#include <cstdio>\n#include <cinttypes>\nusing namespace vfps;\nint main(){\n']
        for f, (rk, ps) in SIGS.items():
            for vi, vec in enumerate(vectors[f]):
                args = ', '.join((repr(float(v)) + 'f' if base(k) == 'f32' else (f'(({CT[base(k)]}){v}' + ('ULL' if base(k) == 'u64' else 'LL') + ')') if base(k) in ('i64', 'u64') else f'(({CT[base(k)]}){v})') for v, (_, k) in zip(vec, ps))
                args = args.replace('-9223372036854775808LL', '(-9223372036854775807LL-1)')
                drv.append(f'  printf("{f} {vi} %lld\\n", (long long){f}({args}));\n' if rk != 'u64' else f'  printf("{f} {vi} %llu\\n", (unsigned long long){f}({args}));\n')
        drv.append('  return 0;\n}\n')
        open(os.path.join(scratch, 'drv.cpp'), 'w').write(''.join(drv))
        p = subprocess.run(['g++', '-std=c++14', '-O0', '-w', '-o', os.path.join(scratch, 'drv'), os.path.join(scratch, 'drv.cpp')], capture_output=True, text=True)
        if p.returncode != 0:
            print('selftest: native build failed\n' + p.stderr[-1500:])
            return 2
        out = subprocess.run([os.path.join(scratch, 'drv')], capture_output=True, text=True).stdout
        native = {}
        for l in out.splitlines():
            f, vi, val = l.split()
            native[(f, int(vi))] = int(val)
        # ---- VCG side (the package reads VERIF_REPO at import)
        os.environ['VERIF_REPO'] = scratch
        sys.path.insert(0, os.path.dirname(os.path.abspath(__file__)))
        import z3
        from vf.unit import Contract, verify, TUCache
        from vf.vcg import LoopSpec
        from vf.solve import discharge
        tc = TUCache(scratch)
        bad = total = 0
        refused, nref = {}, [0]
        allobls = []
        for f, (rk, ps) in SIGS.items():
            for vi, vec in enumerate(vectors[f]):
                want = native[(f, vi)]

                def mk(f=f, ps=ps, vec=vec, want=want):
                    class C(Contract):
                        name = 'vfps::' + f
                        tu = 'src/selftest.cpp'
                        params = [n for n, _ in ps]
                        tags = {'SELF'}
                        canary = False
                        loops = {k: LoopSpec(unroll=v) for k, v in LOOPS.get(f, {}).items()}

                        def requires(self, cx):
                            from fractions import Fraction
                            return [('vec', z3.And(*[cx.a(n) == (z3.RealVal(Fraction(v)) if base(k) == 'f32' else z3.IntVal(v)) for (n, k), v in zip(ps, vec)]))]

                        def ensures(self, cx):
                            r = cx.ret
                            return [('agrees_with_compiled_code', {'SELF'}, r.t == z3.IntVal(want))]
                    return C()
                try:
                    exs, info = verify(mk(), scratch, tc)
                except Exception as e:
                    from vf.ast import ExtractionError as _EE
                    if isinstance(e, _EE):
                        # refused outright: a unit containing this construct ends undecided (exit 2), nothing is proved about it
                        refused.setdefault(f, str(e)[:140])
                        nref[0] += 1
                    else:
                        print(f'DISAGREE {f}{vec}: the VCG crashed on it: {type(e).__name__}: {str(e)[:160]}')
                        bad += 1
                    total += 1
                    continue
                obls = [o for ex in exs for o in ex.obls if o.kind == 'postcondition']
                for o in obls:
                    o._case = (f, vec, want)
                allobls += obls
        discharge(allobls, timeout_s=20)
        for o in allobls:
            total += 1
            if o.result != 'proved':
                f, vec, want = o._case
                print(f'DISAGREE {f}{vec}: compiled code returns {want}, the VCG {"refutes that" if o.result == "refuted" else "cannot decide it"} ({o.result})')
                bad += 1
        for f, why in sorted(refused.items()):
            print(f'REFUSED {f}: {why}')
        print(f'vcg selftest: {total - bad - nref[0]} of {total} cases agree, {nref[0]} refused (construct not modelled: such a unit is undecided, never proved), {bad} DISAGREE; compiled code vs VCG over {len(SIGS)} functions')
        return 1 if bad else 0
    finally:
        shutil.rmtree(scratch, ignore_errors=True)


if __name__ == '__main__':
    sys.exit(main())
