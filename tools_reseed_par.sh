#!/bin/bash
# tools_reseed_par.sh [jobs]: tools_reseed.sh in parallel — the kept seeds are dealt round-robin to <jobs> scratch worktrees of /repo's HEAD
# (/tmp/reseed_wt_<k>, removed afterwards); each seed's patch is applied there and the check of its property runs with VERIF_REPO set.
# Output: one line per seed on stdout (sorted), as tools_reseed.sh prints them.
J=${1:-4}
cd /verif
ls -d seeded/*/ | while read d; do n=$(basename $d); [ -f $d/patch.diff ] || continue; case "$n" in R*) continue;; esac; echo $n; done > /tmp/reseed_names.txt
for k in $(seq 1 $J); do
  awk -v k=$k -v j=$J 'NR % j == k % j' /tmp/reseed_names.txt > /tmp/reseed_names_$k.txt
  (
    export VERIF_EVIDENCE_DIR=$(mktemp -d /tmp/evid.XXXX)
    WT=/tmp/reseed_wt_$k
    git -C /repo worktree remove --force $WT >/dev/null 2>&1
    git -C /repo worktree add --detach $WT HEAD >/dev/null 2>&1
    export VERIF_REPO=$WT
    while read n; do
      d=seeded/$n
      p=$(python3 -c "import json;print(json.load(open('$d/meta.json')).get('property','') )" 2>/dev/null)
      [ -n "$p" ] || continue
      ( cd $WT && git apply /verif/$d/patch.diff 2>/dev/null || git apply -3 /verif/$d/patch.diff 2>/dev/null ) || { echo "$n: patch does not apply to the current HEAD"; git -C $WT checkout -q -- . ; git -C $WT reset -q --hard; continue; }
      ./check $p > /tmp/reseed_$n.out 2>&1; rc=$?
      echo "$n: check $p rc=$rc $(grep -c '^VIOLATION' /tmp/reseed_$n.out) violations; $(grep '^VIOLATION' /tmp/reseed_$n.out | head -2 | sed 's/.*replay=.verif.replays.//' | tr '\n' ' ')$(grep '^UNDECIDED' /tmp/reseed_$n.out | head -1 | cut -c1-160)"
      git -C $WT checkout -q -- . ; git -C $WT reset -q --hard
    done < /tmp/reseed_names_$k.txt
    git -C /repo worktree remove --force $WT >/dev/null 2>&1
    rm -rf $VERIF_EVIDENCE_DIR
  ) > /tmp/reseed_par_$k.log 2>&1 &
done
wait
cat /tmp/reseed_par_*.log | sort
