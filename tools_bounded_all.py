import sys, tempfile, time
sys.path.insert(0,'/verif')
from vf.unit import verify, TUCache
from vf.solve import discharge
from specs import registry
seen=set(); units=[]
for pid,p in registry.PROPERTIES.items():
    for c in p['units']:
        if c not in seen: seen.add(c); units.append(c)
sc=tempfile.mkdtemp(); tc=TUCache(sc)
for cls in units:
    c=cls()
    if hasattr(c,'custom_verify') or getattr(c,'no_bounded_fallback',False): continue
    try:
        has_loops = bool(c.loops) or hasattr(c,'loops_for')
    except Exception: has_loops=True
    if not has_loops: continue
    t0=time.time()
    try:
        obls=[]
        for bc in (getattr(c,'bounded_cases',None) or [None]):
            exs,_=verify(c, sc, tc, bounded=3, bcase=bc)
            obls+=[o for ex in exs for o in ex.obls if o.kind in ('postcondition','safety','frame','precondition','canary')]
        discharge(obls, timeout_s=30)
        bad=[o.name for o in obls if o.kind!='canary' and o.result=='refuted']
        unk=[o.name for o in obls if o.kind!='canary' and o.result=='unknown']
        can=[o.name for o in obls if o.kind=='canary' and o.result!='refuted']
        print(f'{cls.__module__}.{cls.__name__}: {len(obls)} obl, refuted={bad[:4]} unknown={len(unk)} canary_not_refuted={len(can)} {round(time.time()-t0,1)}s', flush=True)
    except Exception as e:
        print(f'{cls.__module__}.{cls.__name__}: ERROR {str(e)[:150]}', flush=True)
