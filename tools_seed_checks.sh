#!/bin/bash
# tools_seed_checks.sh <seedname> <worktree> <prop> [<prop> ...] : (re-)run only the checks of a kept seeded change on the worktree carrying it
export VERIF_EVIDENCE_DIR=$(mktemp -d /tmp/evid.XXXX)
NAME=$1; WT=$2; shift 2
D=/verif/seeded/$NAME; LOG=$D/confirm.log
( cd $WT && git checkout -q -- src inc && git apply /verif/seeded/$NAME/patch.diff ) || { echo "patch does not apply"; exit 3; }
export VERIF_REPO=$WT
cd /verif
echo "== checks (re-run $(date -u +%FT%TZ)) with VERIF_REPO=$WT" | tee -a $LOG
for p in "$@"; do
  ./check $p > /tmp/seed_check_${NAME}_$p.out 2>&1; rc=$?
  echo "check $p rc=$rc: $(grep -c '^VIOLATION' /tmp/seed_check_${NAME}_$p.out) violation lines; $(grep '^VIOLATION' /tmp/seed_check_${NAME}_$p.out | head -3 | sed 's/.*replay=//' | tr '\n' ' ')" | tee -a $LOG
  grep "^UNDECIDED" /tmp/seed_check_${NAME}_$p.out | head -3 | cut -c1-200 | tee -a $LOG
done
rm -rf $VERIF_EVIDENCE_DIR
