#!/bin/bash
export VERIF_EVIDENCE_DIR=$(mktemp -d /tmp/evid.XXXX)   # runs on patched trees must not overwrite the committed evidence
# tools_refactor.sh <name> <worktree> <props...>: a behaviour-preserving edit must not raise an alarm (exit 0 or 2, never a VIOLATION)
# the checks read the worktree (VERIF_REPO), which carries exactly the recorded patch on top of /repo's HEAD; /repo is untouched
NAME=$1; WT=$2; shift 2
D=/verif/seeded/$NAME; mkdir -p $D
cp $WT/_seed/patch.diff $WT/_seed/meta.json $D/ 2>/dev/null; cp $WT/_seed/equiv.cpp $WT/_seed/equiv.sh $D/ 2>/dev/null
LOG=$D/confirm.log; : > $LOG
( cd $WT && git checkout -q -- src inc && git checkout -q --detach main && ( git apply _seed/patch.diff || git apply -3 _seed/patch.diff ) && echo "patch on top of $(git -C /repo log --oneline -1 | cut -c1-7)" && cmake --build _build -j16 2>&1 | tail -1 && ctest --test-dir _build 2>&1 | grep "tests passed" ) | tee -a $LOG
export VERIF_REPO=$WT
cd /verif
for p in "$@"; do
  ./check $p > /tmp/ref_check_$NAME.out 2>&1; rc=$?
  echo "check $p rc=$rc: $(grep -c '^VIOLATION' /tmp/ref_check_$NAME.out) violation lines $(grep '^VIOLATION' /tmp/ref_check_$NAME.out | head -2 | sed 's/.*replay=.verif.replays.//' | tr '\n' ' ')" | tee -a $LOG
  grep "^UNDECIDED" /tmp/ref_check_$NAME.out | head -4 | cut -c1-230 | tee -a $LOG
done
