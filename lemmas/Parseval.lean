import Mathlib.Data.Complex.Basic
import Mathlib.Data.Complex.BigOperators
import Mathlib.Algebra.BigOperators.Fin
import Mathlib.Data.Fintype.BigOperators
import Mathlib.Tactic.Ring

/-!
L-PARSEVAL (used by C07): the energy the wake takes from the beam equals the power computed from the spectrum.

`ρ j` is the (real) padded bunch profile, `e j k` the transform kernel (`exp(2πi jk/n)` for FFTW, but nothing about it is
needed), `F k = ∑ j, ρ j * conj (e j k)` the forward transform, `Z k` the impedance, and the unscaled wake potential read
back at sample `j` is `W j = ∑ k ∈ S, c k * Re (Z k * F k * e j k)`, where `S` is the set of frequencies that are used
(`k < n/2`) and `c k` the real multiplicity with which the Hermitian inverse transform counts frequency `k`
(1 for `k = 0`, 2 for `0 < k < n/2`).  Then

  `∑ j, ρ j * W j = ∑ k ∈ S, c k * Re (Z k) * |F k|²`,

i.e. with `c k = 2` for `k ≠ 0`: one half of `∑ ρ W` is the sum of `Re Z * |F|²` over the positive frequencies, plus one
half of the zero-frequency term — the identity C07 states "apart from the zero-frequency and Nyquist terms".
The contracts in `/verif/specs/ef.py` prove on the real code that `wakePotential` and `updateCSR` compute exactly these
`W` and `Re Z * |F|²`; this lemma is the algebraic step between them.  It is an interchange of two finite sums.
-/

open Finset Complex

theorem power_eq_wake_loss {ι κ : Type*} [Fintype ι] [DecidableEq κ]
    (S : Finset κ) (ρ : ι → ℝ) (c : κ → ℝ) (Z F : κ → ℂ) (e : ι → κ → ℂ)
    (hF : ∀ k, F k = ∑ j, (ρ j : ℂ) * (starRingEnd ℂ) (e j k)) :
    ∑ j, ρ j * (∑ k ∈ S, c k * (Z k * F k * e j k).re)
      = ∑ k ∈ S, c k * ((Z k).re * Complex.normSq (F k)) := by
  -- pull ρ j inside, swap the two sums
  have h1 : ∑ j, ρ j * (∑ k ∈ S, c k * (Z k * F k * e j k).re)
      = ∑ k ∈ S, c k * ∑ j, ρ j * (Z k * F k * e j k).re := by
    simp_rw [Finset.mul_sum]
    rw [Finset.sum_comm]
    apply Finset.sum_congr rfl
    intro k _
    apply Finset.sum_congr rfl
    intro j _
    ring
  rw [h1]
  apply Finset.sum_congr rfl
  intro k _
  congr 1
  -- ∑ j ρ j * Re (Z F e) = Re (Z F ∑ j ρ j e) = Re (Z F conj F) = Re Z * |F|²
  have h2 : ∑ j, ρ j * (Z k * F k * e j k).re = (Z k * F k * ∑ j, (ρ j : ℂ) * e j k).re := by
    rw [Finset.mul_sum, Complex.re_sum]
    apply Finset.sum_congr rfl
    intro j _
    have : Z k * F k * ((ρ j : ℂ) * e j k) = (ρ j : ℂ) * (Z k * F k * e j k) := by ring
    rw [this, Complex.re_ofReal_mul]
  have h3 : ∑ j, (ρ j : ℂ) * e j k = (starRingEnd ℂ) (F k) := by
    rw [hF k]
    simp only [map_sum, map_mul, Complex.conj_ofReal, Complex.conj_conj]
  rw [h2, h3, mul_assoc, Complex.mul_conj]
  simp [Complex.mul_re]
