import Mathlib.Data.Real.Basic
import Mathlib.Algebra.BigOperators.Fin
import Mathlib.Algebra.Order.BigOperators.Group.Finset
import Mathlib.Algebra.Order.BigOperators.Ring.Finset
import Mathlib.Data.Fintype.BigOperators
import Mathlib.Tactic.Ring

/-!
L-SUMCOMM (used by C01): a linear transport step `out i = ∑ j, A i j * inp j` whose columns sum to one
(`∑ i, A i j = 1` for every source cell `j` that carries charge) conserves the total.

The contracts in `/verif/specs/sm.py` prove, on the real code, the functional form of every step operator and that the
interior columns sum to one; this lemma is the step from "column sums are one" to "the plain sum over all cells is unchanged".
-/

open Finset

theorem total_conserved_of_column_sums_one {ι κ : Type*} [Fintype ι] [Fintype κ]
    (A : ι → κ → ℝ) (inp : κ → ℝ)
    (hcol : ∀ j, inp j ≠ 0 → ∑ i, A i j = 1) :
    ∑ i, ∑ j, A i j * inp j = ∑ j, inp j := by
  rw [Finset.sum_comm]
  apply Finset.sum_congr rfl
  intro j _
  by_cases h : inp j = 0
  · simp [h]
  · rw [← Finset.sum_mul, hcol j h, one_mul]

/-- the tolerated defect of the damping/diffusion step: if every column sum deviates from one by at most `ε`,
the total changes by at most `ε * ∑ |inp j|` -/
theorem total_defect_bound {ι κ : Type*} [Fintype ι] [Fintype κ]
    (A : ι → κ → ℝ) (inp : κ → ℝ) (ε : ℝ)
    (hcol : ∀ j, |∑ i, A i j - 1| ≤ ε) :
    |∑ i, ∑ j, A i j * inp j - ∑ j, inp j| ≤ ε * ∑ j, |inp j| := by
  rw [Finset.sum_comm, ← Finset.sum_sub_distrib]
  calc |∑ j, (∑ i, A i j * inp j - inp j)|
      ≤ ∑ j, |∑ i, A i j * inp j - inp j| := Finset.abs_sum_le_sum_abs _ _
    _ = ∑ j, |(∑ i, A i j - 1)| * |inp j| := by
        apply Finset.sum_congr rfl
        intro j _
        rw [← Finset.sum_mul, ← abs_mul]
        congr 1
        ring
    _ ≤ ∑ j, ε * |inp j| := by
        apply Finset.sum_le_sum
        intro j _
        exact mul_le_mul_of_nonneg_right (hcol j) (abs_nonneg _)
    _ = ε * ∑ j, |inp j| := by rw [Finset.mul_sum]
