"""Contracts: one object per function, used twice — enforced on the function's own body
(verify) and substituted at call sites (Use)."""
import time, z3
from .types import *
from .state import *
from .ast import TU, ExtractionError, params, body, ctor_inits, src_range
from .vcg import Exec, Ctx, LoopSpec, LObj, LScal, LElem, LVar, ElemInv
from . import models

I = z3.IntVal


class Contract:
    name = None          # qualified C++ name
    tu = None            # path relative to /repo
    mangled = None
    nparams = None
    params = []          # parameter names as used in the contract (positional)
    tags = set()
    loops = {}
    calls = {}
    ghosts = {}          # name -> 'int' | 'real'
    cases = [{}]         # case splits: dict of param name -> concrete int
    returns_ref = False
    canary = True

    def setup(self, cx):
        pass

    def requires(self, cx):
        return []

    def assigns(self, cx):
        return []

    def ensures(self, cx):
        return []

    def result(self, cx):
        return None

    def short(self):
        return self.name.replace('vfps::', '')


def bind_param(ex, st, p, idx):
    name = p.get('name') or f'arg{idx}'
    ct = parse_type(p['type'])
    isref = p['type']['qualType'].rstrip().endswith('&')
    st.names[p['id']] = name
    if ct.kind == 'int':
        v = IntV(z3.Int('arg:' + name), ct)
        st.assume(range_fact(v.t, ct))
    elif ct.kind == 'float':
        v = RealV(z3.Real('arg:' + name), ct)
    elif ct.kind == 'ptr':
        if ct.pointee.kind == 'class' and not pod_of(ct.pointee.name):
            v = ObjRef('*arg:' + name, ct.pointee.name, null=z3.Bool(f'arg:{name}==null'))
        else:
            v = PtrV('arg:' + name, I(0), ct)
    elif ct.kind == 'class':
        v = ObjRef('arg:' + name, ct.name)
        if pod_of(ct.name):
            if isref:
                st.env[p['id']] = LObj(v)
                return name, LObj(v)
            v = ex.load(LObj(v), st)
    else:
        raise ExtractionError(f'parameter {name} of type {ct}')
    if isref and ct.kind in ('int', 'float'):
        path = 'arg:' + name
        st.scal[path] = v
        st.env[p['id']] = LScal(path, ct)
        return name, LScal(path, ct)
    st.env[p['id']] = v
    return name, v


def verify(contract, scratch, tucache, bounded=0, bcase=None):
    """enforce the contract on the function's own body; returns (Exec, info dict)"""
    t0 = time.time()
    tu = tucache.get(contract.tu, getattr(contract, 'tu_filter', 'vfps::'))
    fn = tu.function(contract.name, contract.mangled, contract.nparams, getattr(contract, 'sig_contains', None))
    aux = [tucache.get(r, f) for r, f in getattr(contract, 'aux_tus', [])]
    allobls = []
    info = {'unit': contract.name, 'file': contract.tu, 'sha': tu.sha, 'cases': len(contract.cases)}
    b, e = src_range(fn, tu.path)
    info['lines'] = [b, e]
    exs = []
    for ci, case in enumerate(contract.cases):
        ex = Exec(tu, fn, contract.short() + (f'@{ci}' if len(contract.cases) > 1 else ''))
        ex.aux_tus = aux
        ex.bounded = bounded
        ex.safety_tags = set(getattr(contract, 'safety_tags', None) or {'C17'})
        ex.decl_assume = getattr(contract, 'domain_after', None)
        ex.domain_values = getattr(contract, 'domain_values', None)
        ex.plain_abort = getattr(contract, 'plain_abort', False)      # the SIGINT handler itself: Display::abort is an ordinary global there
        ex.loops = contract.loops_for(ci) if hasattr(contract, 'loops_for') else contract.loops
        ex.calls = contract.calls
        ex.default_tags = set(contract.tags)
        ex.fn_returns_ref = contract.returns_ref
        ex.uf_mul = getattr(contract, 'uf_mul', False)
        ex.uf_div = getattr(contract, 'uf_div', False)
        st = State()
        args = {}
        for i, p in enumerate(params(fn)):
            nm, v = bind_param(ex, st, p, i)
            args[nm] = v
        want = list(contract.params)
        have = list(args)
        if want and want != have:
            # positional rename is tolerated, arity change is not
            if len(want) != len(have):
                raise ExtractionError(f'{contract.name}: parameter list changed: contract {want}, source {have}')
            args = {w: args[h] for w, h in zip(want, have)}
        for k, val in case.items():
            a = args[k]
            st.assume(a.t == val)
            args[k] = IntV(I(val), a.ct)
            for p in params(fn):
                if st.names.get(p['id']) == k or (want and have[want.index(k)] == st.names.get(p['id'])):
                    st.env[p['id']] = args[k]
        for g, srt in contract.ghosts.items():
            ex.ghosts[g] = z3.Int('ghost:' + g) if srt == 'int' else z3.Real('ghost:' + g)
        ex.args0 = args
        ex.unit_ghosts = dict(ex.ghosts)
        cx0 = Ctx(ex, st, st, args)
        contract.setup(cx0)
        if bounded and bcase is not None:
            for f_ in bcase(cx0):
                st.assume(f_)      # concrete small sizes of this bounded case
        reqs = contract.requires(cx0)
        ex.elem_inv = {}
        for lab, f in reqs:
            if isinstance(f, ElemInv):
                ct_ = parse_type_str('float' if f.kind == 'real' else 'unsigned int')
                st.array(f.region, f.leaf, ct_)        # make sure the entry array exists
                ex.elem_inv[(f.region, f.leaf)] = (lambda fn: (lambda s_, k_, v_: fn(Ctx(ex, s_, None, args), k_, v_)))(f.fn)
            else:
                st.assume(f)
        # instances of the element-wise preconditions at the unit's ghost indices, on the entry arrays (sound: the
        # precondition holds for every index; a postcondition about ghost index g usually needs exactly this instance)
        for (region_, leaf_), inv_ in list(ex.elem_inv.items()):
            lct_ = st.leafct.get((region_, leaf_)) or parse_type_str('float')
            arr_ = st.array(region_, leaf_, lct_)
            for gname_, gterm_ in ex.ghosts.items():
                if gterm_.sort() == z3.IntSort():
                    st.assume(inv_(st, gterm_, z3.Select(arr_, gterm_)))
        ex.requires_pc = list(st.pc)
        entry = st.copy()
        ex.entry = entry
        cx0._old = entry
        cxe = Ctx(ex, entry, entry, args)
        ex.assigns = [(t[0], cxe.R(t[1]) if not t[1].endswith('*') else t[1]) + tuple(t[2:]) for t in map(normalise_target, contract.assigns(cxe))]
        # constructors: member initialisers first
        inits = ctor_inits(fn)
        if inits:
            run_inits(ex, st, inits, contract)
        if getattr(contract, 'slice_from', None) or getattr(contract, 'slice_stmt', None):
            stmts_all = body(fn).get('inner', [])
            start = None
            if getattr(contract, 'slice_stmt', None):
                # one top-level statement of the function, chosen by kind and ordinal (e.g. the only while loop)
                kind_, ord_ = contract.slice_stmt
                hits = [i_ for i_, s_ in enumerate(stmts_all) if s_.get('kind') == kind_]
                if len(hits) <= ord_:
                    raise ExtractionError(f'{contract.name}: statement {kind_}#{ord_} not found at the top level of the function')
                start = hits[ord_]
                stmts = stmts_all[start:start + 1]
            else:
                for i_, s_ in enumerate(stmts_all):
                    if s_.get('kind') == 'DeclStmt' and any(c.get('name') == contract.slice_from for c in s_.get('inner', [])):
                        start = i_
                        break
                if start is None:
                    raise ExtractionError(f'{contract.name}: slice start marker "{contract.slice_from}" not found')
                stmts = stmts_all[start:]
                if getattr(contract, 'slice_count', None):
                    stmts = stmts[:contract.slice_count]       # the declaration and the statements right after it
                if getattr(contract, 'slice_until', None):
                    # ... up to (not including) the top-level declaration of another variable
                    end = None
                    for j_, s_ in enumerate(stmts):
                        if s_.get('kind') == 'DeclStmt' and any(c.get('name') == contract.slice_until for c in s_.get('inner', [])):
                            end = j_
                            break
                    if end is None:
                        raise ExtractionError(f'{contract.name}: slice end marker "{contract.slice_until}" not found')
                    stmts = stmts[:end]
            # everything declared before the range is an input of the slice
            declared_before = {}
            for s_ in stmts_all[:start]:
                for n_ in _walk(s_):
                    if n_.get('kind') == 'VarDecl':
                        declared_before[n_['id']] = n_
            used = set()
            for s_ in stmts:
                for n_ in _walk(s_):
                    if n_.get('kind') == 'DeclRefExpr' and n_.get('referencedDecl', {}).get('id') in declared_before:
                        used.add(n_['referencedDecl']['id'])
            for vid in sorted(used):
                d_ = declared_before[vid]
                nm_, v_ = bind_param(ex, st, d_, 0)
                ex.args0[nm_] = v_
            info['slice'] = {'from': getattr(contract, 'slice_from', None) or str(contract.slice_stmt), 'statements': len(stmts), 'inputs': sorted(declared_before[v]['name'] for v in used)}
            setup_slice = getattr(contract, 'slice_setup', None)
            if setup_slice:
                setup_slice(ex, st)
            ex.entry = st.copy()
            outs = ex.seq(stmts, st, scope=False)
        elif getattr(contract, 'slice_targets', None):
            stmts, picked = backward_slice(body(fn), contract)
            info['slice'] = picked
            for vid, nm in contract._ext_ids.items():
                st.names[vid] = nm
                st.env[vid] = ObjRef(nm, contract.slice_externals[nm])
            setup_slice = getattr(contract, 'slice_setup', None)
            if setup_slice:
                setup_slice(ex, st)
            outs = ex.seq(stmts, st, scope=False)
        else:
            outs = ex.exec(body(fn), st)
        nposts = 0
        for (s, flow) in outs:
            if flow is not None and flow[0] == 'throw':
                continue        # abnormal exit: no postcondition, frame already checked at the writes
            if flow is not None and flow[0] != 'ret':
                raise ExtractionError(f'{contract.name}: stray {flow[0]}')
            ret = flow[1] if flow else None
            cx = Ctx(ex, s, entry, args, ret=ret)
            if bounded and hasattr(contract, 'bounded_defs'):
                for f_ in contract.bounded_defs(cx, bounded):
                    s.assume(f_)        # unfolding instances of the finite-sum definitions (conservative)
            posts = list(contract.ensures(cx))
            if bounded:
                # the finite-sum spec functions are uninterpreted for the solver; with every loop unrolled the code's sums are
                # explicit, so the definitions are instantiated at the concrete lengths 0..bounded+1 for every sum term the
                # postconditions or the path mention (instances of the definition: conservative)
                for f_ in models.bounded_sum_unfoldings([f for _, _, f in posts] + list(s.pc), bounded + 1):
                    s.assume(f_)
            for lab, tags, f in posts:
                ex.oblig(s, f'post.{lab}', f, 'postcondition', tags)
                nposts += 1
            if contract.canary:
                o_before = len(ex.obls)
                ex.oblig(s, 'canary', z3.BoolVal(False), 'canary', set())
        exs.append(ex)
    info['extract_s'] = round(time.time() - t0, 2)
    return exs, info


def store_field(ex, st, obj, name, tnode, v):
    """member initialiser: this->name = v"""
    path = f'{obj}.{name}'
    ct = parse_type(tnode)
    ex.logw(('s', path))
    if ct.kind in ('int', 'float'):
        if isinstance(v, BoolV):
            v = ex.coerce(v, ct)
        if ct.kind == 'float' and isinstance(v, IntV):
            v = RealV(z3.ToReal(v.t), ct)
        if ct.kind == 'int' and isinstance(v, IntV):
            v = IntV(v.t, ct)
        st.scal[path] = v
        return
    if ct.kind == 'ptr' and isinstance(v, PtrV):
        if v.region and v.region.startswith('new:'):
            adopt_region(st, v.region, path)
            v = PtrV(path, v.off, ct)
        st.scal[path] = v
        return
    if isinstance(v, ObjRef):
        k = class_kind(ct.name) if ct.kind == 'class' else 'ptr'
        if k == 'map':
            models.copy_scale_table(ex, st, path, v.name)
            return
        if k == 'queue':
            hp = v.name + '.head'
            if hp in st.scal:
                st.scal[path + '.head'] = st.scal[hp]
        if k in ('vector', 'marray', 'queue'):
            # by-value copy of a container into the member
            if k in ('vector', 'queue'):
                for lf, lct in models.container_leaves(v.cls):
                    st.array(v.name, lf, lct)      # materialise the source contents that are being copied
            for key in list(st.arr):
                if key[0] == v.name:
                    st.arr[(path, key[1])] = st.arr[key]
            st.length[path] = st.len_of(v.name)
            if v.name in st.dims:
                st.dims[path] = st.dims[v.name]
            return
        st.scal[path] = v
        return
    if isinstance(v, Opaque) and v.what.startswith('empty:') and ct.kind == 'class' and class_kind(ct.name) in ('vector', 'queue'):
        st.length[path] = I(0)
        return
    if isinstance(v, (Opaque, StructV)) or v is None:
        st.scal[path] = v
        return
    raise ExtractionError(f'member initialiser {path} = {v}')


def adopt_region(st, old, new):
    for key in list(st.arr):
        if key[0] == old:
            st.arr[(new, key[1])] = st.arr.pop(key)
    if old in st.length:
        st.length[new] = st.length.pop(old)
    # every other pointer into the region (a local that received the allocation first, a second member aliasing it) keeps
    # pointing to the same memory under its new name
    for tab in (st.env, st.scal):
        for k_, v_ in list(tab.items()):
            if isinstance(v_, PtrV) and v_.region == old:
                tab[k_] = PtrV(new, v_.off, v_.ct, getattr(v_, 'path', None))


def run_inits(ex, st, inits, contract):
    for ini in inits:
        e = ini['inner'][0] if ini.get('inner') else None
        if 'baseInit' in ini or 'delegatingInit' in ini:
            bt = strip_quals((ini.get('baseInit') or ini.get('delegatingInit'))['qualType'])
            ce = e
            while ce['kind'] in ('ExprWithCleanups', 'CXXBindTemporaryExpr', 'MaterializeTemporaryExpr'):
                ce = ce['inner'][0]
            if ce['kind'] != 'CXXConstructExpr':
                raise ExtractionError(f'{contract.name}: base initialiser is {ce["kind"]}')
            nargs = len(ce.get('inner', []))
            use = (contract.calls or {}).get(f'ctor:{bt}/{nargs}') or (contract.calls or {}).get('ctor:' + bt)
            if use is None:
                raise ExtractionError(f'{contract.name}: no contract for base constructor {bt}')
            # overload actually chosen by clang: number and types of parameters of the constructor
            use.ctor_type = ce.get('type', {}).get('qualType')
            use(ex, ce, st, None, ce.get('inner', []), this_override='this')
        elif 'anyInit' in ini:
            m = ini['anyInit']
            hook = getattr(contract, 'init_' + m['name'], None)
            if hook is not None:
                hook(ex, st, e)
                continue
            ex.pending_name = m['name']
            try:
                ct = parse_type(m['type'])
                if e['kind'] in ('ExprWithCleanups',):
                    e = e['inner'][0]
                if ct.kind == 'class' and not pod_of(ct.name) and e.get('kind') != 'CXXConstructExpr':
                    v = ex.ev_obj(e, st)
                else:
                    v = ex.ev(e, st)
            finally:
                ex.pending_name = None
            store_field(ex, st, 'this', m['name'], m['type'], v)
        else:
            raise ExtractionError(f'{contract.name}: unknown initialiser form')


def _walk(n):
    if isinstance(n, dict):
        yield n
        for c in n.get('inner', []) or []:
            yield from _walk(c)


def _root_var(e):
    """declaration id of the variable an lvalue expression is rooted in"""
    while isinstance(e, dict):
        k = e.get('kind')
        if k == 'DeclRefExpr':
            rd = e.get('referencedDecl', {})
            return rd.get('id') if rd.get('kind') in ('VarDecl', 'ParmVarDecl') else None
        if k in ('MemberExpr', 'ArraySubscriptExpr', 'ImplicitCastExpr', 'ParenExpr', 'CXXOperatorCallExpr', 'UnaryOperator',
                 'CXXMemberCallExpr', 'MaterializeTemporaryExpr', 'CXXStaticCastExpr'):
            inner = e.get('inner', [])
            if not inner:
                return None
            # operator calls: first inner is the callee, the object is the second
            e = inner[1] if k == 'CXXOperatorCallExpr' and len(inner) > 1 else inner[0]
            continue
        return None
    return None


MUTATORS = ('push_back', 'emplace_back', 'pop_back', 'resize', 'clear', 'swap', 'reset', 'assign', 'emplace', 'push', 'pop')


def stmt_defs_uses(s):
    defs, uses = set(), set()
    for n in _walk(s):
        k = n.get('kind')
        if k == 'VarDecl':
            defs.add(n['id'])
        elif k == 'DeclRefExpr':
            rd = n.get('referencedDecl', {})
            if rd.get('kind') in ('VarDecl', 'ParmVarDecl'):
                uses.add(rd['id'])
        elif k in ('BinaryOperator', 'CompoundAssignOperator') and (n.get('opcode', '').endswith('=') and n.get('opcode') not in ('==', '!=', '<=', '>=')):
            r = _root_var(n['inner'][0])
            if r:
                defs.add(r)
        elif k == 'UnaryOperator' and n.get('opcode') in ('++', '--'):
            r = _root_var(n['inner'][0])
            if r:
                defs.add(r)
        elif k == 'CXXMemberCallExpr':
            me = n['inner'][0]
            if me.get('kind') == 'MemberExpr' and me.get('name') in MUTATORS:
                r = _root_var(me['inner'][0])
                if r:
                    defs.add(r)
        elif k == 'CallExpr':
            # std::transform(first,last,out,...) and friends write through their output iterator
            c = n['inner'][0]
            while c.get('kind') in ('ImplicitCastExpr',):
                c = c['inner'][0]
            if c.get('referencedDecl', {}).get('name') in ('transform', 'copy', 'copy_n', 'fill', 'fill_n'):
                for a in n['inner'][1:]:
                    r = _root_var(a)
                    if r:
                        defs.add(r)
    return defs, uses


def backward_slice(bodyn, contract):
    """statement-level backward slice of a function body for the variables named in
    contract.slice_targets, up to (not including) the statement declaring contract.slice_stop"""
    stmts = bodyn.get('inner', [])
    names = {}
    for s_ in stmts:
        for n in _walk(s_):
            if n.get('kind') == 'VarDecl':
                names[n['id']] = n.get('name')
    end = len(stmts)
    stop = getattr(contract, 'slice_stop', None)
    if stop:
        for i, s_ in enumerate(stmts):
            if s_.get('kind') == 'DeclStmt' and any(c.get('name') == stop for c in s_.get('inner', [])):
                end = i
                break
        else:
            raise ExtractionError(f'{contract.name}: slice end marker "{stop}" not found')
    want = set(contract.slice_targets)
    needed = set(i for i, nm in names.items() if nm in want)
    missing = want - set(names[i] for i in needed)
    if missing:
        raise ExtractionError(f'{contract.name}: slice targets not found (renamed?): {sorted(missing)}')
    keep = []
    ext = getattr(contract, 'slice_externals', {})
    contract._ext_ids = {i: nm for i, nm in names.items() if nm in ext}
    for i in range(end - 1, -1, -1):
        d, u = stmt_defs_uses(stmts[i])
        if stmts[i].get('kind') == 'DeclStmt' and any(c.get('name') in ext for c in stmts[i].get('inner', [])):
            continue
        if d & needed:
            keep.append(i)
            needed |= u
    keep.reverse()
    picked = []
    for i in keep:
        d, u = stmt_defs_uses(stmts[i])
        picked.append({'kind': stmts[i].get('kind'), 'defines': sorted(set(names.get(x, '?') for x in d))[:6]})
    return [stmts[i] for i in keep], picked


def normalise_target(t):
    return tuple(t)


class Use:
    """call-site use of a contract: assert pre, havoc frame, assume post (for chosen ghost instances)"""

    def __init__(self, contract, inst=None, tags=None):
        self.c, self.inst, self.tags = contract, inst, tags

    def __call__(self, ex, n, st, objn, argn, this_override=None):
        c = self.c
        this = this_override
        if objn is not None:
            o = ex.ev_obj(objn, st)
            if not isinstance(o, ObjRef):
                raise ExtractionError(f'call of {c.name}: receiver {o}')
            this = o.name
        vals = []
        for ai, a in enumerate(argn):
            if a.get('kind') == 'CXXDefaultArgExpr' and not a.get('inner'):
                at = (a.get('type', {}).get('desugaredQualType') or a.get('type', {}).get('qualType', ''))
                if 'nullptr_t' in at or a.get('type', {}).get('qualType') == 'oclhptr_t':
                    vals.append(PtrV(None, I(0), parse_type(a['type'])))      # defaulted OpenCL handle: nullptr in this build
                    continue
                pd = getattr(c, 'param_defaults', {})
                pname = c.params[len(vals)] if len(vals) < len(c.params) else None
                if pname in pd:
                    vals.append(pd[pname]())        # default stated by the contract (constructor calls carry no callee node to look it up)
                    continue
                vals.append(default_arg(ex, n, st, ai))
                continue
            ct = parse_type(a['type'])
            if a.get('valueCategory') == 'lvalue' and ct.kind == 'class':
                vals.append(ex.ev_obj(a, st))
            elif a.get('valueCategory') == 'lvalue' and getattr(c, 'ref_params', None) and len(vals) < len(c.params) and c.params[len(vals)] in c.ref_params:
                vals.append(ex.lv(a, st))
            else:
                vals.append(ex.ev(a, st))
        if this and this != 'this':
            # caller objects literally named this... must not be confused with the callee's `this`
            vals = [ObjRef('=' + v.name, v.cls, v.null) if isinstance(v, ObjRef) and (v.name == 'this' or v.name.startswith('this.')) else v for v in vals]
        args = dict(zip(c.params, vals))
        tags = self.tags if self.tags is not None else ex.default_tags
        pre = st.copy()
        saved_g = ex.ghosts
        cx = Ctx(ex, st, pre, args, this=this or 'this')
        c.setup(cx)
        # preconditions do not mention ghosts of the callee
        for lab, f in c.requires(cx):
            if isinstance(f, ElemInv):
                region = f.region.replace('this', this or 'this', 1) if f.region.startswith('this') else f.region
                ct_ = parse_type_str('float' if f.kind == 'real' else 'unsigned int')
                k_ = State.fresh('k!pre', z3.IntSort())
                sel_ = z3.Select(st.array(region, f.leaf, ct_), k_)
                ex.apply_elem_inv(st, region, f.leaf, k_, sel_)     # the caller's own element invariant, if any
                f = f.fn(cx, k_, sel_)
            ex.oblig(st, f'pre.{c.short()}.{lab}.L{ex.curline}', f, 'precondition', tags)
        # havoc frame
        for t in c.assigns(cx):
            t = normalise_target(t)
            t = (t[0], cx.R(t[1])) + tuple(t[2:])
            if t[0] == 's':
                if t[1] in st.scal:
                    st.scal[t[1]] = ex.havoc_val(st, st.scal[t[1]], t[1])
                ex.logw(('s', t[1]))
                ex.frame_scalar(st, t[1])
            elif t[0] == 'r':
                region = t[1]
                if len(t) == 2 or t[2] is None:
                    st.havoc_region(region)
                    if ex.assigns is not None:
                        ex.frame_range(st, region, I(0), st.len_of(region))
                else:
                    lo, hi = t[2], t[3]
                    if not any(key[0] == region for key in st.arr):
                        # contents never looked at so far: materialise the known leaves so that the frame can be kept
                        for (rg, lf), lct in list(st.leafct.items()):
                            if rg == region:
                                st.array(region, lf, lct)
                    if not any(key[0] == region for key in st.arr):
                        st.havoc_region(region)        # over-approximation: nothing known about its leaves yet
                    for key in list(st.arr):
                        if key[0] == region:
                            a = st.arr[key]
                            fresh = State.fresh(region, a.sort())
                            k = z3.Int('k!frame')
                            st.arr[key] = z3.Lambda([k], z3.If(z3.And(k >= lo, k < hi), z3.Select(fresh, k), z3.Select(a, k)))
                    ex.frame_range(st, region, lo, hi)
                ex.logw(('r', region))
            elif t[0] == 'len':
                st.length[t[1]] = State.fresh(f'len({t[1]})', z3.IntSort())
                st.assume(st.length[t[1]] >= 0)
                ex.logw(('len', t[1]))
        if hasattr(c, 'effect'):
            c.effect(Ctx(ex, st, pre, args, this=this or 'this'))
        rres = c.result(Ctx(ex, st, pre, args, this=this or 'this'))
        insts = self.inst(Ctx(ex, st, pre, args, this=this or 'this')) if self.inst else [None]
        for inst in insts:
            if inst is None:
                ex.ghosts = {g: State.fresh('ghost:' + g, z3.IntSort() if s == 'int' else z3.RealSort()) for g, s in c.ghosts.items()} if c.ghosts else {}
                if c.ghosts:
                    # no instance requested: posts over ghosts are skipped (nothing can be assumed usefully)
                    pass
            else:
                ex.ghosts = inst
            cxp = Ctx(ex, st, pre, args, this=this or 'this', ret=rres)
            for lab, tg, f in c.ensures(cxp):
                if z3.is_false(f):
                    raise ExtractionError(f'{ex.unit}: contract {c.short()} post "{lab}" is literally false at a call site (spec error)')
                st.assume(f)
        ex.ghosts = saved_g
        return rres if rres is not None else VoidV()


def default_arg(ex, n, st, ai):
    """value of the ai-th parameter's default argument, from the callee's declaration"""
    did = None
    c = n['inner'][0] if n.get('inner') else None
    while c is not None and c.get('kind') in ('ImplicitCastExpr', 'ParenExpr'):
        c = c['inner'][0]
    if c is not None and c.get('kind') == 'MemberExpr':
        did = c.get('referencedMemberDecl')
    elif c is not None and c.get('kind') == 'DeclRefExpr':
        did = c['referencedDecl']['id']
    d = ex.tu.byid.get(did)
    if d is None:
        raise ExtractionError(f'{ex.unit}: default argument of unknown callee (line {ex.curline})')
    ps = params(d)
    p = ps[ai]
    e = [x for x in p.get('inner', []) if x.get('kind') and not x['kind'].endswith(('Attr', 'Comment', 'Decl'))]
    if not e:
        prev = ex.tu.byid.get(d.get('previousDecl'))
        if prev:
            p = params(prev)[ai]
            e = [x for x in p.get('inner', []) if x.get('kind') and not x['kind'].endswith(('Attr', 'Comment', 'Decl'))]
    if not e:
        raise ExtractionError(f'{ex.unit}: no default argument expression found (line {ex.curline})')
    return ex.ev(e[0], st)


class TUCache:
    def __init__(self, scratch):
        self.scratch, self.cache = scratch, {}

    def get(self, rel, filt='vfps::'):
        if (rel, filt) not in self.cache:
            self.cache[(rel, filt)] = TU(rel, self.scratch, filt)
        return self.cache[(rel, filt)]
