"""Symbolic program state: locals, object scalars, array regions; obligations."""
import z3
from .types import *
from .ast import ExtractionError

POD = {
    # leaf name -> clang type string
    'hi': {'index': 'unsigned int', 'weight': 'float'},
    'Position': {'x': 'float', 'y': 'float'},
    'complex': {'re': 'float', 'im': 'float'},
}


def pod_of(clsname):
    s = strip_quals(clsname)
    if s.endswith('::hi') or s == 'hi':
        return 'hi'
    if s.endswith('Position'):
        return 'Position'
    if s.startswith('std::complex<') or s.endswith('impedance_t') or s in ('fftwf_complex', 'vfps::fft::complex', 'fft::complex', 'fftw_complex'):
        return 'complex'
    if s.startswith('std::array<float, 2>') or s.startswith('std::array<vfps::meshaxis_t, 2>'):
        return 'arr2'
    return None


POD['arr2'] = {'0': 'float', '1': 'float'}


def sort_of(ct):
    if ct.kind == 'float':
        return z3.RealSort()
    return z3.IntSort()


def strip_unused_recfuns(txt):
    """z3 prints every recursive definition of the context; drop those the problem does not use
    (their mere presence changes the solver's strategy)"""
    out = txt
    pos = 0
    while True:
        a = out.find('(define-funs-rec', pos)
        if a < 0:
            break
        # find matching close paren
        depth, i = 0, a
        while i < len(out):
            if out[i] == '(':
                depth += 1
            elif out[i] == ')':
                depth -= 1
                if depth == 0:
                    break
            i += 1
        block = out[a:i + 1]
        import re
        m = re.match(r'\(define-funs-rec \( \( (\S+)', block)
        name = m.group(1) if m else None
        rest = out[:a] + out[i + 1:]
        if name and name not in rest:
            out = rest
            pos = a
        else:
            pos = i + 1
    return out


class Obligation:
    def __init__(self, name, tags, pc, goal, kind, line=None, note=''):
        self.name, self.tags, self.pc, self.goal, self.kind = name, set(tags), list(pc), goal, kind
        self.line, self.note = line, note
        self.result = None      # 'proved' | 'refuted' | 'unknown'
        self.model = None
        self.seconds = 0.0
        self.solver = ''
        self.ideal = False      # involves real arithmetic standing for floats

    def smt2(self):
        s = z3.Solver()
        for a in self.pc:
            s.add(a)
        s.add(z3.Not(self.goal))
        txt = s.to_smt2()
        return strip_unused_recfuns(txt)


class State:
    _fresh = [0]

    def __init__(self):
        self.env = {}        # decl id -> Val
        self.names = {}      # decl id -> source name
        self.scal = {}       # path -> Val
        self.arr = {}        # (region, leaf) -> z3 Array
        self.leafct = {}     # (region, leaf) -> CType
        self.length = {}     # region -> z3 Int
        self.dims = {}       # region -> [z3 Int]
        self.pc = []
        self.dead = False
        self.ver = {}        # region -> havoc generation (arrays materialised later get a fresh name)

    def copy(self):
        s = State()
        s.env = dict(self.env)
        s.names = self.names          # shared, append-only
        s.scal = dict(self.scal)
        s.arr = dict(self.arr)
        s.leafct = self.leafct        # shared, append-only
        s.length = dict(self.length)
        s.dims = dict(self.dims)
        s.pc = list(self.pc)
        s.ver = dict(self.ver)
        return s

    @classmethod
    def fresh(cls, base, sort):
        cls._fresh[0] += 1
        return z3.Const(f'{base}!{cls._fresh[0]}', sort)

    def assume(self, f):
        self.pc.append(f)

    # ---- arrays
    def array(self, region, leaf, ct):
        key = (region, leaf)
        if key not in self.arr:
            nm = f'{region}${leaf}' if leaf else region
            v = self.ver.get(region, 0)
            if v:
                nm += f'@{v}'
            self.arr[key] = z3.Const(nm, z3.ArraySort(z3.IntSort(), sort_of(ct)))
            self.leafct[key] = ct
        return self.arr[key]

    def len_of(self, region):
        if region not in self.length:
            self.length[region] = z3.Int(f'len({region})')
            self.pc.append(self.length[region] >= 0)
        return self.length[region]

    def havoc_region(self, region):
        State._fresh[0] += 1
        self.ver[region] = State._fresh[0]
        for key in list(self.arr):
            if key[0] == region:
                del self.arr[key]


def range_fact(t, ct):
    if ct.kind == 'int':
        return z3.And(t >= ct.lo, t <= ct.hi)
    return z3.BoolVal(True)


def merge_val(c, a, b):
    """ite(c,a,b) on values; None if not mergeable"""
    if a is b:
        return a
    if isinstance(a, IntV) and isinstance(b, IntV):
        return IntV(z3.If(c, a.t, b.t), a.ct) if not a.t.eq(b.t) else a
    if isinstance(a, RealV) and isinstance(b, RealV):
        return RealV(z3.If(c, a.t, b.t), a.ct) if not a.t.eq(b.t) else a
    if isinstance(a, BoolV) and isinstance(b, BoolV):
        return BoolV(z3.If(c, a.t, b.t))
    if isinstance(a, PtrV) and isinstance(b, PtrV) and a.region == b.region and a.path == b.path:
        return PtrV(a.region, z3.If(c, a.off, b.off) if not a.off.eq(b.off) else a.off, a.ct, a.path)
    if isinstance(a, StructV) and isinstance(b, StructV) and a.cls == b.cls:
        f = {}
        for k in a.fields:
            m = merge_val(c, a.fields[k], b.fields[k])
            if m is None:
                return None
            f[k] = m
        return StructV(a.cls, f)
    if isinstance(a, ObjRef) and isinstance(b, ObjRef) and a.name == b.name:
        if a.null is None and b.null is None:
            return a
        na = a.null if a.null is not None else z3.BoolVal(False)
        nb = b.null if b.null is not None else z3.BoolVal(False)
        if na.eq(nb):
            return a
        return ObjRef(a.name, a.cls, z3.If(c, na, nb))       # the pointer may have been reset on one branch only
    if isinstance(a, ObjRef) and isinstance(b, ObjRef) and a.name != b.name:
        # a pointer that is null on one path and refers to an object on the other: the name of a null pointer means nothing
        an = a.null is not None and z3.is_true(z3.simplify(a.null))
        bn = b.null is not None and z3.is_true(z3.simplify(b.null))
        if bn and not an:
            na = a.null if a.null is not None else z3.BoolVal(False)
            return ObjRef(a.name, a.cls, z3.If(c, na, z3.BoolVal(True)))
        if an and not bn:
            nb_ = b.null if b.null is not None else z3.BoolVal(False)
            return ObjRef(b.name, b.cls, z3.If(c, z3.BoolVal(True), nb_))
        if an and bn:
            return a
    # a raw pointer that is nullptr on one path and refers to an object on the other
    if isinstance(a, ObjRef) and isinstance(b, PtrV) and b.region is None:
        na = a.null if a.null is not None else z3.BoolVal(False)
        return ObjRef(a.name, a.cls, z3.If(c, na, z3.BoolVal(True)))
    if isinstance(b, ObjRef) and isinstance(a, PtrV) and a.region is None:
        nb_ = b.null if b.null is not None else z3.BoolVal(False)
        return ObjRef(b.name, b.cls, z3.If(c, z3.BoolVal(True), nb_))
    if isinstance(a, (Opaque, VoidV)) and isinstance(b, (Opaque, VoidV)):
        if isinstance(a, Opaque) and isinstance(b, Opaque) and a.what != b.what and (a.what.startswith('string:') or b.what.startswith('string:') or getattr(a, 'choice', None) or getattr(b, 'choice', None)):
            # two different texts: keep both with the condition (a unit may care which text is printed: "Aborted." / "Finished.")
            m = Opaque(a.what)
            m.choice = (c, a, b)
            return m
        return a
    return None


def merge_states(c, s1, s2):
    """state equal to s1 when c holds, s2 otherwise. pc: common prefix kept, rest guarded."""
    if s1 is None or s1.dead:
        if s2 is not None:
            s2 = s2.copy()
        return s2
    if s2 is None or s2.dead:
        return s1.copy()
    s = s1.copy()
    for k in set(s1.env) | set(s2.env):
        if k in s1.env and k in s2.env:
            a_, b_ = s1.env[k], s2.env[k]
            if (a_ is None) != (b_ is None) and isinstance(a_ if a_ is not None else b_, (IntV, RealV, BoolV)):
                # assigned on one path only: keep the value, remember on which path it exists (reads are checked against it)
                fa = s1.scal.get(f'init:{k}')
                fb = s2.scal.get(f'init:{k}')
                ia = z3.BoolVal(False) if a_ is None else (fa.t if fa is not None else z3.BoolVal(True))
                ib = z3.BoolVal(False) if b_ is None else (fb.t if fb is not None else z3.BoolVal(True))
                s.env[k] = a_ if a_ is not None else b_
                s1.scal[f'init:{k}'] = BoolV(ia)
                s2.scal[f'init:{k}'] = BoolV(ib)
                continue
            if a_ is None and b_ is None:
                s.env[k] = None       # declared, assigned on neither path: still indeterminate
                continue
            m = merge_val(c, a_, b_)
            if m is None:
                raise ExtractionError(f'cannot merge local {s1.names.get(k, k)} at join')
            s.env[k] = m
        else:
            s.env.pop(k, None)   # scoped local of one branch
    for k in set(s1.scal) | set(s2.scal):
        a, b = s1.scal.get(k), s2.scal.get(k)
        if (a is None or b is None) and not k.startswith(('ghost.', 'init:')):
            # a field first touched (and possibly assigned) on one path only: on the other path it still has its initial
            # value, i.e. the symbol a lazy read would have created there
            have = a if a is not None else b
            if isinstance(have, IntV) and have.ct is not None:
                init = IntV(z3.Int(k), have.ct)
            elif isinstance(have, RealV):
                init = RealV(z3.Real(k), have.ct)
            else:
                init = None
            if init is not None:
                if a is None:
                    a = init
                else:
                    b = init
        if a is None or b is None:
            s.scal[k] = a if a is not None else b    # ghost bookkeeping / references: set on one path only
            continue
        m = merge_val(c, a, b)
        if m is None:
            raise ExtractionError(f'cannot merge field {k} at join')
        s.scal[k] = m
    for k in set(s1.arr) | set(s2.arr):
        a, b = s1.arr.get(k), s2.arr.get(k)
        if a is None or b is None:
            # the array was first looked at on one path only — and possibly modified there.  The other path still has the
            # contents it had before: materialise its (pristine) symbol instead of silently adopting the modified one
            lct = s1.leafct.get(k) or s2.leafct.get(k)
            if lct is not None:
                if a is None:
                    a = s1.array(k[0], k[1], lct)
                if b is None:
                    b = s2.array(k[0], k[1], lct)
        if a is None or b is None:
            s.arr[k] = a if a is not None else b
        elif not a.eq(b):
            s.arr[k] = z3.If(c, a, b)
        else:
            s.arr[k] = a
    for k in set(s1.length) | set(s2.length):
        a, b = s1.length.get(k), s2.length.get(k)
        if (a is None or b is None) and not k.startswith(('local:', 'tmp:', 'heap:', 'new:', 'ret:', 'ghost.')):
            # length of a caller-visible container first looked at on one path only: the other path has the initial length
            if a is None:
                a = s1.len_of(k)
            else:
                b = s2.len_of(k)
        if a is None or b is None:
            s.length[k] = a if a is not None else b
        elif not a.eq(b):
            s.length[k] = z3.If(c, a, b)
    for k in set(s1.ver) | set(s2.ver):
        if s1.ver.get(k, 0) != s2.ver.get(k, 0):
            # havoced on one side only: materialise both sides' arrays for known leaves, then they merge by ite above
            s.ver[k] = max(s1.ver.get(k, 0), s2.ver.get(k, 0))
    for k in set(s1.dims) | set(s2.dims):
        s.dims[k] = s1.dims.get(k) or s2.dims.get(k)
    # path conditions
    n = 0
    while n < len(s1.pc) and n < len(s2.pc) and s1.pc[n].eq(s2.pc[n]):
        n += 1
    s.pc = list(s1.pc[:n])
    r1 = s1.pc[n:]
    r2 = s2.pc[n:]
    if r1:
        s.pc.append(z3.Implies(c, z3.And(*r1)) if len(r1) > 1 else z3.Implies(c, r1[0]))
    if r2:
        s.pc.append(z3.Implies(z3.Not(c), z3.And(*r2)) if len(r2) > 1 else z3.Implies(z3.Not(c), r2[0]))
    return s
