"""Library models (the enumerated assumed contracts of DESIGN §8.2) and container semantics."""
import z3
from fractions import Fraction
from .types import *
from .state import *
from .ast import ExtractionError

NOMODEL = object()
I = z3.IntVal

GLOBAL_ALIAS = {
    # static const references in PhaseSpace.cpp (checked against the AST by specs/ps.py)
    'vfps::PhaseSpace::nx': 'vfps::PhaseSpace::_nmeshcellsX',
    'vfps::PhaseSpace::ny': 'vfps::PhaseSpace::_nmeshcellsY',
    'vfps::PhaseSpace::nb': 'vfps::PhaseSpace::_nbunches',
    'vfps::PhaseSpace::nxy': 'vfps::PhaseSpace::_nmeshcells',
    'vfps::PhaseSpace::nxyb': 'vfps::PhaseSpace::_totalmeshcells',
}
CONST_GLOBALS = {
    'vfps::physcons::c': Fraction('2.99792458e8'),
    'vfps::physcons::epsilon0': Fraction('8.854187817e-12'),
    'vfps::physcons::e': Fraction('1.602e-19'),
    'vfps::physcons::IAlfven': Fraction(17045),
    'vfps::physcons::me': Fraction('510998.9'),
}
CONST_GLOBALS['vfps::Impedance::Z0'] = Fraction('376.730313461')
CONST_GLOBALS['vfps::Impedance::factor4Ohms'] = Fraction(1)
CONST_GLOBALS['vfps::physcons::Z0'] = 1 / (CONST_GLOBALS['vfps::physcons::epsilon0'] * CONST_GLOBALS['vfps::physcons::c'])
CONST_GLOBALS['vfps::physcons::mu0'] = 1 / (CONST_GLOBALS['vfps::physcons::epsilon0'] * CONST_GLOBALS['vfps::physcons::c'] ** 2)

FLOAT = parse_type_str('float')
DOUBLE = parse_type_str('double')
UINT = parse_type_str('unsigned int')
ULONG = parse_type_str('unsigned long')


def Rv(x):
    if isinstance(x, Fraction):
        return z3.RealVal(x.numerator) / z3.RealVal(x.denominator) if x.denominator != 1 else z3.RealVal(x.numerator)
    return z3.RealVal(x)


FMUL = z3.Function('fmul', z3.RealSort(), z3.RealSort(), z3.RealSort())
FDIV = z3.Function('fdiv', z3.RealSort(), z3.RealSort(), z3.RealSort())      # quotient by a non-constant, for units that abstract division (uf_div)

# uninterpreted transcendental functions (axioms are added by specs that need them)
UF = {}


def uf(name, arity=1):
    if name not in UF:
        UF[name] = z3.Function('fn_' + name, *([z3.RealSort()] * (arity + 1)))
    return UF[name]


def uf_const(name):
    return z3.Real('const:' + name)


def real(v):
    if isinstance(v, IntV):
        return z3.ToReal(v.t)
    if isinstance(v, BoolV):
        return z3.If(v.t, z3.RealVal(1), z3.RealVal(0))
    return v.t


def trunc(t):
    return z3.If(t >= 0, z3.ToInt(t), -z3.ToInt(-t))


def math_call(ex, st, name, args):
    """libm / <cmath> / <algorithm> scalar functions in ideal arithmetic"""
    a = args
    if name in ('min', 'max') and len(a) == 2:
        x, y = a
        if isinstance(x, RealV) or isinstance(y, RealV):
            xt, yt = real(x), real(y)
            # std::min(a,b) = (b<a)?b:a ; std::max(a,b) = (a<b)?b:a
            return RealV(z3.If(yt < xt, yt, xt) if name == 'min' else z3.If(xt < yt, yt, xt), x.ct if isinstance(x, RealV) else y.ct)
        return IntV(z3.If(y.t < x.t, y.t, x.t) if name == 'min' else z3.If(x.t < y.t, y.t, x.t), x.ct)
    if name in ('modf', 'modff'):
        x, p = a
        ip = z3.ToReal(trunc(x.t))
        tgt = getattr(p, 'target', None)
        if tgt is not None:
            ex.store(tgt, RealV(ip, x.ct), st)
        elif isinstance(p, PtrV):
            ex.store(ex_lelem(p, x.ct), RealV(ip, x.ct), st)
        else:
            raise ExtractionError('modf target')
        return RealV(x.t - ip, x.ct)
    if name in ('floor', 'floorf'):
        return RealV(z3.ToReal(z3.ToInt(real(a[0]))), DOUBLE)
    if name in ('ceil', 'ceilf'):
        return RealV(-z3.ToReal(z3.ToInt(-real(a[0]))), DOUBLE)
    if name in ('trunc', 'truncf'):
        return RealV(z3.ToReal(trunc(real(a[0]))), DOUBLE)
    if name in ('round', 'roundf'):
        x = real(a[0])
        return RealV(z3.If(x >= 0, z3.ToReal(z3.ToInt(x + Rv(Fraction(1, 2)))), -z3.ToReal(z3.ToInt(-x + Rv(Fraction(1, 2))))), DOUBLE)
    if name in ('lround', 'lroundf', 'llround', 'llroundf'):
        x = real(a[0])
        r = z3.If(x >= 0, z3.ToInt(x + Rv(Fraction(1, 2))), -z3.ToInt(-x + Rv(Fraction(1, 2))))
        # C11 7.12.9.7: a rounded value outside the range of long gives an unspecified result (domain error), not
        # undefined behaviour — the call returns SOME long
        from .state import State
        u = State.fresh('lround_unspecified', z3.IntSort())
        st.assume(z3.And(u >= -(1 << 63), u < (1 << 63)))
        return IntV(z3.If(z3.And(r >= -(1 << 63), r < (1 << 63)), r, u), parse_type_str('long'))
    if name in ('abs', 'fabs', 'fabsf'):
        if isinstance(a[0], IntV):
            return IntV(z3.If(a[0].t < 0, -a[0].t, a[0].t), a[0].ct)
        if isinstance(a[0], StructV):
            return RealV(uf('sqrt')(a[0].fields['re'].t * a[0].fields['re'].t + a[0].fields['im'].t * a[0].fields['im'].t), FLOAT)
        x = real(a[0])
        return RealV(z3.If(x < 0, -x, x), a[0].ct)
    if name in ('sqrt', 'sqrtf', 'exp', 'expf', 'sin', 'sinf', 'cos', 'cosf', 'tan', 'tanf', 'asin', 'asinf',
                'log', 'logf', 'cbrt', 'atan', 'sinh', 'cosh', 'tanh'):
        base = name.rstrip('f') if name not in ('cbrt',) and name.endswith('f') and name[:-1] in ('sqrt', 'exp', 'sin', 'cos', 'tan', 'asin', 'log') else name
        if isinstance(a[0], StructV):
            raise ExtractionError(f'complex {name}')
        ex.ideal = True
        arg = real(a[0])
        val = uf(base)(arg)
        # libm axioms of DESIGN §8.2, attached to the call
        if base == 'exp':
            st.assume(z3.And(val > 0, z3.Implies(arg <= 0, val <= 1)))
        elif base == 'sqrt':
            st.assume(z3.Implies(arg >= 0, z3.And(val >= 0, val * val == arg)))
        elif base == 'log':
            st.assume(z3.And(z3.Implies(arg > 1, val > 0), z3.Implies(arg == 1, val == 0)))
        return RealV(val, a[0].ct if isinstance(a[0], RealV) else DOUBLE)
    if name in ('airy_ai', 'airy_bi', 'airy_ai_prime', 'airy_bi_prime'):
        ex.ideal = True
        return RealV(uf(name)(real(a[0])), DOUBLE)
    if name in ('pow', 'powf'):
        x, y = real(a[0]), real(a[1])
        ys = z3.simplify(y)
        ex.ideal = True
        if z3.is_rational_value(ys) and ys.denominator_as_long() == 1 and 0 <= ys.numerator_as_long() <= 4:
            k = ys.numerator_as_long()
            r = z3.RealVal(1) if k == 0 else x
            for _ in range(k - 1):
                r = ex.fmul(r, x)       # real product, or the uninterpreted product in units that abstract multiplication
            return RealV(r, DOUBLE)
        val = uf('pow', 2)(x, y)
        # pow(0, negative) is a pole: the result is infinite (and 0 * inf further on is NaN) -- outside ideal arithmetic, so it has
        # to be excluded where it is computed
        ex.safe(st, 'pow-pole', z3.Or(y >= 0, x != 0), 'pow(x, y) with y < 0 needs x != 0 (pole: the result is not a finite number)')
        st.assume(z3.And(z3.Implies(x >= 0, val >= 0), z3.Implies(x > 0, val > 0)))     # libm axioms (DESIGN §8.2)
        return RealV(val, DOUBLE)
    if name == 'sign':
        x = real(a[0])
        return IntV(z3.If(x > 0, I(1), z3.If(x < 0, I(-1), I(0))), parse_type_str('int'))
    if name == 'fpclassify':
        # FP_ZERO = 2, FP_NORMAL = 4 on glibc; subnormal/nan/inf do not exist in ideal arithmetic
        x = real(a[0])
        return IntV(z3.If(x == 0, I(2), I(4)), parse_type_str('int'))
    if name in ('isnan', 'isinf'):
        return BoolV(z3.BoolVal(False))
    if name == 'isfinite':
        return BoolV(z3.BoolVal(True))
    return NOMODEL


def ex_lelem(p, ct):
    from .vcg import LElem
    return LElem(p.region, p.off, '', ct)


def obj_region(o):
    return o.name


class Plan(Opaque):
    """FFTW plan: which transform on which buffers"""

    def __init__(self, kind, n, inp, out):
        Opaque.__init__(self, 'fft-plan')
        self.kind, self.n, self.inp, self.out = kind, n, inp, out


# FFTW contract (A-FFTW-R2C / A-FFTW-C2R): uninterpreted transforms of the input sequence
DFT_RE = z3.Function('DFT_re', z3.ArraySort(z3.IntSort(), z3.RealSort()), z3.IntSort(), z3.IntSort(), z3.IntSort(), z3.RealSort())
DFT_IM = z3.Function('DFT_im', z3.ArraySort(z3.IntSort(), z3.RealSort()), z3.IntSort(), z3.IntSort(), z3.IntSort(), z3.RealSort())
IDFT_H = z3.Function('IDFT_herm', z3.ArraySort(z3.IntSort(), z3.RealSort()), z3.ArraySort(z3.IntSort(), z3.RealSort()), z3.IntSort(), z3.IntSort(), z3.IntSort(), z3.RealSort())


def fft_call(ex, n, st, name, argn):
    if name in ('fft_alloc_real', 'fft_alloc_complex'):
        cnt = ex.ev(argn[0], st)
        ex.newcount += 1
        region = f'new:{ex.pending_name or ex.newcount}'
        st.length[region] = cnt.t
        for key in list(st.arr):
            if key[0] == region:
                del st.arr[key]
        zero = z3.K(z3.IntSort(), z3.RealVal(0))
        if name == 'fft_alloc_real':
            st.arr[(region, '')] = zero
            st.leafct[(region, '')] = FLOAT
        else:
            for lf in ('re', 'im'):
                st.arr[(region, lf)] = zero
                st.leafct[(region, lf)] = FLOAT
        return PtrV(region, I(0), None)
    if name == 'prepareFFT':
        vals = [ex.ev(a, st) for a in argn]
        t_in = strip_quals(argn[1].get('type', {}).get('qualType', ''))
        kind = 'r2c' if ('float' in t_in or 'meshdata_t' in t_in or 'integral_t' in t_in or 'meshaxis_t' in t_in) and 'complex' not in t_in and 'impedance_t' not in t_in else 'c2r'
        if len(vals) != 3:
            raise ExtractionError(f'{ex.unit}: prepareFFT overload with {len(vals)} arguments not modelled')
        return Plan(kind, vals[0].t, vals[1], vals[2])
    if name == 'fft_execute':
        pl = ex.ev(argn[0], st)
        if not isinstance(pl, Plan):
            raise ExtractionError(f'{ex.unit}: fft_execute on an unknown plan (line {ex.curline})')
        nn = pl.n
        for p_ in (pl.inp, pl.out):
            ex.safe(st, 'fft-buffer', z3.And(p_.off == 0, st.len_of(p_.region) >= nn), f'FFT buffer {p_.region} must hold the plan length')
        k = z3.Int('k!fft')
        half = nn / 2
        if pl.kind == 'r2c':
            a = st.array(pl.inp.region, '', FLOAT)
            ore, oim = st.array(pl.out.region, 're', FLOAT), st.array(pl.out.region, 'im', FLOAT)
            st.arr[(pl.out.region, 're')] = z3.Lambda([k], z3.If(z3.And(k >= 0, k <= half), DFT_RE(a, I(0), nn, k), z3.Select(ore, k)))
            st.arr[(pl.out.region, 'im')] = z3.Lambda([k], z3.If(z3.And(k >= 0, k <= half), DFT_IM(a, I(0), nn, k), z3.Select(oim, k)))
            ex.fft_log.append(('r2c', a, None, nn))
        else:
            ire, iim = st.array(pl.inp.region, 're', FLOAT), st.array(pl.inp.region, 'im', FLOAT)
            o = st.array(pl.out.region, '', FLOAT)
            st.arr[(pl.out.region, '')] = z3.Lambda([k], z3.If(z3.And(k >= 0, k < nn), IDFT_H(ire, iim, nn, half, k), z3.Select(o, k)))
            # c2r may destroy its input below n/2 (observed behaviour of the linked FFTW; A-FFTW-C2R)
            fre, fim = State.fresh(pl.inp.region + '$re', ire.sort()), State.fresh(pl.inp.region + '$im', iim.sort())
            st.arr[(pl.inp.region, 're')] = z3.Lambda([k], z3.If(z3.And(k >= 0, k < half), z3.Select(fre, k), z3.Select(ire, k)))
            st.arr[(pl.inp.region, 'im')] = z3.Lambda([k], z3.If(z3.And(k >= 0, k < half), z3.Select(fim, k), z3.Select(iim, k)))
            ex.logw(('r', pl.inp.region))
            ex.fft_log.append(('c2r', ire, iim, nn))
        ex.logw(('r', pl.out.region))
        ex.frame_range(st, pl.out.region, I(0), nn)
        return VoidV()
    return NOMODEL


def call(ex, n, st, q, rd, objn, argn, method, want_lv):
    from .vcg import LElem, LScal, LObj, LVar
    name = rd.get('name') or method
    # ---- free functions (std::)
    if objn is None:
        if q and q.startswith('vfps::') and q not in ('vfps::upper_power_of_two_model',):
            return NOMODEL
        if name in ('transform', 'copy_n', 'fill_n', 'copy', 'fill', 'accumulate', 'inner_product', 'swap', 'move', 'forward',
                    'make_shared', 'make_unique', 'get', 'norm', 'real', 'imag', 'conj', 'exp', 'polar', 'arg', 'swap_ranges'):
            r = algo_call(ex, n, st, name, argn)
            if r is not NOMODEL:
                return r
        if name in ('fft_alloc_real', 'fft_alloc_complex', 'prepareFFT', 'fft_execute'):
            return fft_call(ex, n, st, name, argn)
        if name in ('two_pi', 'pi', 'one_div_root_two_pi', 'pi_sqr') and not argn:
            ex.ideal = True
            PI = uf_const('PI')
            return RealV({'two_pi': 2 * PI, 'pi': PI, 'one_div_root_two_pi': uf_const('ONE_DIV_ROOT_TWO_PI'), 'pi_sqr': PI * PI}[name], DOUBLE)
        args = [ex.ev(a, st) for a in argn]
        r = math_call(ex, st, name, args)
        return r
    # ---- methods on library classes
    ots = objn.get('type', {}).get('desugaredQualType') or objn.get('type', {}).get('qualType', '')
    if name in ('operator*', 'operator+', 'operator-', 'operator/') and len(argn) == 1:
        t2 = argn[0].get('type', {}).get('desugaredQualType') or argn[0].get('type', {}).get('qualType', '')
        if pod_of(ots) == 'complex' or pod_of(t2) == 'complex':
            def cv(nd):
                v = ex.ev_obj(nd, st) if nd.get('valueCategory') == 'lvalue' and pod_of(nd.get('type', {}).get('desugaredQualType') or nd.get('type', {}).get('qualType', '')) else ex.ev(nd, st)
                if isinstance(v, ObjRef):
                    v = ex.load(LObj(v), st)
                return v
            return complex_binop(ex, name[8:], cv(objn), cv(argn[0]))
    if name in ('operator==', 'operator!=') and len(argn) == 1:
        t2 = argn[0].get('type', {}).get('desugaredQualType') or argn[0].get('type', {}).get('qualType', '')
        if pod_of(ots) == 'complex' or pod_of(t2) == 'complex':
            # std::complex comparison: both parts equal (a real operand has imaginary part 0)
            def cv2(nd):
                v = ex.ev_obj(nd, st) if nd.get('valueCategory') == 'lvalue' and pod_of(nd.get('type', {}).get('desugaredQualType') or nd.get('type', {}).get('qualType', '')) else ex.ev(nd, st)
                if isinstance(v, ObjRef):
                    v = ex.load(LObj(v), st)
                return v
            a_, b_ = cv2(objn), cv2(argn[0])
            pr = lambda v: (v.fields['re'].t, v.fields['im'].t) if isinstance(v, StructV) else (real(v), z3.RealVal(0))
            (ar, ai), (br, bi) = pr(a_), pr(b_)
            eq = z3.And(ar == br, ai == bi)
            return BoolV(eq if name == 'operator==' else z3.Not(eq))
    if strip_quals(ots).startswith(('std::normal_distribution', 'std::uniform_real_distribution')) and name == 'operator()':
        # random draw: an unconstrained real (recorded so that posts can name it)
        r = State.fresh('random', z3.RealSort())
        ex.randoms.append(r)
        return RealV(r, FLOAT)
    if strip_quals(ots).endswith('*'):
        ots = strip_quals(ots)[:-1]
        if '::element_type' in ots:
            return NOMODEL
    kind = class_kind(ots)
    if kind == 'class':
        # maybe a repo class: no model
        if pod_of(ots) == 'complex':
            kind = 'complex'
        elif pod_of(ots) == 'arr2':
            kind = 'arr2'
        else:
            return NOMODEL
    if pod_of(ots) == 'arr2':
        kind = 'arr2'
    if kind == 'sptr' or kind == 'uptr':
        o = ex.ev_obj(objn, st)
        if name in ('operator->', 'operator*', 'get'):
            if isinstance(o, ObjRef):
                if kind == 'uptr' and '[]' in o.cls:
                    return PtrV(o.name, I(0), None)
                return ObjRef(o.name, o.cls, o.null)
            return o
        if name == 'operator bool':
            return BoolV(ex.nonnull(o))
        if name == 'operator[]' and kind == 'uptr':
            i = ex.ev(argn[0], st)
            return LElem(o.name, i.t, '', parse_type(n['type']))
        if name == 'reset':
            return VoidV()
        if name in ('operator==', 'operator!=') and argn:
            other = ex.ev(argn[0], st)
            if isinstance(other, PtrV) and other.region is None and isinstance(o, ObjRef):
                isnull = o.null if o.null is not None else z3.BoolVal(False)
                return BoolV(isnull if name == 'operator==' else z3.Not(isnull))
        raise ExtractionError(f'{ex.unit}: smart pointer method {name} not modelled')
    if kind == 'vector':
        o = ex.ev_obj(objn, st)
        region = o.name
        if name == 'size':
            return IntV(st.len_of(region), ULONG)
        if name == 'empty':
            return BoolV(st.len_of(region) == 0)
        if name in ('operator[]', 'at'):
            i = ex.ev(argn[0], st)
            return LElem(region, i.t, '', parse_type(n['type']))
        if name == 'data' or name == 'begin':
            return PtrV(region, I(0), None)
        if name == 'end':
            return PtrV(region, st.len_of(region), None)
        if name == 'front':
            return LElem(region, I(0), '', parse_type(n['type']))
        if name == 'back':
            ex.safe(st, 'back-empty', st.len_of(region) > 0, 'back() of an empty vector is undefined')
            return LElem(region, st.len_of(region) - 1, '', parse_type(n['type']), checked=True)
        if name == 'resize':
            sz = ex.ev(argn[0], st)
            if len(argn) > 1:
                fillv = ex.ev(argn[1], st)
            else:
                fillv = None
            oldlen = st.len_of(region)
            ct = FLOAT
            a = st.array(region, '', ct)
            k = z3.Int('k!resize')
            if isinstance(fillv, StructV):
                for lf, fv in fillv.fields.items():
                    al = st.array(region, lf, FLOAT)
                    st.arr[(region, lf)] = z3.Lambda([k], z3.If(k < oldlen, z3.Select(al, k), real(fv)))
            elif fillv is not None:
                st.arr[(region, '')] = z3.Lambda([k], z3.If(k < oldlen, z3.Select(a, k), real(fillv)))
            st.length[region] = sz.t
            ex.logw(('r', region)); ex.logw(('len', region))
            return VoidV()
        if name == 'clear':
            st.length[region] = I(0)
            ex.logw(('len', region))
            return VoidV()
        if name in ('push_back', 'emplace_back'):
            v = ex.ev(argn[0], st)
            ln = st.len_of(region)
            st.length[region] = ln + 1
            ex.logw(('len', region))
            from .vcg import LElem as LE
            l = LE(region, ln, '', getattr(v, 'ct', FLOAT), checked=True)
            ex.store(l, v, st)
            return VoidV()
        if name == 'pop_back':
            ln = st.len_of(region)
            ex.safe(st, 'pop_back-empty', ln > 0)
            st.length[region] = ln - 1
            ex.logw(('len', region))
            return VoidV()
        if name == 'swap':
            other = ex.ev_obj(argn[0], st)
            swap_regions(ex, st, region, other.name)
            return VoidV()
        if name == 'reserve':
            return VoidV()
        if name == 'operator=':
            # copy (or move) assignment from another vector: length and every leaf array
            other = ex.ev_obj(argn[0], st)
            if not isinstance(other, ObjRef):
                raise ExtractionError(f'{ex.unit}: vector assignment from {other}')
            for lf, lct in container_leaves(o.cls):
                st.array(other.name, lf, lct)
            for key in list(st.arr):
                if key[0] == region:
                    del st.arr[key]
            for key in list(st.arr):
                if key[0] == other.name:
                    st.arr[(region, key[1])] = st.arr[key]
                    st.leafct[(region, key[1])] = st.leafct.get(key, FLOAT)
            st.length[region] = st.len_of(other.name)
            ex.logw(('r', region)); ex.logw(('len', region))
            ex.frame_range(st, region, I(0), st.len_of(region))
            return ObjRef(region, o.cls)
        raise ExtractionError(f'{ex.unit}: std::vector::{name} not modelled')
    if kind == 'stdarray':
        o = ex.ev_obj(objn, st)
        if isinstance(o, ObjRef) and (o.name in st.length or (o.name, '') in st.arr):
            # a numeric std::array held as a region (built from an initialiser list, copied from one, or declared by the spec)
            ect = st.leafct.get((o.name, '')) or parse_type_str('unsigned long long')
            if name in ('operator[]', 'at'):
                i = ex.ev(argn[0], st)
                return LElem(o.name, i.t, '', ect, checked=True)
            if name in ('data', 'begin'):
                return PtrV(o.name, I(0), ect)
            if name == 'end':
                return PtrV(o.name, st.len_of(o.name), ect)
            if name == 'size':
                return IntV(st.len_of(o.name), ULONG)
        if name in ('operator[]', 'at'):
            i = ex.ev(argn[0], st)
            s = z3.simplify(i.t)
            if not z3.is_int_value(s):
                raise ExtractionError(f'{ex.unit}: std::array index must be concrete here (line {ex.curline})')
            ct = parse_type(n['type'])
            path = f'{o.name}[{s.as_long()}]'
            if path in st.scal and isinstance(st.scal[path], ObjRef):
                return st.scal[path]
            if ct.kind in ('int', 'float'):
                if path not in st.scal:
                    ex.new_scalar(st, path, ct)
                return LScal(path, ct)
            return ObjRef(path, ct.name)
        if name == 'size':
            raise ExtractionError('std::array size')
    if kind == 'arr2' and name in ('operator==', 'operator!=') and len(argn) == 1:
        def sv(nd):
            v = ex.ev_obj(nd, st)
            if isinstance(v, ObjRef):
                v = ex.load(LObj(v), st)
            return v
        a_, b_ = sv(objn), sv(argn[0])
        eq = z3.And(*[a_.fields[k_].t == b_.fields[k_].t for k_ in ('0', '1')])
        return BoolV(eq if name == 'operator==' else z3.Not(eq))
    if kind == 'arr2':
        o = ex.ev_obj(objn, st)
        if name == 'operator[]':
            i = z3.simplify(ex.ev(argn[0], st).t)
            if not z3.is_int_value(i):
                raise ExtractionError('array<float,2> symbolic index')
            from .vcg import LSub
            if isinstance(o, StructV):
                l = getattr(o, '_lv', None)
                if l is not None:
                    if isinstance(l, LElem):
                        return LElem(l.region, l.idx, str(i.as_long()), FLOAT, l.checked)
                    return LSub(l, str(i.as_long()))
                return o.fields[str(i.as_long())]
            if isinstance(o, ObjRef):
                p = f'{o.name}.{i.as_long()}'
                if p not in st.scal:
                    ex.new_scalar(st, p, FLOAT)
                return LScal(p, FLOAT)
    if kind == 'marray':
        return marray_call(ex, n, st, name, objn, argn)
    if kind == 'complex':
        o = ex.ev_obj(objn, st)
        if isinstance(o, ObjRef):
            o = ex.load(LObj(o), st)
        if name == 'real':
            return o.fields['re']
        if name == 'imag':
            return o.fields['im']
        if name in ('operator*', 'operator+', 'operator-', 'operator/') and len(argn) == 1:
            rhs = ex.ev(argn[0], st)
            if isinstance(rhs, ObjRef):
                rhs = ex.load(LObj(rhs), st)
            return complex_binop(ex, name[8:], o, rhs)
        if name in ('operator*=', 'operator+=', 'operator-=', 'operator/='):
            rhs = ex.ev(argn[0], st)
            r = complex_binop(ex, name[8:-1], o, rhs)
            l = getattr(o, '_lv', None)
            if l is None:
                raise ExtractionError('complex compound assignment target')
            ex.store(l, r, st)
            return r
    if kind == 'map':
        o = ex.ev_obj(objn, st)
        if name == 'at' or name == 'operator[]':
            key = ex.ev(argn[0], st)
            ks = key.what if isinstance(key, Opaque) else str(key)
            ks = ks.replace('string:', '').strip('"')
            if ks in ('string', ''):
                raise ExtractionError(f'{ex.unit}: map key is not a literal (line {ex.curline})')
            path = f'{o.name}[{ks}]'
            if path not in st.scal:
                ex.new_scalar(st, path, FLOAT)
            return LScal(path, FLOAT)
    if kind == 'string':
        return Opaque('string')
    if kind == 'queue':
        return queue_call(ex, n, st, name, objn, argn)
    return NOMODEL


def swap_regions(ex, st, r1, r2, cls=None):
    keys = set(k[1] for k in st.arr if k[0] in (r1, r2))
    if cls is not None:
        # leaves of the element type that nobody has looked at yet are exchanged as well
        try:
            for lf, lct in container_leaves(cls):
                keys.add(lf)
                st.leafct.setdefault((r1, lf), lct)
        except Exception:
            pass
    for leaf in keys:
        ct = st.leafct.get((r1, leaf)) or st.leafct.get((r2, leaf))
        a, b = st.array(r1, leaf, ct), st.array(r2, leaf, ct)
        st.arr[(r1, leaf)], st.arr[(r2, leaf)] = b, a
    if not keys:
        a, b = st.array(r1, '', FLOAT), st.array(r2, '', FLOAT)
        st.arr[(r1, '')], st.arr[(r2, '')] = b, a
    l1, l2 = st.len_of(r1), st.len_of(r2)
    st.length[r1], st.length[r2] = l2, l1
    for r in (r1, r2):
        ex.logw(('r', r)); ex.logw(('len', r))
        ex.frame_elem_region(st, r) if hasattr(ex, 'frame_elem_region') else None


def marray_dims(ex, st, region):
    if region not in st.dims:
        raise ExtractionError(f'{ex.unit}: extents of multi_array {region} not declared by the spec')
    return st.dims[region]


def marray_call(ex, n, st, name, objn, argn):
    from .vcg import LElem
    o = ex.ev_obj(objn, st)
    if isinstance(o, ObjRef):
        dims = marray_dims(ex, st, o.name)
        o = SubArr(o.name, I(0), dims)
    if not isinstance(o, SubArr):
        raise ExtractionError(f'multi_array receiver {o}')
    if name == 'operator[]':
        i = ex.ev(argn[0], st)
        ex.safe(st, 'marray-index', z3.And(i.t >= 0, i.t < o.dims[0]), f'multi_array index within extent of {o.region}')
        stride = None
        for d in o.dims[1:]:
            stride = d if stride is None else stride * d
        if len(o.dims) == 1:
            return LElem(o.region, o.base + i.t, '', parse_type(n['type']), checked=True)
        return SubArr(o.region, o.base + i.t * stride, o.dims[1:])
    if name in ('data', 'origin', 'begin'):
        if name == 'begin' and len(o.dims) != 1:
            raise ExtractionError('multi_array::begin on multi-dimensional view')
        return PtrV(o.region, o.base, None)
    if name == 'end':
        if len(o.dims) != 1:
            raise ExtractionError('multi_array::end on multi-dimensional view')
        return PtrV(o.region, o.base + o.dims[0], None)
    if name == 'size':
        return IntV(o.dims[0], ULONG)
    if name == 'num_elements':
        t = None
        for d in o.dims:
            t = d if t is None else t * d
        return IntV(t, ULONG)
    if name == 'operator=':
        src = ex.ev_obj(argn[0], st)
        if isinstance(src, ObjRef):
            src = SubArr(src.name, I(0), marray_dims(ex, st, src.name))
        # boost asserts equal shapes; element-wise copy
        tot = None
        for d in o.dims:
            tot = d if tot is None else tot * d
        copy_range(ex, st, PtrV(src.region, src.base), PtrV(o.region, o.base), tot)
        return o
    raise ExtractionError(f'{ex.unit}: multi_array::{name} not modelled')


def copy_range(ex, st, src, dst, count, leaf='', ct=FLOAT):
    """dst[0..count) = src[0..count) with bounds obligations on both ranges"""
    if src.region is None or dst.region is None:
        ex.safe(st, 'nullderef', count == 0)
        return
    sl, dl = st.len_of(src.region), st.len_of(dst.region)
    ex.safe(st, 'copy-src-range', z3.Or(count <= 0, z3.And(src.off >= 0, src.off + count <= sl)), f'copy source range in {src.region}')
    ex.safe(st, 'copy-dst-range', z3.Or(count <= 0, z3.And(dst.off >= 0, dst.off + count <= dl)), f'copy destination range in {dst.region}')
    leaves = [k[1] for k in st.arr if k[0] == src.region] or [leaf]
    for lf in set(leaves):
        lct = st.leafct.get((src.region, lf), ct)
        a = st.array(src.region, lf, lct)
        d = st.array(dst.region, lf, lct)
        k = z3.Int('k!copy')
        st.arr[(dst.region, lf)] = z3.Lambda([k], z3.If(z3.And(k >= dst.off, k < dst.off + count),
                                                         z3.Select(a, k - dst.off + src.off), z3.Select(d, k)))
    ex.logw(('r', dst.region))
    from .vcg import LElem
    ex.frame_range(st, dst.region, dst.off, dst.off + count)


def fill_range(ex, st, dst, count, val, leaf='', ct=FLOAT):
    dl = st.len_of(dst.region)
    ex.safe(st, 'fill-range', z3.Or(count <= 0, z3.And(dst.off >= 0, dst.off + count <= dl)), f'fill range in {dst.region}')
    d = st.array(dst.region, leaf, ct)
    k = z3.Int('k!fill')
    st.arr[(dst.region, leaf)] = z3.Lambda([k], z3.If(z3.And(k >= dst.off, k < dst.off + count), val, z3.Select(d, k)))
    ex.logw(('r', dst.region))
    ex.frame_range(st, dst.region, dst.off, dst.off + count)


# ---- finite sums as spec functions.  They are uninterpreted symbols for the solver; their recursive
# definitions enter only through explicit unfolding instances (unfold_* below), which are instances
# of the definition and therefore conservative.
_A = z3.ArraySort(z3.IntSort(), z3.RealSort())
_SUMPROD = z3.Function('SUMPROD', _A, z3.IntSort(), _A, z3.IntSort(), z3.IntSort(), z3.RealSort())
_SUMARR = z3.Function('SUMARR', _A, z3.IntSort(), z3.IntSort(), z3.RealSort())
_SUMSTRIDE = z3.Function('SUMSTRIDE', _A, z3.IntSort(), z3.IntSort(), _A, z3.IntSort(), z3.RealSort())
_SUMVAR = z3.Function('SUMVAR', _A, z3.IntSort(), _A, z3.IntSort(), z3.RealSort(), z3.IntSort(), z3.RealSort())


def sumprod():
    """SUMPROD(a,ao,b,bo,n) = sum_{k<n} a[ao+k]*b[bo+k]"""
    return _SUMPROD


def sumarr():
    """SUMARR(a,ao,n) = sum_{k<n} a[ao+k]"""
    return _SUMARR


_SUMSCALED = z3.Function('SUMSCALED', _A, z3.IntSort(), z3.RealSort(), z3.IntSort(), z3.RealSort())


def unfold_sumscaled(a, ao, c, n):
    """SUMSCALED(a,ao,c,n) = sum_{k<n} c*a[ao+k]"""
    return z3.And(_SUMSCALED(a, ao, c, z3.IntVal(0)) == 0,
                  z3.Implies(n >= 0, _SUMSCALED(a, ao, c, n + 1) == _SUMSCALED(a, ao, c, n) + FMUL(c, z3.Select(a, ao + n))))


def sumscaled_frame(a_old, a_new, ao, c, n, widx):
    """a finite sum only depends on the summed cells: if a_new differs from a_old only at index widx and widx
    is outside [ao, ao+n) the sums agree (instance of extensionality of the recursive definition)"""
    return z3.Implies(z3.And(a_new == z3.Store(a_old, widx, z3.Select(a_new, widx)), z3.Or(widx < ao, widx >= ao + n)),
                      _SUMSCALED(a_new, ao, c, n) == _SUMSCALED(a_old, ao, c, n))


def recfun(name):
    """SUMSTRIDE(a,base,stride,b,n) = sum_{k<n} a[base+k*stride]*b[k];
    SUMVAR(a,ao,b,bo,m,n) = sum_{k<n} a[ao+k]*(b[bo+k]-m)^2"""
    return {'SUMSTRIDE': _SUMSTRIDE, 'SUMVAR': _SUMVAR, 'SUMSCALED': _SUMSCALED}[name]


def unfold_sumprod(a, ao, b, bo, n):
    return z3.And(_SUMPROD(a, ao, b, bo, z3.IntVal(0)) == 0,
                  z3.Implies(n >= 0, _SUMPROD(a, ao, b, bo, n + 1) == _SUMPROD(a, ao, b, bo, n) + z3.Select(a, ao + n) * z3.Select(b, bo + n)))


def unfold_sumarr(a, ao, n):
    return z3.And(_SUMARR(a, ao, z3.IntVal(0)) == 0,
                  z3.Implies(n >= 0, _SUMARR(a, ao, n + 1) == _SUMARR(a, ao, n) + z3.Select(a, ao + n)))


def unfold_sumstride(a, base, stride, b, n):
    return z3.And(_SUMSTRIDE(a, base, stride, b, z3.IntVal(0)) == 0,
                  z3.Implies(n >= 0, _SUMSTRIDE(a, base, stride, b, n + 1) == _SUMSTRIDE(a, base, stride, b, n) + z3.Select(a, base + n * stride) * z3.Select(b, n)))


def unfold_sumvar(a, ao, b, bo, m, n):
    d = z3.Select(b, bo + n) - m
    return z3.And(_SUMVAR(a, ao, b, bo, m, z3.IntVal(0)) == 0,
                  z3.Implies(n >= 0, _SUMVAR(a, ao, b, bo, m, n + 1) == _SUMVAR(a, ao, b, bo, m, n) + z3.Select(a, ao + n) * (d * d)))


def bounded_sum_unfoldings(formulas, upto):
    """instances of the recursive definitions of SUMARR/SUMPROD/SUMSTRIDE/SUMVAR/SUMSCALED at lengths 0..upto for every
    application occurring in the formulas (bounded mode only)"""
    seen, apps = set(), []

    def walk(e):
        if e.get_id() in seen:
            return
        seen.add(e.get_id())
        if z3.is_quantifier(e):
            walk(e.body())
            return
        if z3.is_app(e):
            if e.decl().name() in ('SUMARR', 'SUMPROD', 'SUMSTRIDE', 'SUMVAR', 'SUMSCALED') and e.num_args() > 0:
                apps.append(e)
            for ch in e.children():
                walk(ch)
    for f in formulas:
        walk(f)
    out, done = [], set()
    hv_memo = {}
    for e in apps:
        a = e.children()[:-1]
        if any(_has_var(x, hv_memo) for x in a):
            continue
        key = (e.decl().name(),) + tuple(x.get_id() for x in a)
        if key in done:
            continue
        done.add(key)
        un = {'SUMARR': unfold_sumarr, 'SUMPROD': unfold_sumprod, 'SUMSTRIDE': unfold_sumstride, 'SUMVAR': unfold_sumvar,
              'SUMSCALED': unfold_sumscaled}[e.decl().name()]
        for j in range(upto + 1):
            out.append(un(*a, z3.IntVal(j)))
    return out


def _has_var(e, _memo=None):
    """does the term contain a bound variable (inside a quantifier / lambda)?  Memoised on the DAG: the terms are heavily shared"""
    memo = {} if _memo is None else _memo
    stack = [e]
    order = []
    while stack:
        t = stack.pop()
        i = t.get_id()
        if i in memo:
            continue
        if z3.is_var(t) or z3.is_quantifier(t):
            memo[i] = True
            continue
        if not z3.is_app(t):
            memo[i] = False
            continue
        memo[i] = None
        order.append(t)
        stack.extend(t.children())
    for t in reversed(order):
        memo[t.get_id()] = any(memo.get(c.get_id()) for c in t.children())
    return bool(memo.get(e.get_id()))


def algo_call(ex, n, st, name, argn):
    if name == 'transform':
        # unary std::transform over [first,last) into out: element values not modelled (havoc), extent checked
        a, b, dst = [ex.ev(x, st) for x in argn[:3]]
        cnt = b.off - a.off
        ex.safe(st, 'transform-dst-range', z3.Or(cnt <= 0, z3.And(dst.off >= 0, dst.off + cnt <= st.len_of(dst.region))))
        d = st.array(dst.region, '', FLOAT)
        fresh = State.fresh(dst.region, d.sort())
        k = z3.Int('k!tr')
        st.arr[(dst.region, '')] = z3.Lambda([k], z3.If(z3.And(k >= dst.off, k < dst.off + cnt), z3.Select(fresh, k), z3.Select(d, k)))
        ex.logw(('r', dst.region))
        return PtrV(dst.region, dst.off + cnt)
    if name == 'copy_n':
        src, cnt, dst = [ex.ev(a, st) for a in argn]
        if not isinstance(src, PtrV) or not isinstance(dst, PtrV):
            raise ExtractionError('copy_n on non-pointers')
        copy_range(ex, st, src, dst, cnt.t)
        return PtrV(dst.region, dst.off + cnt.t)
    if name == 'copy':
        a, b, dst = [ex.ev(x, st) for x in argn]
        if a.region != b.region:
            raise ExtractionError('copy iterators of different ranges')
        copy_range(ex, st, a, dst, b.off - a.off)
        return PtrV(dst.region, dst.off + (b.off - a.off))
    if name == 'fill_n':
        dst, cnt, val = [ex.ev(a, st) for a in argn]
        fill_range(ex, st, dst, cnt.t, real(val))
        return PtrV(dst.region, dst.off + cnt.t)
    if name == 'fill':
        # std::fill(first, last, value): every element of [first,last) becomes value (member by member for POD structs)
        a, b, val = [ex.ev(x, st) for x in argn]
        if isinstance(val, ObjRef):
            val = ex.load(LObj(val), st) if 'LObj' in globals() else val
        if not (isinstance(a, PtrV) and isinstance(b, PtrV) and a.region == b.region and a.region is not None):
            raise ExtractionError('fill iterators of different ranges')
        cnt = b.off - a.off
        if isinstance(val, StructV):
            for lf, fv in val.fields.items():
                lct = st.leafct.get((a.region, lf)) or getattr(fv, 'ct', FLOAT)
                fill_range(ex, st, a, cnt, real(fv) if lct.kind == 'float' else fv.t, leaf=lf, ct=lct)
        else:
            lct = st.leafct.get((a.region, '')) or getattr(val, 'ct', FLOAT)
            fill_range(ex, st, a, cnt, real(val) if lct.kind == 'float' else val.t, leaf='', ct=lct)
        return VoidV()
    if name == 'inner_product':
        a, b, c, init = [ex.ev(x, st) for x in argn]
        cnt = b.off - a.off
        for p in (a, c):
            ln = st.len_of(p.region)
            ex.safe(st, 'inner_product-range', z3.Or(cnt <= 0, z3.And(p.off >= 0, p.off + cnt <= ln)), f'inner_product range in {p.region}')
        ex.ideal = True
        t = sumprod()(st.array(a.region, '', FLOAT), a.off, st.array(c.region, '', FLOAT), c.off, cnt)
        return RealV(real(init) + t, FLOAT)
    if name == 'accumulate':
        a, b, init = [ex.ev(x, st) for x in argn]
        cnt = b.off - a.off
        ln = st.len_of(a.region)
        ex.safe(st, 'accumulate-range', z3.Or(cnt <= 0, z3.And(a.off >= 0, a.off + cnt <= ln)))
        ex.ideal = True
        return RealV(real(init) + sumarr()(st.array(a.region, '', FLOAT), a.off, cnt), getattr(init, 'ct', FLOAT))
    if name == 'norm':
        v = ex.ev(argn[0], st)
        sq = lambda t_: ex.fmul(t_, t_)
        return RealV(sq(v.fields['re'].t) + sq(v.fields['im'].t), FLOAT)
    if name in ('real', 'imag'):
        v = ex.ev(argn[0], st)
        return v.fields['re' if name == 'real' else 'im']
    if name == 'conj':
        v = ex.ev(argn[0], st)
        return StructV('complex', {'re': v.fields['re'], 'im': RealV(-v.fields['im'].t)})
    if name in ('move', 'forward'):
        a = argn[0]
        return ex.ev_obj(a, st) if a.get('valueCategory') in ('lvalue', 'xvalue') and parse_type(a['type']).kind == 'class' else ex.ev(a, st)
    if name == 'swap_ranges':
        # std::swap_ranges(first1, last1, first2): element-wise exchange of [first1,last1) with [first2, first2+n)
        f1, l1, f2 = [ex.ev(x, st) for x in argn[:3]]
        if not (isinstance(f1, PtrV) and isinstance(l1, PtrV) and isinstance(f2, PtrV) and f1.region == l1.region and f1.region and f2.region):
            raise ExtractionError(f'{ex.unit}: swap_ranges over something that is not two buffers (line {ex.curline})')
        cnt = l1.off - f1.off
        ex.safe(st, 'swap-range-1', z3.Or(cnt <= 0, z3.And(f1.off >= 0, l1.off <= st.len_of(f1.region))), f'first range inside {f1.region}')
        ex.safe(st, 'swap-range-2', z3.Or(cnt <= 0, z3.And(f2.off >= 0, f2.off + cnt <= st.len_of(f2.region))), f'second range inside {f2.region}')
        leaves = set(k_[1] for k_ in st.arr if k_[0] in (f1.region, f2.region)) or {''}
        kk = z3.Int('k!swapr')
        for lf in leaves:
            lct = st.leafct.get((f1.region, lf)) or st.leafct.get((f2.region, lf)) or FLOAT
            a, b = st.array(f1.region, lf, lct), st.array(f2.region, lf, lct)
            st.arr[(f1.region, lf)] = z3.Lambda([kk], z3.If(z3.And(kk >= f1.off, kk < f1.off + cnt), z3.Select(b, kk - f1.off + f2.off), z3.Select(a, kk)))
            st.arr[(f2.region, lf)] = z3.Lambda([kk], z3.If(z3.And(kk >= f2.off, kk < f2.off + cnt), z3.Select(a, kk - f2.off + f1.off), z3.Select(b, kk)))
        for r_, p_ in ((f1.region, f1), (f2.region, f2)):
            ex.logw(('r', r_))
            ex.frame_range(st, r_, p_.off, p_.off + cnt)
        return PtrV(f2.region, f2.off + cnt, f2.ct)
    if name == 'swap':
        if parse_type(argn[0].get('type')).kind in ('int', 'float'):
            la, lb = ex.lv(argn[0], st), ex.lv(argn[1], st)
            va, vb = ex.load(la, st), ex.load(lb, st)
            ex.store(la, vb, st)
            ex.store(lb, va, st)
            return VoidV()
        a, b = [ex.ev_obj(x, st) for x in argn]
        if isinstance(a, ObjRef) and isinstance(b, ObjRef) and class_kind(a.cls) in ('marray', 'vector'):
            swap_regions(ex, st, a.name, b.name, a.cls)
            return VoidV()
        raise ExtractionError(f'std::swap of {a},{b}')
    return NOMODEL


def complex_binop(ex, op, a, b):
    def parts(v):
        if isinstance(v, StructV):
            return v.fields['re'].t, v.fields['im'].t
        return real(v), z3.RealVal(0)
    ar, ai = parts(a)
    br, bi = parts(b)
    ex.ideal = True
    if op == '+':
        r, i = ar + br, ai + bi
    elif op == '-':
        r, i = ar - br, ai - bi
    elif op == '*':
        m = ex.fmul
        r, i = m(ar, br) - m(ai, bi), m(ar, bi) + m(ai, br)
    elif op == '/':
        d = br * br + bi * bi
        r, i = (ar * br + ai * bi) / d, (ai * br - ar * bi) / d
    else:
        raise ExtractionError(f'complex op {op}')
    return StructV('complex', {'re': RealV(r), 'im': RealV(i)})


def bitop(ex, st, op, va, vb, rct):
    a, b = z3.simplify(va.t), z3.simplify(vb.t)
    if op == '<<' and z3.is_int_value(b):
        r = va.t * (1 << b.as_long())
        return IntV(ex.wrap(r, rct) if not rct.signed else r, rct)
    if op == '>>' and z3.is_int_value(b):
        return IntV(va.t / (1 << b.as_long()), rct)
    if op == '&' and (z3.is_int_value(a) or z3.is_int_value(b)):
        c, x = (a.as_long(), vb.t) if z3.is_int_value(a) else (b.as_long(), va.t)
        if z3.is_int_value(a) and z3.is_int_value(b):
            return IntV(I(a.as_long() & b.as_long()), rct)
        full = 1 << rct.bits
        c %= full
        if c & (c + 1) == 0:                      # low mask 2^k-1
            return IntV(x % (c + 1), rct)
        inv = (full - 1) ^ c
        if inv & (inv + 1) == 0 and not rct.signed:   # ~(2^k-1): clear the low k bits
            return IntV(x - x % (inv + 1), rct)
    raise ExtractionError(f'{ex.unit}: bit operation {op} on symbolic operands not modelled')


def _walk_nodes(n):
    if isinstance(n, dict):
        yield n
        for c in n.get('inner', []) or []:
            yield from _walk_nodes(c)


SCALE_KEYS = ('Meter', 'ElectronVolt', 'Hertz')      # every key a unit-scale table is built with or asked for in the repository


def copy_scale_table(ex, st, dst, src):
    """dst (a member path) becomes a copy of the table object src: one scalar per key of the universe"""
    for key in SCALE_KEYS:
        sp = f'{src}[{key}]'
        if sp not in st.scal:
            ex.new_scalar(st, sp, FLOAT)
        st.scal[f'{dst}[{key}]'] = st.scal[sp]
        ex.logw(('s', f'{dst}[{key}]'))


def construct(ex, n, st, ct):
    """CXXConstructExpr of non-POD class types"""
    k = class_kind(ct.name)
    args = n.get('inner', [])
    if k == 'string':
        ex.scan_divisions(n, st)      # the text itself is not modelled, but whatever is computed to build it must be defined (C17)
        if len(args) >= 1 and any(x.get('kind') in ('ConditionalOperator', 'BinaryConditionalOperator') for x in _walk_nodes(n)):
            # a text chosen by a condition: evaluate the choice (Opaque with both texts and the condition), do not pick the first literal
            try:
                v = ex.ev(args[0], st)
            except ExtractionError:
                v = None
            if isinstance(v, Opaque):
                return v
            return Opaque('string')
        lit = find_string_literal(n)
        if lit is not None:
            return Opaque('string:' + lit)
        if len(args) >= 1 and parse_type(args[0].get('type')).kind == 'class':
            v = ex.ev_obj(args[0], st)
            if isinstance(v, Opaque):
                return v
        return Opaque('string')
    if k == 'map':
        # unit-scale tables (std::map<std::string, T> with literal keys): an object with one scalar per key, `<name>[<key>]`.
        # Built from a braced list of {"Key", value} pairs, by copy from another table, or empty.
        pairs = [x for x in _walk_nodes(n) if x.get('kind') == 'CXXConstructExpr' and 'std::pair<' in x.get('type', {}).get('qualType', '') and len(x.get('inner', [])) == 2]
        if len(args) == 1 and not pairs and parse_type(args[0].get('type')).kind == 'class' and class_kind(parse_type(args[0].get('type')).name) == 'map':
            src = ex.ev_obj(args[0], st)
            if isinstance(src, ObjRef):
                return src                                   # copy: same contents, the holder copies key by key (store_field)
            return Opaque('map')
        ex.tmpcount = getattr(ex, 'tmpcount', 0) + 1
        name = f'tmp:map{ex.tmpcount}'
        for pr in pairs:
            key = find_string_literal(pr['inner'][0])
            if key is None:
                raise ExtractionError(f'{ex.unit}: unit-scale table with a non-literal key (line {ex.curline})')
            v = ex.ev(pr['inner'][1], st)
            st.scal[f'{name}[{key}]'] = RealV(real(v), FLOAT)
            st.scal.setdefault(f'{name}.keys', Opaque('keys:'))
            st.scal[f'{name}.keys'] = Opaque(st.scal[f'{name}.keys'].what + key + ',')
        return ObjRef(name, ct.name)
    if '__normal_iterator' in ct.name or 'iterator' in ct.name.split('<')[0]:
        if len(args) == 1:
            return ex.ev(args[0], st)
    if k == 'vector' and args and 'initializer_list' in (args[0].get('type', {}).get('qualType', '')):
        il = find_node(args[0], 'InitListExpr')
        if il is None:
            raise ExtractionError(f'{ex.unit}: vector from initializer_list without a literal list (line {ex.curline})')
        elems = [ex.ev(c, st) for c in il.get('inner', [])]
        region = f'local:{ex.pending_name or "vec"}'
        st.length[region] = I(len(elems))
        for key in list(st.arr):
            if key[0] == region:
                del st.arr[key]
        arr = z3.K(z3.IntSort(), z3.RealVal(0))
        for i_, e_ in enumerate(elems):
            arr = z3.Store(arr, i_, real(e_))
        st.arr[(region, '')] = arr
        st.leafct[(region, '')] = FLOAT
        return ObjRef(region, ct.name)
    if k == 'vector' and len(args) == 3 and parse_type(args[0].get('type')).kind == 'int' and 'allocator' in args[2].get('type', {}).get('qualType', ''):
        # vector(n, value): n copies of value
        nval = ex.ev(args[0], st)
        val = ex.ev(args[1], st)
        region = f'local:{ex.pending_name or "vec"}'
        st.length[region] = nval.t
        for key in list(st.arr):
            if key[0] == region:
                del st.arr[key]
        for lf, lct in container_leaves(ct.name):
            comp = val.fields[lf] if isinstance(val, StructV) else val
            if lf and not isinstance(val, StructV):
                # scalar converted to the element type (complex from real: imaginary part 0)
                comp = val if lf == 're' else RealV(z3.RealVal(0), FLOAT)
            st.arr[(region, lf)] = z3.K(z3.IntSort(), real(comp) if lct.kind == 'float' else comp.t)
            st.leafct[(region, lf)] = lct
        return ObjRef(region, ct.name)
    if k == 'vector' and len(args) == 3 and 'allocator' in args[2].get('type', {}).get('qualType', '') and 'iterator' in (args[0].get('type', {}).get('qualType', '')):
        # vector(first, last): copy of the iterator range
        first, last = ex.ev(args[0], st), ex.ev(args[1], st)
        if not (isinstance(first, PtrV) and isinstance(last, PtrV) and first.region == last.region and first.region is not None):
            raise ExtractionError(f'{ex.unit}: vector(first,last) over something that is not one container (line {ex.curline})')
        cnt = last.off - first.off
        ex.safe(st, 'iterator-range', z3.And(first.off >= 0, cnt >= 0, last.off <= st.len_of(first.region)), 'iterator range inside its container')
        region = f'local:{ex.pending_name or "vec"}'
        st.length[region] = cnt
        for key in list(st.arr):
            if key[0] == region:
                del st.arr[key]
        kk = z3.Int('k!vcopy')
        for lf, lct in container_leaves(ct.name):
            a = st.array(first.region, lf, lct)
            st.arr[(region, lf)] = z3.Lambda([kk], z3.Select(a, kk + first.off))
            st.leafct[(region, lf)] = lct
        return ObjRef(region, ct.name)
    if k == 'vector' and len(args) == 2 and parse_type(args[0].get('type')).kind == 'int':
        # vector(n): n value-initialised elements
        nval = ex.ev(args[0], st)
        ex.safe(st, 'vector-size', nval.t >= 0, 'vector(n) with a negative n converts to a huge size_t (length_error / bad_alloc)')
        region = f'local:{ex.pending_name or "vec"}'
        st.length[region] = nval.t
        for key in list(st.arr):
            if key[0] == region:
                del st.arr[key]
        for lf, lct in container_leaves(ct.name):
            st.arr[(region, lf)] = z3.K(z3.IntSort(), z3.RealVal(0) if lct.kind == 'float' else z3.IntVal(0))
            st.leafct[(region, lf)] = lct
        return ObjRef(region, ct.name)
    if k == 'marray' and args and 'extent_gen' in (args[0].get('type', {}).get('qualType', '') + args[0].get('type', {}).get('desugaredQualType', '')):
        # boost::multi_array(boost::extents[a][b][c]): value-initialised elements, extents as written
        dims = extent_dims(ex, st, args[0])
        region = f'local:{ex.pending_name or "marray"}'
        total = dims[0]
        for d_ in dims[1:]:
            total = total * d_
        st.length[region] = total
        st.dims[region] = dims
        for key in list(st.arr):
            if key[0] == region:
                del st.arr[key]
        st.arr[(region, '')] = z3.K(z3.IntSort(), z3.RealVal(0))
        st.leafct[(region, '')] = FLOAT
        return ObjRef(region, ct.name)
    if k in ('sptr', 'uptr') or k in ('vector', 'marray', 'stdarray', 'string', 'map', 'queue'):
        if len(args) == 1:
            # copy / move / conversion: reference semantics are enough for the units handled
            a = args[0]
            if a.get('valueCategory') in ('lvalue', 'xvalue') or parse_type(a['type']).kind == 'class':
                return ex.ev_obj(a, st)
            return ex.ev(a, st)
        if len(args) == 0:
            return Opaque('empty:' + k)
    if k == 'class' and len(args) == 1 and strip_quals(args[0].get('type', {}).get('qualType', '')).startswith(strip_quals(ct.name)[:8]):
        return ex.ev_obj(args[0], st)
    raise ExtractionError(f'{ex.unit}: construction of {ct.name} with {len(args)} args not modelled (line {ex.curline})')


def extent_dims(ex, st, n):
    """[a, b, c] of boost::extents[a][b][c]"""
    while n.get('kind') in ('ImplicitCastExpr', 'MaterializeTemporaryExpr', 'ExprWithCleanups', 'CXXBindTemporaryExpr', 'ParenExpr', 'CXXConstructExpr') and n.get('inner'):
        if n['kind'] == 'CXXConstructExpr' and len(n['inner']) != 1:
            break
        n = n['inner'][0]
    if n.get('kind') == 'DeclRefExpr':
        if (n.get('referencedDecl') or {}).get('name') != 'extents':
            raise ExtractionError(f'{ex.unit}: multi_array extents built from {n.get("referencedDecl", {}).get("name")}')
        return []
    if n.get('kind') == 'CXXOperatorCallExpr' and len(n.get('inner', [])) == 3:
        base = extent_dims(ex, st, n['inner'][1])
        v = ex.ev(n['inner'][2], st)
        return base + [v.t]
    raise ExtractionError(f'{ex.unit}: multi_array extents expression of kind {n.get("kind")} not modelled (line {ex.curline})')


def new_object(ex, n, st):
    """new T(args): a fresh heap object built by T's constructor contract (when the unit binds one)"""
    ce = n['inner'][-1] if n.get('inner') else None
    while ce is not None and ce.get('kind') in ('ExprWithCleanups', 'CXXBindTemporaryExpr', 'MaterializeTemporaryExpr'):
        ce = ce['inner'][0]
    if ce is not None and ce.get('kind') == 'CXXConstructExpr' and ex.calls:
        ct = parse_type(ce['type'])
        cn = strip_quals(ct.name)
        args = ce.get('inner', [])
        use = ex.calls.get(f'ctor:{cn}/{len(args)}') or ex.calls.get(f'ctor:{cn}')
        if use is not None:
            ex.heapcount = getattr(ex, 'heapcount', 0) + 1
            hname = f'heap:{cn.split("::")[-1].split("<")[0]}{ex.heapcount}'
            r = use(ex, ce, st, None, args, this_override=hname)
            return r if isinstance(r, ObjRef) else ObjRef(hname, ct.name, null=z3.BoolVal(False))
    raise ExtractionError(f'{ex.unit}: scalar new not modelled (line {ex.curline})')


def default_construct(ex, st, d, ct):
    k = class_kind(ct.name)
    name = f'local:{d.get("name")}'
    if k == 'vector':
        st.length[name] = I(0)
        return ObjRef(name, ct.name)
    if k in ('queue',):
        st.length[name] = I(0)
        st.scal[name + '.head'] = IntV(I(0), ULONG)
        return ObjRef(name, ct.name)
    if k == 'string':
        return Opaque('string')
    if k in ('sptr', 'uptr'):
        return ObjRef(name, ct.name, null=z3.BoolVal(True))       # default-constructed smart pointer: null
    raise ExtractionError(f'{ex.unit}: default construction of local {ct.name}')


def from_initlist(ex, st, d, ct, items):
    import re as _re
    if class_kind(ct.name) == 'stdarray':
        # std::array<T,N> x{{a, b, ...}}: the given elements, the remaining ones value-initialised
        m = _re.search(r'std::array<(.*),\s*(\d+)\s*>\s*$', strip_quals(ct.name))
        if m:
            n_ = int(m.group(2))
            ect = parse_type_str(m.group(1).strip())
            flat = []

            def fl(v):
                if isinstance(v, list):
                    for x in v:
                        fl(x)
                else:
                    flat.append(v)
            fl(items)
            if ect.kind in ('int', 'float') and len(flat) <= n_ and all(isinstance(v, (IntV, RealV)) for v in flat):
                region = f'local:{d.get("name")}'
                st.length[region] = I(n_)
                for key in list(st.arr):
                    if key[0] == region:
                        del st.arr[key]
                arr = z3.K(z3.IntSort(), z3.RealVal(0) if ect.kind == 'float' else z3.IntVal(0))
                for i_, v in enumerate(flat):
                    arr = z3.Store(arr, i_, real(v) if ect.kind == 'float' else v.t)
                st.arr[(region, '')] = arr
                st.leafct[(region, '')] = ect
                return ObjRef(region, ct.name)
    raise ExtractionError(f'{ex.unit}: initializer list for {ct.name}')


def container_leaves(ctname):
    """leaf names of the element type of std::vector<T>/queue<T>"""
    s_ = strip_quals(ctname)
    i = s_.find('<')
    inner = s_[i + 1:s_.rfind('>')] if i >= 0 else ''
    # first template argument
    depth, arg = 0, ''
    for ch in inner:
        if ch == '<':
            depth += 1
        elif ch == '>':
            depth -= 1
        elif ch == ',' and depth == 0:
            break
        arg += ch
    pod = pod_of(arg.strip())
    if pod:
        return [(lf, parse_type_str(ts)) for lf, ts in POD[pod].items()]
    t = parse_type_str(arg.strip())
    return [('', t if t.kind in ('int', 'float') else FLOAT)]


def copy_container(ex, st, d, v):
    """local container initialised from another one: by-value copy into a fresh region"""
    name = f'local:{d.get("name")}'
    for lf, lct in container_leaves(v.cls):
        st.array(v.name, lf, lct)          # materialise the source contents that are being copied
    for key in list(st.arr):
        if key[0] == v.name:
            st.arr[(name, key[1])] = st.arr[key]
    if v.name in st.length:
        st.length[name] = st.length[v.name]
    else:
        st.length[name] = st.len_of(v.name)
    if v.name in st.dims:
        st.dims[name] = st.dims[v.name]
    o = ObjRef(name, v.cls)
    o.copied_from = v.name
    return o


def queue_call(ex, n, st, name, objn, argn):
    """std::queue as array region + head index + length (tail)"""
    from .vcg import LElem, LObj
    o = ex.ev_obj(objn, st)
    region = o.name
    hp = region + '.head'
    if hp not in st.scal:
        ex.new_scalar(st, hp, ULONG)
    head = st.scal[hp].t
    tail = st.len_of(region)
    if name == 'front':
        ex.safe(st, 'queue-front-empty', head < tail, 'front() of an empty queue is undefined')
        l = LElem(region, head, '', parse_type(n['type']), checked=True)
        return l
    if name == 'pop':
        ex.safe(st, 'queue-pop-empty', head < tail, 'pop() of an empty queue is undefined')
        st.scal[hp] = IntV(head + 1, ULONG)
        ex.logw(('s', hp))
        return VoidV()
    if name in ('push', 'emplace'):
        v = ex.ev(argn[0], st)
        st.length[region] = tail + 1
        ex.logw(('len', region))
        ex.store(LElem(region, tail, '', getattr(v, 'ct', FLOAT), checked=True), v, st)
        return VoidV()
    if name == 'size':
        return IntV(tail - head, ULONG)
    if name == 'empty':
        return BoolV(head >= tail)
    if name == 'operator=':
        v = ex.ev(argn[0], st)
        if isinstance(v, ObjRef) and v.name != region:
            for lf, lct in container_leaves(v.cls):
                st.arr[(region, lf)] = st.array(v.name, lf, lct)
                st.leafct[(region, lf)] = lct
            st.length[region] = st.len_of(v.name)
            sh = v.name + '.head'
            if sh not in st.scal:
                ex.new_scalar(st, sh, ULONG)
            st.scal[hp] = st.scal[sh]
            ex.logw(('r', region))
            ex.logw(('len', region))
            ex.logw(('s', hp))
            return o
    raise ExtractionError(f'queue::{name}')


def range_for(ex, n, st):
    raise ExtractionError(f'{ex.unit}: range-for not modelled here (line {ex.curline})')


def try_stmt(ex, n, st):
    raise ExtractionError(f'{ex.unit}: try statement not modelled here (line {ex.curline})')


def find_string_literal(n):
    if not isinstance(n, dict):
        return None
    if n.get('kind') == 'StringLiteral':
        return n.get('value', '').strip('"')
    for c in n.get('inner', []) or []:
        r = find_string_literal(c)
        if r is not None:
            return r
    return None


def find_node(n, kind):
    if not isinstance(n, dict):
        return None
    if n.get('kind') == kind:
        return n
    for c in n.get('inner', []) or []:
        r = find_node(c, kind)
        if r is not None:
            return r
    return None
