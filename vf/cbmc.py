"""CBMC pipeline for bit-precise leaf units: emit C from the AST, goto-cc, goto-instrument --dfcc
--enforce-contract, cbmc with all checks; every step under timeout and memory limit."""
import os, subprocess, time, re
from .ast import ExtractionError
from .emit_c import CEmit, PRELUDE, DROPPED
from .state import Obligation
import z3


def run(cmd, timeout, cwd):
    pre = f'ulimit -v {12 * 1024 * 1024}; '
    p = subprocess.run(['bash', '-c', pre + ' '.join(cmd)], capture_output=True, text=True, timeout=timeout, cwd=cwd)
    return p.returncode, p.stdout + p.stderr


class Leaf:
    """a leaf unit: function + contract clauses as C strings over `self`, parameters and __CPROVER_old()"""
    name = None
    tu = None
    cname = 'unit'
    requires = []
    ensures = []      # [(label, tags, C expression)]
    assigns = ''
    unwind = None     # for small constant loops
    tags = set()
    timeout = 600
    extra_flags = []

    def verify(self, scratch, tc):
        t0 = time.time()
        tu = tc.get(self.tu)
        fn = tu.function(self.name, getattr(self, 'mangled', None), getattr(self, 'nparams', None))
        em = CEmit(tu, fn, self.name)
        rct, cname, sig, bodytxt = em.emit(self.cname)
        contract = ''.join(f'__CPROVER_requires({r})\n' for r in self.requires)
        contract += ''.join(f'__CPROVER_ensures({e})\n' for _, _, e in self.ensures)
        contract += f'__CPROVER_assigns({self.assigns})\n'
        src = PRELUDE + em.struct() + f'{rct} {cname}({", ".join(sig)})\n{contract}{bodytxt}\n'
        hargs = []
        hdecl = ''
        for i, sg in enumerate(sig):
            ty, nm_ = sg.rsplit(' ', 1)
            ty = ty.strip() + ('*' if nm_.startswith('*') else '')
            if ty.endswith('*'):
                base = ty[:-1].strip()
                hdecl += f'  {base} *a{i} = malloc(sizeof({base}));\n'
                hargs.append(f'a{i}')
            else:
                hdecl += f'  {ty} a{i};\n'
                hargs.append(f'a{i}')
        src += f'void harness(void) {{\n{hdecl}  {cname}({", ".join(hargs)});\n}}\n'
        d = os.path.join(scratch, 'cbmc_' + cname)
        os.makedirs(d, exist_ok=True)
        open(os.path.join(d, 'unit.c'), 'w').write(src)
        steps = []
        rc, out = run(['goto-cc', '--function', 'harness', 'unit.c', '-o', 'a.gb'], 120, d)
        steps.append(('goto-cc', rc))
        if rc != 0:
            raise ExtractionError(f'{self.name}: goto-cc failed: {out[-800:]}')
        rc, out = run(['goto-instrument', '--dfcc', 'harness', '--enforce-contract', cname, 'a.gb', 'b.gb'], 300, d)
        if rc != 0:
            raise ExtractionError(f'{self.name}: goto-instrument failed: {out[-800:]}')
        flags = ['--bounds-check', '--pointer-check', '--conversion-check', '--div-by-zero-check', '--signed-overflow-check', '--undefined-shift-check',
                 '--float-overflow-check' if getattr(self, 'float_overflow', False) else '', '--unwinding-assertions'] + \
                ([f'--unwind {self.unwind}'] if self.unwind else []) + self.extra_flags
        try:
            rc, out = run(['cbmc', 'b.gb'] + [f for f in flags if f], self.timeout, d)
        except subprocess.TimeoutExpired:
            raise ExtractionError(f'{self.name}: cbmc timed out after {self.timeout}s')
        secs = round(time.time() - t0, 1)
        # parse results: every property line "[name] ... : SUCCESS/FAILURE"
        obls = []
        res = re.findall(r'^\[(\S+)\] (?:line (\d+) )?(.*?): (SUCCESS|FAILURE)$', out, re.M)
        if not res:
            raise ExtractionError(f'{self.name}: cbmc produced no property results: {out[-600:]}')
        for pid_, line, desc, r in res:
            kind = 'postcondition' if 'postcondition' in pid_ or 'ensures' in desc.lower() else 'safety'
            tags = set(self.tags) if kind == 'postcondition' else ({'C17'} | (set(self.tags) if getattr(self, 'safety_tags_all', False) else set()))
            o = Obligation(f'{self.short()}#cbmc.{pid_}', tags, [], z3.BoolVal(True), kind, int(line) if line else None, desc[:160])
            o.result = 'proved' if r == 'SUCCESS' else 'refuted'
            o.solver = 'cbmc 6.11 (SAT)'
            o.seconds = 0.0
            obls.append(o)
        if obls:
            obls[0].seconds = secs
        if 'VERIFICATION SUCCESSFUL' not in out and not any(o.result == 'refuted' for o in obls):
            raise ExtractionError(f'{self.name}: cbmc neither successful nor failing: {out[-400:]}')
        # canary: vacuity — the contract's requires must be satisfiable (cover)
        info = {'unit': self.name, 'file': self.tu, 'sha': tu.sha, 'backend': 'cbmc --dfcc --enforce-contract', 'checks': len(obls), 'seconds': secs,
                'emission_drops': DROPPED, 'c_file_lines': src.count('\n')}
        return obls, info, src

    def short(self):
        return self.name.replace('vfps::', '')
