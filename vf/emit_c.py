"""Mechanical C emission of leaf functions from clang's typed AST, for CBMC (bit-precise back end).

Every implicit cast of the AST is written out, so C and C++ agree on the arithmetic.  Members of
`this` become fields of `struct self_t *self`; the few accessor calls that occur in the leaf units are
mapped by MUST-FIRE rules (unknown node or call -> ExtractionError, never silently skipped).
What the emission drops is listed in DROPPED and printed into evidence."""
import re
from .ast import ExtractionError, params, body
from .types import parse_type, strip_quals
from .state import pod_of

DROPPED = ['C++ references become pointers / struct fields', 'std::min/std::max become macros with the exact libstdc++ definition ((b<a)?b:a , (a<b)?b:a)',
           'std::floor/std::modf map to floorf/modff of the C library model of CBMC', 'calls of accessors listed in ACCESSORS become struct fields (their one-line bodies are verified by the VCG units)',
           'random draws become nondeterministic floats']

CTYPES = {'bool': '_Bool', 'unsigned char': 'unsigned char', 'unsigned int': 'unsigned int', 'int': 'int', 'unsigned long': 'unsigned long',
          'long': 'long', 'float': 'float', 'double': 'double', 'char': 'char', 'unsigned short': 'unsigned short', 'short': 'short',
          'long long': 'long long', 'unsigned long long': 'unsigned long long'}

# accessor calls -> field of self (receiver pattern, method) ; index taken from a literal argument where present
ACCESSORS = {'getData': '_in_data', 'nMeshCells': '_in_nmeshcells', 'zerobin': '_axis{0}_zerobin', 'min': '_axis{0}_min', 'delta': '_axis{0}_delta'}


class CEmit:
    def __init__(self, tu, fn, unit):
        self.tu, self.fn, self.unit = tu, fn, unit
        self.fields = {}       # name -> C declaration
        self.needs_nondet = False

    def ctype(self, tnode):
        t = parse_type(tnode)
        return self.ctype_of(t, tnode)

    def ctype_of(self, t, tnode=None):
        if t.kind in ('int', 'float'):
            if t.name in CTYPES:
                return CTYPES[t.name]
            if t.kind == 'int':
                return {1: '_Bool', 8: 'unsigned char', 16: 'unsigned short', 32: 'unsigned int', 64: 'unsigned long'}[t.bits] if not t.signed else \
                       {8: 'signed char', 16: 'short', 32: 'int', 64: 'long'}[t.bits]
        if t.kind == 'ptr':
            return self.ctype_of(t.pointee) + ' *'
        if t.kind == 'class':
            p = pod_of(t.name)
            if p == 'hi':
                return 'hi'
            if p == 'Position':
                return 'Position'
        if t.kind == 'void':
            return 'void'
        raise ExtractionError(f'{self.unit}: C emission of type {t.name} not supported')

    def field(self, name, tnode):
        t = parse_type(tnode)
        if name not in self.fields:
            if t.kind == 'class' and strip_quals(t.name).startswith('std::vector<'):
                self.fields[name] = f'float *{name}; unsigned long {name}_size;'
            else:
                self.fields[name] = f'{self.ctype_of(t)} {name};'
        return f'self->{name}'

    # ---------------------------------------------------------------- expressions
    def e(self, n):
        k = n['kind']
        m = getattr(self, 'e_' + k, None)
        if m is None:
            raise ExtractionError(f'{self.unit}: C emission of expression node {k} not supported')
        return m(n)

    def e_IntegerLiteral(self, n):
        t = parse_type(n['type'])
        suf = ('u' if not t.signed else '') + ('l' if t.bits == 64 else '')
        return n['value'] + suf

    def e_FloatingLiteral(self, n):
        t = parse_type(n['type'])
        v = n['value']
        if not any(c in v for c in '.eEn'):
            v += '.0'
        return v + ('f' if t.bits == 32 else '')

    def e_CXXBoolLiteralExpr(self, n):
        return '1' if n['value'] else '0'

    def e_ParenExpr(self, n):
        return '(' + self.e(n['inner'][0]) + ')'

    def e_ExprWithCleanups(self, n):
        return self.e(n['inner'][0])

    e_MaterializeTemporaryExpr = e_ConstantExpr = e_CXXBindTemporaryExpr = e_ExprWithCleanups

    def e_ImplicitCastExpr(self, n):
        ck = n.get('castKind')
        sub = self.e(n['inner'][0])
        if ck in ('LValueToRValue', 'NoOp', 'FunctionToPointerDecay', 'UncheckedDerivedToBase', 'DerivedToBase', 'ArrayToPointerDecay'):
            return sub
        if ck in ('IntegralCast', 'IntegralToFloating', 'FloatingToIntegral', 'FloatingCast', 'IntegralToBoolean', 'FloatingToBoolean'):
            return f'(({self.ctype(n["type"])})({sub}))'
        raise ExtractionError(f'{self.unit}: C emission of cast {ck} not supported')

    e_CXXStaticCastExpr = e_CStyleCastExpr = e_CXXFunctionalCastExpr = e_ImplicitCastExpr

    def e_CXXThisExpr(self, n):
        return 'self'

    def e_DeclRefExpr(self, n):
        rd = n['referencedDecl']
        if rd['kind'] == 'EnumConstantDecl':
            v = self.tu.enumval.get(rd['id'])
            if v is None:
                raise ExtractionError(f'{self.unit}: enum constant {rd.get("name")}')
            return str(v)
        if rd['kind'] == 'ParmVarDecl' and rd['name'] in self.refparams:
            return f'(*{rd["name"]})'
        if rd['kind'] in ('VarDecl', 'ParmVarDecl'):
            if rd['id'] in self.tu.globals and rd['kind'] == 'VarDecl' and rd['id'] not in self.locals:
                q = self.tu.globals[rd['id']].split('::')[-1]
                return self.field('g_' + q, rd.get('type') or n['type'])
            return rd['name']
        raise ExtractionError(f'{self.unit}: reference to {rd["kind"]}')

    def e_MemberExpr(self, n):
        base = n['inner'][0]
        b = base
        while b['kind'] in ('ImplicitCastExpr', 'ParenExpr'):
            b = b['inner'][0]
        if b['kind'] == 'CXXThisExpr':
            return self.field(n['name'], n['type'])
        return f'{self.e(base)}.{n["name"]}'

    def e_ArraySubscriptExpr(self, n):
        return f'{self.e(n["inner"][0])}[{self.e(n["inner"][1])}]'

    def e_UnaryOperator(self, n):
        op = n['opcode']
        s = self.e(n['inner'][0])
        if op in ('++', '--'):
            return f'({s}{op})' if n.get('isPostfix') else f'({op}{s})'
        return f'({op}({s}))'

    def e_BinaryOperator(self, n):
        return f'({self.e(n["inner"][0])} {n["opcode"]} {self.e(n["inner"][1])})'

    e_CompoundAssignOperator = e_BinaryOperator

    def e_ConditionalOperator(self, n):
        a, b, c = n['inner']
        return f'({self.e(a)} ? {self.e(b)} : {self.e(c)})'

    def callee(self, n):
        c = n['inner'][0]
        while c['kind'] in ('ImplicitCastExpr', 'ParenExpr'):
            c = c['inner'][0]
        return c

    def e_CallExpr(self, n):
        c = self.callee(n)
        name = c.get('referencedDecl', {}).get('name')
        args = [self.e(a) for a in n['inner'][1:]]
        if name in ('min', 'max') and len(args) == 2:
            suffix = self.ctype(n['type']).replace(' ', '_')
            return f'std{name}_{suffix}({args[0]}, {args[1]})'
        if name == 'floor':
            t = parse_type(n['type'])
            return f'{"floorf" if t.bits == 32 else "floor"}({args[0]})'
        if name == 'modf':
            return f'modff({args[0]}, {args[1]})'
        raise ExtractionError(f'{self.unit}: C emission of call to {name} not supported')

    def e_CXXOperatorCallExpr(self, n):
        c = self.callee(n)
        name = c.get('referencedDecl', {}).get('name')
        args = n['inner'][1:]
        t0 = strip_quals(args[0].get('type', {}).get('desugaredQualType') or args[0].get('type', {}).get('qualType', ''))
        if name == 'operator[]' and t0.startswith('std::vector<'):
            return f'{self.e(args[0])}[{self.e(args[1])}]'
        if name == 'operator()' and 'normal_distribution' in t0:
            self.needs_nondet = True
            return 'nondet_float()'
        raise ExtractionError(f'{self.unit}: C emission of operator call {name} on {t0} not supported')

    def e_CXXMemberCallExpr(self, n):
        me = n['inner'][0]
        name = me['name']
        if name not in ACCESSORS:
            raise ExtractionError(f'{self.unit}: C emission of member call {name} not supported')
        # index: literal argument of the call or literal subscript inside the receiver (_axis[1]->...)
        idx = None
        for x in _walk(n):
            if x.get('kind') == 'IntegerLiteral':
                idx = x['value']
        fname = ACCESSORS[name].format(idx if idx is not None else '')
        return self.field(fname, n['type'])

    # ---------------------------------------------------------------- statements
    def s(self, n, ind=1):
        k = n['kind']
        pad = '  ' * ind
        if k == 'CompoundStmt':
            return pad + '{\n' + ''.join(self.s(c, ind + 1) for c in n.get('inner', [])) + pad + '}\n'
        if k == 'DeclStmt':
            out = ''
            for d in n['inner']:
                self.locals.add(d['id'])
                init = [c for c in d.get('inner', []) if c.get('kind') and not c['kind'].endswith(('Attr', 'Comment', 'Decl'))]
                t = parse_type(d['type'])
                ct = self.ctype_of(t)
                if init and init[0]['kind'] == 'CXXConstructExpr':
                    inner = init[0].get('inner', [])
                    out += pad + f'{ct} {d["name"]} = {self.e(inner[0])};\n' if inner else pad + f'{ct} {d["name"]};\n'
                elif init:
                    out += pad + f'{ct} {d["name"]} = {self.e(init[0])};\n'
                else:
                    out += pad + f'{ct} {d["name"]};\n'
            return out
        if k == 'IfStmt':
            i = n['inner']
            out = pad + f'if ({self.e(i[0])})\n' + self.s(i[1], ind + 1)
            if len(i) > 2:
                out += pad + 'else\n' + self.s(i[2], ind + 1)
            return out
        if k == 'ForStmt':
            init, _, cond, inc, bodyn = n['inner']
            si = self.s(init, 0).strip().rstrip(';') if init.get('kind') else ''
            return pad + f'for ({si}; {self.e(cond) if cond.get("kind") else ""}; {self.e(inc) if inc.get("kind") else ""})\n' + self.s(bodyn, ind + 1)
        if k == 'SwitchStmt':
            return pad + f'switch ({self.e(n["inner"][0])})\n' + self.s(n['inner'][-1], ind)
        if k == 'CaseStmt':
            return pad + f'case {self.e(n["inner"][0])}:\n' + self.s(n['inner'][-1], ind + 1)
        if k == 'DefaultStmt':
            return pad + 'default:\n' + self.s(n['inner'][-1], ind + 1)
        if k == 'BreakStmt':
            return pad + 'break;\n'
        if k == 'ReturnStmt':
            return pad + (f'return {self.e(n["inner"][0])};\n' if n.get('inner') else 'return;\n')
        if k == 'NullStmt':
            return pad + ';\n'
        return pad + self.e(n) + ';\n'

    def emit(self, cname):
        ps = params(self.fn)
        self.locals = set(p['id'] for p in ps)
        self.refparams = set(p['name'] for p in ps if p['type']['qualType'].rstrip().endswith('&'))
        sig = []
        for p in ps:
            t = parse_type(p['type'])
            ct = self.ctype_of(t)
            sig.append(f'{ct} *{p["name"]}' if p['name'] in self.refparams else f'{ct} {p["name"]}')
        rt = self.fn['type']['qualType'].split('(')[0].strip()
        rct = self.ctype({'qualType': rt}) if rt != 'void' else 'void'
        is_method = self.fn['kind'] == 'CXXMethodDecl' and not self.fn.get('storageClass') == 'static'
        if is_method:
            sig = ['struct self_t *self'] + sig
        b = self.s(body(self.fn), 0)
        return rct, cname, sig, b

    def struct(self):
        return 'struct self_t {\n' + ''.join(f'  {d}\n' for _, d in sorted(self.fields.items())) + '};\n'


def _walk(n):
    if isinstance(n, dict):
        yield n
        for c in n.get('inner', []) or []:
            yield from _walk(c)


PRELUDE = '''#include <stdlib.h>
#include <math.h>
typedef struct { unsigned int index; float weight; } hi;
typedef struct { float x; float y; } Position;
/* libstdc++: min(a,b) = (b<a)?b:a ; max(a,b) = (a<b)?b:a */
#define DEFMM(T,S) static inline T stdmin_##S(T a, T b){ return (b < a) ? b : a; } static inline T stdmax_##S(T a, T b){ return (a < b) ? b : a; }
DEFMM(float,float) DEFMM(double,double) DEFMM(int,int) DEFMM(unsigned int,unsigned_int) DEFMM(unsigned long,unsigned_long) DEFMM(long,long)
float nondet_float(void);
'''
