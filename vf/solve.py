"""Discharge obligations: z3 (python API) in worker processes, cvc5 CLI as second opinion."""
import os, time, subprocess, tempfile, re
from concurrent.futures import ProcessPoolExecutor, as_completed


def _solve_one(job):
    name, smt2, timeout_ms, want_model = job[:4]
    expect_sat = job[4] if len(job) > 4 else False
    import z3
    t0 = time.time()
    res, model, solver = 'unknown', None, 'z3'
    if expect_sat:
        # vacuity canaries must be refuted: the 4.8 CLI finds models of array/UF-heavy states much faster than 5.x
        r3, m3 = _z3_cli(smt2, 3)
        if r3 in ('proved', 'refuted'):
            return name, r3, m3, round(time.time() - t0, 3), 'z3-4.8 cli'
    try:
        ctx = z3.Context()
        s = z3.Solver(ctx=ctx)
        # first attempt is capped at 20 s (discharged obligations take < 10 s); what it leaves open goes to the
        # system z3 4.8 CLI, then to a reseeded attempt with the full budget
        s.set('timeout', min(timeout_ms, 20000))
        s.from_string(smt2)
        r = s.check()
        if r == z3.unsat:
            res = 'proved'
        elif r == z3.sat:
            res = 'refuted'
            if want_model:
                m = s.model()
                model = {}
                for d in m.decls():
                    if d.arity() == 0:
                        v = m[d]
                        try:
                            if z3.is_int_value(v):
                                model[d.name()] = v.as_long()
                            elif z3.is_rational_value(v):
                                model[d.name()] = [v.numerator_as_long(), v.denominator_as_long()]
                            elif z3.is_true(v) or z3.is_false(v):
                                model[d.name()] = bool(z3.is_true(v))
                            elif z3.is_algebraic_value(v):
                                model[d.name()] = float(v.approx(10).as_fraction())
                            else:
                                s_ = str(v)
                                if len(s_) < 400:
                                    model[d.name()] = s_
                        except Exception:
                            pass
        else:
            r3, m3 = _z3_cli(smt2, max(10, min(timeout_ms // 1000, 60)))
            if r3 in ('proved', 'refuted'):
                return name, r3, m3, round(time.time() - t0, 3), 'z3-4.8 cli'
            # retry once with another seed (instability, not incompleteness, is the usual cause)
            s2 = z3.Solver(ctx=z3.Context())
            s2.set('timeout', timeout_ms)
            s2.set('random_seed', 7)
            s2.from_string(smt2)
            r2 = s2.check()
            if r2 == z3.unsat:
                res, solver = 'proved', 'z3(seed 7)'
            elif r2 == z3.sat:
                res, solver = 'refuted', 'z3(seed 7)'
    except Exception as e:
        res = 'unknown'
        model = {'error': str(e)[:300]}
    return name, res, model, round(time.time() - t0, 3), solver


def _z3_cli(smt2, timeout_s):
    exe = '/usr/bin/z3'
    if not os.path.exists(exe):
        return 'unknown', None
    with tempfile.NamedTemporaryFile('w', suffix='.smt2', delete=False) as f:
        txt = smt2 if '(check-sat)' in smt2 else smt2 + '\n(check-sat)\n'
        f.write(txt + '\n(get-model)\n')
        path = f.name
    try:
        p = subprocess.run([exe, '-T:%d' % timeout_s, path], capture_output=True, text=True, timeout=timeout_s + 10)
        out = p.stdout
        first = out.strip().splitlines()[0] if out.strip() else ''
        if first == 'unsat':
            return 'proved', None
        if first == 'sat':
            model = {}
            for m in re.finditer(r'\(define-fun ([^ ]+) \(\) (Int|Real|Bool)\s+([^\n]+)\)', out):
                nm, srt, val = m.group(1).strip('|'), m.group(2), m.group(3).strip()
                try:
                    if srt == 'Int':
                        model[nm] = int(val.replace('(- ', '-').replace(')', '').replace(' ', ''))
                    elif srt == 'Bool':
                        model[nm] = (val == 'true')
                    else:
                        q = re.fullmatch(r'\(/ ([0-9.]+) ([0-9.]+)\)', val)
                        neg = re.fullmatch(r'\(- (.*)\)', val)
                        if q:
                            model[nm] = [int(float(q.group(1))), int(float(q.group(2)))]
                        elif neg:
                            q2 = re.fullmatch(r'\(/ ([0-9.]+) ([0-9.]+)\)', neg.group(1))
                            model[nm] = [-int(float(q2.group(1))), int(float(q2.group(2)))] if q2 else -float(neg.group(1))
                        else:
                            model[nm] = float(val)
                except Exception:
                    pass
            return 'refuted', model
    except Exception:
        pass
    finally:
        os.unlink(path)
    return 'unknown', None


def _cvc5_model_holds(smt2, model_txt, timeout_s):
    """cvc5 1.0 occasionally answers sat with a model that does not satisfy the query (seen on store/ite-heavy obligations).
    The model is validated: its definitions replace the declarations of the query and z3 evaluates the now closed formula.
    True: the model satisfies the query; False: it does not (cvc5's answer is discarded); None: could not be checked"""
    import re
    body = model_txt.strip()
    if not body.startswith('('):
        return None
    body = body[1:body.rfind(')')]
    names = set(re.findall(r'\(define-fun\s+(\|[^|]*\||[^\s()]+)', body))
    if not names:
        return None
    keep = []
    for line in smt2.splitlines():
        m = re.match(r'\s*\(declare-(?:fun|const)\s+(\|[^|]*\||[^\s()]+)', line)
        if m and m.group(1) in names:
            continue
        if line.strip().startswith(('(set-logic', '(set-info', '(set-option', '(get-model', '(exit')):
            continue
        keep.append(line)
    txt = body + '\n' + '\n'.join(keep)
    if '(check-sat)' not in txt:
        txt += '\n(check-sat)\n'
    with tempfile.NamedTemporaryFile('w', suffix='.smt2', delete=False) as f:
        f.write(txt)
        path = f.name
    try:
        p = subprocess.run(['/usr/bin/z3', '-T:%d' % timeout_s, path], capture_output=True, text=True, timeout=timeout_s + 5)
        out = p.stdout.strip().splitlines()
        if out and out[0] == 'unsat':
            return False
        if out and out[0] == 'sat':
            return True
    except Exception:
        pass
    finally:
        os.unlink(path)
    return None


def _cvc5(smt2, timeout_s):
    with tempfile.NamedTemporaryFile('w', suffix='.smt2', delete=False) as f:
        txt = smt2
        if '(set-logic' not in txt:
            txt = '(set-logic ALL)\n' + txt
        txt = '(set-option :produce-models true)\n' + txt + '\n(get-model)\n'
        f.write(txt)
        path = f.name
    try:
        p = subprocess.run(['cvc5', '--tlimit=%d' % (timeout_s * 1000), path], capture_output=True, text=True, timeout=timeout_s + 5)
        out = p.stdout.strip().splitlines()
        if out and out[0] == 'unsat':
            return 'proved'
        if out and out[0] == 'sat':
            ok = _cvc5_model_holds(smt2, '\n'.join(out[1:]), 30)
            if ok is False:
                return 'invalid-model'
            return 'refuted'
    except Exception:
        pass
    finally:
        os.unlink(path)
    return 'unknown'


def discharge(obls, timeout_s=60, jobs=None, cvc5_recheck=False):
    """fills o.result/o.model/o.seconds/o.solver for every obligation not yet decided"""
    jobs = jobs or min(16, os.cpu_count() or 4)
    todo = [o for o in obls if o.result is None]
    work = []
    for i, o in enumerate(todo):
        work.append((i, o.smt2(), int(timeout_s * 1000), True, getattr(o, 'kind', '') == 'canary'))
    if work:
        with ProcessPoolExecutor(max_workers=jobs) as pool:
            futs = [pool.submit(_solve_one, w) for w in work]
            for f in as_completed(futs):
                i, res, model, secs, solver = f.result()
                o = todo[i]
                o.result, o.model, o.seconds, o.solver = res, model, secs, solver
    # cvc5 for unknowns, and optional recheck
    for o in todo:
        if o.result == 'unknown':
            r = _cvc5(o.smt2(), min(timeout_s, 60))
            if r == 'proved':
                o.result, o.solver = 'proved', 'cvc5'
    if cvc5_recheck:
        # z3's python API is not thread safe: serialise in this thread, only the cvc5 processes run in parallel
        items = [(o, o.smt2()) for o in todo if o.result == 'proved' and o.solver != 'cvc5']

        def chk(it):
            return it[0], _cvc5(it[1], min(timeout_s, 30))
        from concurrent.futures import ThreadPoolExecutor
        with ThreadPoolExecutor(max_workers=jobs) as tp:
            for o, r in tp.map(chk, items):
                o.cvc5 = r
    return obls
