"""C/C++ type classification from clang type strings, and symbolic value classes."""
import re
import z3

INT_TYPES = {
    'bool': (False, 1), '_Bool': (False, 1),
    'char': (True, 8), 'signed char': (True, 8), 'unsigned char': (False, 8),
    'short': (True, 16), 'unsigned short': (False, 16),
    'int': (True, 32), 'unsigned int': (False, 32), 'unsigned': (False, 32),
    'long': (True, 64), 'unsigned long': (False, 64),
    'long long': (True, 64), 'unsigned long long': (False, 64),
}
TYPEDEFS = {
    'size_t': 'unsigned long', 'std::size_t': 'unsigned long', 'uint32_t': 'unsigned int',
    'int32_t': 'int', 'uint64_t': 'unsigned long', 'int64_t': 'long', 'uint8_t': 'unsigned char',
    'uint_fast8_t': 'unsigned char', 'uint16_t': 'unsigned short', 'uint_fast16_t': 'unsigned long',
    'vfps::meshindex_t': 'unsigned int', 'meshindex_t': 'unsigned int',
    'std::vector::size_type': 'unsigned long', 'ptrdiff_t': 'long', 'std::ptrdiff_t': 'long',
    'hsize_t': 'unsigned long long',
}
for _n in ('data_t', 'csrpower_t', 'frequency_t', 'meshaxis_t', 'meshdata_t', 'interpol_t',
           'integral_t', 'timeaxis_t', 'projection_t'):
    TYPEDEFS[_n] = 'float'
    TYPEDEFS['vfps::' + _n] = 'float'
FLOAT_TYPES = {'float': 32, 'double': 64, 'long double': 80}

# enums of the repository with their underlying types (checked against the AST when used)
ENUM_HINT = re.compile(r'(Axis|InterpolationType|RotationCoordinates|FPType|FPTracking|DerivationType|AppendType|clCopyDirection)$')


class CType:
    def __init__(self, kind, name, signed=None, bits=None, pointee=None):
        self.kind, self.name, self.signed, self.bits, self.pointee = kind, name, signed, bits, pointee

    def __repr__(self):
        return f'<{self.kind}:{self.name}>'

    @property
    def lo(self):
        return -(1 << (self.bits - 1)) if self.signed else 0

    @property
    def hi(self):
        if self.bits == 1:
            return 1
        return (1 << (self.bits - 1)) - 1 if self.signed else (1 << self.bits) - 1


def strip_quals(s):
    s = s.strip()
    changed = True
    while changed:
        changed = False
        for q in ('const ', 'volatile ', 'struct ', 'class ', 'enum '):
            if s.startswith(q):
                s = s[len(q):].strip()
                changed = True
        for q in (' const', ' volatile', '*const', '*volatile', ' __restrict', '*__restrict'):
            if s.endswith(q):
                s = s[:-len(q)].strip() + ('*' if q.startswith('*') else '')
                changed = True
    return s


def parse_type(tnode):
    """tnode: the clang 'type' dict (qualType / desugaredQualType)."""
    if tnode is None:
        return CType('void', 'void')
    s = tnode.get('desugaredQualType') or tnode.get('qualType') or ''
    t = parse_type_str(s)
    if t.kind == 'class' and tnode.get('desugaredQualType') is None:
        # maybe typedef we know
        pass
    return t


def parse_type_str(s):
    s = strip_quals(s)
    if s.endswith('&&'):
        return parse_type_str(s[:-2])
    if s.endswith('&'):
        return parse_type_str(s[:-1])
    if s in TYPEDEFS:
        s = TYPEDEFS[s]
    if s in INT_TYPES:
        sg, b = INT_TYPES[s]
        return CType('int', s, sg, b)
    if s in FLOAT_TYPES:
        return CType('float', s, True, FLOAT_TYPES[s])
    if s == 'void':
        return CType('void', s)
    if s in ('std::nullptr_t', 'nullptr_t'):
        return CType('ptr', s, pointee=CType('void', 'void'))
    if s.endswith('*'):
        return CType('ptr', s, pointee=parse_type_str(s[:-1]))
    m = re.match(r'^(.*)\[(\d*)\]$', s)
    if m:
        return CType('carray', s, pointee=parse_type_str(m.group(1)), bits=int(m.group(2) or 0))
    if ENUM_HINT.search(s) and '<' not in s:
        return CType('int', s, False, 8)
    return CType('class', s)


def class_kind(s):
    """coarse family of a library class type string"""
    s = strip_quals(s)
    if s.endswith('&'):
        s = strip_quals(s[:-1])
    for pre, k in (('std::vector<', 'vector'), ('std::array<', 'stdarray'),
                   ('boost::multi_array<', 'marray'), ('boost::detail::multi_array::', 'marray'),
                   ('boost::const_multi_array_ref<', 'marray'), ('boost::multi_array_ref<', 'marray'),
                   ('std::shared_ptr<', 'sptr'), ('std::__shared_ptr_access<', 'sptr'), ('std::__shared_ptr<', 'sptr'),
                   ('std::unique_ptr<', 'uptr'), ('std::complex<', 'complex'), ('std::queue<', 'queue'),
                   ('std::map<', 'map'), ('std::basic_string<', 'string'), ('std::string', 'string'),
                   ('std::__cxx11::basic_string<', 'string')):
        if s.startswith(pre):
            return k
    return 'class'


# ----------------------------------------------------------------------------- values

class Val:
    pass


class IntV(Val):
    def __init__(self, t, ct):
        self.t, self.ct = t, ct

    def __repr__(self):
        return f'IntV({self.t}:{self.ct.name})'


class RealV(Val):
    def __init__(self, t, ct=None):
        self.t, self.ct = t, ct or CType('float', 'float', True, 32)

    def __repr__(self):
        return f'RealV({self.t})'


class BoolV(Val):
    def __init__(self, t):
        self.t = t
        self.ct = CType('int', 'bool', False, 1)


class PtrV(Val):
    """pointer = (region name | None for nullptr | '?' unknown, offset term, leaf path prefix)"""

    def __init__(self, region, off=None, ct=None, path=()):
        self.region, self.off, self.ct, self.path = region, (off if off is not None else z3.IntVal(0)), ct, path

    def __repr__(self):
        return f'PtrV({self.region}+{self.off})'


class ObjRef(Val):
    """reference to (or pointer to) an object of class type living at symbolic path `name`"""

    def __init__(self, name, cls, null=None):
        self.name, self.cls = name, cls
        self.null = null   # z3 Bool: pointer may be null (for T* / shared_ptr)

    def __repr__(self):
        return f'ObjRef({self.name}:{self.cls})'


class StructV(Val):
    def __init__(self, cls, fields):
        self.cls, self.fields = cls, dict(fields)

    def __repr__(self):
        return f'StructV({self.cls},{self.fields})'


class SubArr(Val):
    """boost sub_array / multi_array view: region, flat base offset, remaining extents"""

    def __init__(self, region, base, dims):
        self.region, self.base, self.dims = region, base, list(dims)


class VoidV(Val):
    pass


class Opaque(Val):
    """a value the model does not interpret (strings, streams, plans)"""

    def __init__(self, what=''):
        self.what = what
