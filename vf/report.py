"""Verdict logic, known findings, native replay, evidence files."""
import json, os, subprocess, time, hashlib, shutil

VERIF = os.path.dirname(os.path.dirname(os.path.abspath(__file__)))
REPO = os.environ.get('VERIF_REPO', '/repo')

REPLAY_FLAGS = ['-std=c++14', '-O1', '-w', '-fno-access-control', '-DINOVESA_ALLOW_PS_RESET=1',
                '-DGIT_BRANCH="v"', '-DGIT_COMMIT="0"', '-DINOVESA_ENABLE_INTERRUPT=1',
                '-DINOVESA_USE_OPENCL=0', '-DINOVESA_USE_OPENGL=0', '-DINOVESA_USE_PNG=0']
REPLAY_LIBS = ['-lboost_filesystem', '-lboost_system', '-lboost_program_options', '-lfftw3f', '-lfftw3']
HDF5_INC = ['-I/usr/include/hdf5/serial']
HDF5_LIBS = ['-L/usr/lib/x86_64-linux-gnu/hdf5/serial', '-lhdf5_cpp', '-lhdf5']


def build_harness(name, scratch, hdf5=False):
    """compile /verif/replay/<name>.cpp against the current /repo tree; returns path or None"""
    out = os.path.join(scratch, name)
    if os.path.exists(out):
        return out
    cfgdir = os.path.join(REPO, '_build')
    incs = ['-I' + os.path.join(REPO, 'inc'), '-I' + os.path.join(REPO, 'src')]
    if os.path.exists(os.path.join(cfgdir, 'InovesaConfig.hpp')):
        incs.insert(0, '-I' + cfgdir)
    else:
        incs.insert(0, '-I' + os.path.join(scratch, 'cfg'))
    cmd = ['g++'] + REPLAY_FLAGS + ['-DINOVESA_USE_HDF5=%d' % (1 if hdf5 else 0)] + incs + (HDF5_INC if hdf5 else []) + \
          [os.path.join(VERIF, 'replay', name + '.cpp'), '-o', out] + REPLAY_LIBS + (HDF5_LIBS if hdf5 else [])
    p = subprocess.run(cmd, capture_output=True, text=True)
    if p.returncode != 0:
        return None, p.stderr[-3000:]
    return out


def run_replay(spec, scratch):
    """spec: {'harness': name, 'args': [...], 'hdf5': bool}; returns dict"""
    if spec.get('driver') == 'main':
        return run_main_scenarios(spec, scratch)
    r = build_harness(spec['harness'], scratch, spec.get('hdf5', False))
    if isinstance(r, tuple):
        return {'built': False, 'error': r[1], 'confirmed': False}
    outs = []
    confirmed = False
    for args in spec['runs']:
        try:
            env = dict(os.environ, XDG_DATA_HOME=os.path.join(scratch, 'xdg'))        # FFTW wisdom written by the real wrappers stays in the scratch directory
            p = subprocess.run([r] + [str(a) for a in args], capture_output=True, text=True, timeout=900, env=env)
            outs.append({'args': [str(a) for a in args], 'exit': p.returncode, 'stdout': p.stdout[-2000:], 'stderr': p.stderr[-1000:]})
            if p.returncode == 1:
                confirmed = True
                if not spec.get('all'):
                    break
        except subprocess.TimeoutExpired:
            outs.append({'args': [str(a) for a in args], 'exit': 'timeout'})
    return {'built': True, 'runs': outs, 'confirmed': confirmed}


def load_known():
    p = os.path.join(VERIF, 'known_findings.json')
    if not os.path.exists(p):
        return []
    return json.load(open(p)).get('findings', [])


def write_evidence(pid, tier, seed, level, coverage, assumptions, wall, violations):
    evdir = os.environ.get('VERIF_EVIDENCE_DIR') or os.path.join(VERIF, 'evidence')   # seed/refactor tooling redirects it
    os.makedirs(evdir, exist_ok=True)
    ev = {'property_id': pid, 'tier': tier, 'seed': seed, 'level': level, 'coverage': coverage,
          'assumptions': assumptions, 'wall_s': round(wall, 2), 'violations': violations}
    path = os.path.join(evdir, pid + '.json')
    tmp = path + '.tmp'
    json.dump(ev, open(tmp, 'w'), indent=1, default=str)
    os.replace(tmp, path)
    return path


# ---------------------------------------------------------------------------------------------------------------------------
# main-level replay: build the real binary from the current tree and run whole-program scenarios against checkers that need
# no model (record counts, time axis, CSR rows, cadence independence, interrupt handling)
def run_main_scenarios(spec, scratch):
    """spec: {'driver': 'main', 'scenarios': [...]}; returns the same dict shape as run_replay"""
    import signal as _signal
    b = os.path.join(scratch, 'inovesa_build')
    exe = os.path.join(b, 'inovesa')
    if not os.path.exists(exe):
        p = subprocess.run(['cmake', '-S', REPO, '-B', b, '-G', 'Ninja', '-DCMAKE_BUILD_TYPE=Release'], capture_output=True, text=True)
        if p.returncode == 0:
            p = subprocess.run(['cmake', '--build', b, '--target', 'inovesa', '-j16'], capture_output=True, text=True)
        if p.returncode != 0 or not os.path.exists(exe):
            return {'built': False, 'error': (p.stdout + p.stderr)[-2000:], 'confirmed': False}
    chk = build_harness('h5_run_check', scratch, hdf5=True)
    if isinstance(chk, tuple):
        return {'built': False, 'error': chk[1], 'confirmed': False}
    env = dict(os.environ, XDG_DATA_HOME=os.path.join(scratch, 'xdg'))
    work = os.path.join(scratch, 'main_runs')
    os.makedirs(work, exist_ok=True)
    outs, confirmed = [], False
    base = ['--run_anyway', '1', '-s', '32', '-N', '10']

    def run(args, name, interrupt_after=None, base=base):
        out = os.path.join(work, name + '.h5')
        for ext in ('', '.cfg'):
            try:
                os.remove(out + ext)
            except OSError:
                pass
        given = {a for a in args if a.startswith('-')}
        b_ = []
        for i in range(0, len(base), 2):          # a scenario's own value for an option replaces the default one
            if base[i] not in given:
                b_ += base[i:i + 2]
        cmd = [exe] + b_ + args + ['-o', out]
        if interrupt_after is None:
            p = subprocess.run(cmd, capture_output=True, text=True, timeout=600, env=env, cwd=work)
            return out, p.returncode, p.stdout + p.stderr
        pr = subprocess.Popen(cmd, stdout=subprocess.PIPE, stderr=subprocess.STDOUT, text=True, env=env, cwd=work)
        # never before the handler is installed (the statement is about interrupts after start-up): wait until the process
        # catches SIGINT (SigCgt bit 2 in /proc/<pid>/status), then the requested delay ('installed' = none)
        t_end = time.time() + 30
        while time.time() < t_end and pr.poll() is None:
            try:
                m_ = [l for l in open(f'/proc/{pr.pid}/status') if l.startswith('SigCgt:')]
                if m_ and int(m_[0].split()[1], 16) & 0x2:
                    break
            except OSError:
                break
            time.sleep(0.002)
        if interrupt_after != 'installed':
            time.sleep(interrupt_after)
        pr.send_signal(_signal.SIGINT)
        try:
            so, _ = pr.communicate(timeout=300)
        except subprocess.TimeoutExpired:
            pr.kill(); so = 'TIMEOUT after SIGINT'
        return out, pr.returncode, so

    def check(out, steps, outstep, rot, rf=0, axis_only=False):
        p = subprocess.run([chk, out, str(steps), str(outstep), str(rot), str(rf)] + (['axis'] if axis_only else []), capture_output=True, text=True, timeout=120)
        return p.returncode, p.stdout[-1500:]
    for sc in spec.get('scenarios', ['records']):
        try:
            if sc == 'records':
                for nm, extra, T, n in (('one', ['-I', '1e-3'], 0.33, 3), ('two', ['-I', '5e-4', '5e-4', '--RenormalizeCharge', '2'], 0.7, 2)):
                    out, rc, so = run(['-T', str(T), '-n', str(n)] + extra, 'rec_' + nm)
                    crc, cso = check(out, 10, n, T) if rc == 0 else (1, 'run failed')
                    outs.append({'args': [sc, nm], 'exit': 1 if (rc != 0 or crc == 1) else 0, 'stdout': f'inovesa exit {rc}\n' + cso})
            elif sc == 'rfkicks':
                out, rc, so = run(['-T', '0.7', '-n', '3', '--RFPhaseSpread', '0.1', '--RFPhaseModAmplitude', '0.5', '--RFPhaseModFrequency', '6e4'], 'rf')
                crc, cso = check(out, 10, 3, 0.7, 1) if rc == 0 else (1, 'run failed')
                outs.append({'args': [sc], 'exit': 1 if (rc != 0 or crc == 1) else 0, 'stdout': f'inovesa exit {rc}\n' + cso})
            elif sc == 'cadence':
                cmpx = build_harness('h5_final_compare', scratch, hdf5=True)
                res = []
                rfmod = ['--RFPhaseModAmplitude', '0.5', '--RFPhaseModFrequency', '6e4', '-N', '1000']      # deterministic modulation, > 4096 steps
                for extra_name, extra, T, na, nb_ in (('plain', [], '1.2', '3', '4'), ('renorm', ['--RenormalizeCharge', '3'], '1.2', '3', '4'),
                                                      ('track', ['--RenormalizeCharge', '2'], '1.2', '3', '4'), ('rfmod', rfmod, '4.3', '100', '30'),
                                                      ('train_with_trailing_gap', ['-I', '1e-3', '6e-4', '0'], '1.2', '3', '4')):
                    a, rca, _ = run(['-T', T, '-n', na] + extra, f'cad_{extra_name}_a')
                    bb, rcb, _ = run(['-T', T, '-n', nb_, '--SavePhaseSpace', '1'] + extra, f'cad_{extra_name}_b')
                    p = subprocess.run([cmpx, a, bb], capture_output=True, text=True, timeout=120) if not isinstance(cmpx, tuple) else None
                    res.append((extra_name, rca, rcb, p.returncode if p else 3, (p.stdout if p else '')[-400:]))
                failed = any(r[1] != 0 or r[2] != 0 or r[3] == 1 for r in res)
                outs.append({'args': [sc], 'exit': 1 if failed else 0, 'stdout': '\n'.join(f'{r[0]}: inovesa exits {r[1]}/{r[2]}; {r[4].strip()}' for r in res)})
            elif sc == 'tracking':
                # C15: the tracked particles start where the tracking file puts them, on a grid whose two axes differ
                tchk = build_harness('h5_tracks_check', scratch, hdf5=True)
                tf = os.path.join(work, 'tracks.txt')
                open(tf, 'w').write(''.join(f'{q_} {p_}\n' for q_, p_ in ((0.0, 0.0), (1.0, -0.5), (-2.0, 1.5), (0.25, 3.0), (-1.5, -2.5), (100.0, -100.0))))
                res = []
                for nm, extra in (('same_axes', []), ('shifted_energy_axis', ['--PhaseSpaceShiftY', '5']), ('shifted_position_axis', ['--PhaseSpaceShiftX', '-4'])):
                    out, rc, so = run(['-T', '0.3', '-n', '1', '--tracking', tf] + extra, 'trk_' + nm)
                    p = subprocess.run([tchk, out, tf], capture_output=True, text=True, timeout=120) if (rc == 0 and not isinstance(tchk, tuple)) else None
                    res.append((nm, rc, p.returncode if p else 3, (p.stdout if p else so)[-400:]))
                failed = any(r[1] != 0 or r[2] == 1 for r in res)
                outs.append({'args': [sc], 'exit': 1 if failed else 0, 'stdout': '\n'.join(f'{r[0]}: inovesa exits {r[1]}; {r[3].strip()}' for r in res)})
            elif sc == 'voltage':
                # C17: an accelerating voltage that does not exceed the radiation loss per turn (no stable bucket: V_eff is not a
                # positive number) must end in a message, not in a hang or a run on NaN parameters
                text, failed = [], False
                for nm, extra in (('far below the loss per turn', ['-V', '1e3']), ('zero', ['-V', '0']), ('ordinary, but a negative momentum compaction factor', ['--alpha0', '-3e-3']),
                                  ('ordinary, but a zero momentum compaction factor', ['--alpha0', '0']), ('ordinary', [])):
                    out = os.path.join(work, 'volt.h5')
                    for ext in ('', '.cfg'):
                        try:
                            os.remove(out + ext)
                        except OSError:
                            pass
                    try:
                        p = subprocess.run([exe, '--run_anyway', '1', '-s', '32', '-N', '10', '-T', '0.1', '-o', out] + extra, capture_output=True, text=True, timeout=30, env=env, cwd=work)
                        rc, so, hung = p.returncode, p.stdout + p.stderr, False
                    except subprocess.TimeoutExpired:
                        rc, so, hung = None, '', True
                    if nm == 'ordinary':
                        ok = (rc == 0 and os.path.exists(out))
                    else:
                        ok = (not hung) and not os.path.exists(out) and ('oltage' in so or 'alpha0' in so)
                    failed |= not ok
                    text.append(f'accelerating voltage {nm}: ' + ('does not end within 30 s' if hung else f'exit {rc}, results file written: {os.path.exists(out)}, last message: {so.strip().splitlines()[-1][-100:] if so.strip() else ""!r}'))
                outs.append({'args': [sc], 'exit': 1 if failed else 0, 'stdout': '\n'.join(text)})
            elif sc == 'options':
                # C20: precedence command line > config file > default, legacy names, compatibility-only names, refusals
                def cfgval(fn, key):
                    try:
                        for l in open(fn):
                            if l.startswith(key + '='):
                                return l.strip().split('=', 1)[1]
                    except OSError:
                        pass
                    return None
                text = []
                failed = False
                cur = os.path.join(work, 'current.cfg'); open(cur, 'w').write('StepsPerTs=1500\nSynchrotronFrequency=9000\nAcceleratingVoltage=1.5e6\noutstep=7\n')
                leg = os.path.join(work, 'legacy.cfg'); open(leg, 'w').write('steps=1500\nSyncFreq=9000\nRFVoltage=1.5e6\noutstep=7\n')
                comp = os.path.join(work, 'compat.cfg'); open(comp, 'w').write('outstep=7\nRotationType=2\nHaissinskiIterations=5\nInitialDistParam=3\nSaveSourceMap=1\n')
                plain = os.path.join(work, 'plain.cfg'); open(plain, 'w').write('outstep=7\n')
                want = {'given on the command line': (['-N', '700', '-f', '8000', '-V', '1.1e6'], {'StepsPerTs': 700.0, 'SynchrotronFrequency': 8000.0, 'AcceleratingVoltage': 1.1e6, 'outstep': 7.0}),
                        'given in the config file only': ([], {'StepsPerTs': 1500.0, 'SynchrotronFrequency': 9000.0, 'AcceleratingVoltage': 1.5e6, 'outstep': 7.0})}
                for cname, cfile in (('current names', cur), ('legacy names', leg)):
                    for wname, (extra, exp) in want.items():
                        out, rc, so = run(['-T', '0.011', '-c', cfile] + extra, f'opt_{cname[:3]}_{len(extra)}', base=['--run_anyway', '1', '-s', '32'])
                        got = {k: cfgval(out + '.cfg', k) for k in exp}
                        bad_ = [k for k in exp if got[k] is None or abs(float(got[k]) - exp[k]) > 1e-6 * abs(exp[k])]
                        # the value the run USED (not only the one it recorded): the time axis counts in units of 1/StepsPerTs
                        crc, cso = check(out, exp['StepsPerTs'], int(exp['outstep']), 0.011, axis_only=True) if rc == 0 else (1, 'run failed')
                        if rc != 0 or bad_ or crc == 1:
                            failed = True
                        text.append(f'config with {cname}, options {wname}: exit {rc}, effective values {got}' + (f' — expected {exp}' if bad_ else '') + (f'; time axis against {exp["StepsPerTs"]:.0f} steps per period: {cso.strip()[-160:]}' if crc == 1 else ''))
                # a list option given on the command line AND in the config file: the command line wins, nothing is appended
                lst = os.path.join(work, 'list.cfg'); open(lst, 'w').write('BunchCurrent=0.002\nBunchCurrent=0.0005\noutstep=7\n')
                out, rc, so = run(['-T', '0.011', '-c', lst, '-I', '0.001'], 'opt_list', base=['--run_anyway', '1', '-s', '32', '-N', '10'])
                try:
                    got_l = [l.strip().split('=', 1)[1] for l in open(out + '.cfg') if l.startswith('BunchCurrent=')]
                except OSError:
                    got_l = None
                if rc != 0 or got_l is None or len(got_l) != 1 or abs(float(got_l[0]) - 0.001) > 1e-9:
                    failed = True
                text.append(f'BunchCurrent 0.001 on the command line, two values in the config file: exit {rc}, effective list {got_l}')
                # default when given nowhere
                out, rc, so = run(['-T', '0.01'], 'opt_default')
                dflt = cfgval(out + '.cfg', 'outstep')
                text.append(f'no config, no -n: outstep={dflt}')
                # compatibility-only options change nothing
                cmpx = build_harness('h5_final_compare', scratch, hdf5=True)
                a, rca, _ = run(['-T', '0.3', '-c', plain], 'opt_plain')
                b2, rcb, _ = run(['-T', '0.3', '-c', comp], 'opt_compat')
                pc = subprocess.run([cmpx, a, b2], capture_output=True, text=True, timeout=120) if not isinstance(cmpx, tuple) else None
                if rca != 0 or rcb != 0 or (pc is not None and pc.returncode == 1):
                    failed = True
                text.append(f'compatibility-only options in the config file: exits {rca}/{rcb}; {(pc.stdout if pc else "").strip()}')
                # refusals: message, failure status (unknown option / malformed value), nothing simulated
                for nm, args_, need_fail in (('unknown option', ['--nonsense', '1'], True), ('malformed value', ['-s', 'abc'], True), ('unknown option in the config file', ['-c', os.path.join(work, 'bad.cfg')], True),
                                             ('malformed value in the config file', ['-c', os.path.join(work, 'bad2.cfg')], True), ('malformed value under a legacy name in the config file', ['-c', os.path.join(work, 'bad3.cfg')], True),
                                             ('missing config file', ['-c', os.path.join(work, 'does_not_exist.cfg')], False)):
                    open(os.path.join(work, 'bad.cfg'), 'w').write('NoSuchOption=1\n')
                    open(os.path.join(work, 'bad2.cfg'), 'w').write('outstep=abc\n')
                    open(os.path.join(work, 'bad3.cfg'), 'w').write('steps=12.5.1\n')
                    out, rc, so = run(['-T', '0.01'] + args_, 'opt_refuse')
                    created = os.path.exists(out)
                    ok = (not created) and len(so.strip()) > 0 and (rc != 0 if need_fail else True)
                    if not ok:
                        failed = True
                    text.append(f'{nm}: exit {rc}, message: {so.strip()[-80:]!r}, results file created: {created}')
                outs.append({'args': [sc], 'exit': 1 if failed else 0, 'stdout': '\n'.join(text)})
            elif sc == 'restart':
                # C11: T1 then a continuation from the last record (and from a chosen record) against the uninterrupted run
                cmpx = build_harness('h5_final_compare', scratch, hdf5=True)
                res = []
                for nm, extra in (('renorm0', []), ('norenorm', ['--RenormalizeCharge', '-1']), ('renorm7', ['--RenormalizeCharge', '7']),
                                  ('no_intermediate_output', ['-n', '0', '--SavePhaseSpace', '0'])):      # start file with 2 phase-space records and 1 output record
                    common = ['-s', '64', '-N', '100'] + ([] if '-n' in extra else ['-n', '25', '--SavePhaseSpace', '1']) + ['-I', '2e-3'] + extra
                    full, rc0, _ = run(common + ['-T', '2'], f'rs_{nm}_full')
                    first, rc1, _ = run(common + ['-T', '1'], f'rs_{nm}_first')
                    cont, rc2, _ = run(common + ['-T', '1', '-i', first], f'rs_{nm}_cont')
                    p = subprocess.run([cmpx, full, cont, '5e-5'], capture_output=True, text=True, timeout=120) if not isinstance(cmpx, tuple) else None
                    res.append((nm, (rc0, rc1, rc2), p.returncode if p else 3, (p.stdout if p else '')[-300:]))
                failed = any(any(r[1]) or r[2] == 1 for r in res)
                text = [f'{r[0]}: inovesa exits {r[1]}; {r[3].strip()}' for r in res]
                # the refusal half: a start file that cannot be used is named in a message and nothing is simulated
                notfile = os.path.join(work, 'not_a_results_file.h5'); open(notfile, 'w').write('this is not HDF5\n')
                adir = os.path.join(work, 'a_directory.h5'); os.makedirs(adir, exist_ok=True)
                for nm, sf in (('missing start file', os.path.join(work, 'no_such_file.h5')), ('start file that is not HDF5', notfile), ('directory as start file', adir)):
                    out, rc, so = run(['-s', '64', '-N', '100', '-T', '0.1', '-i', sf], 'rs_refuse')
                    simulated = os.path.exists(out) or 'Starting the simulation' in so
                    named = os.path.basename(sf) in so
                    if simulated or not named:
                        failed = True
                    text.append(f'{nm}: exit {rc}, file named in a message: {named}, simulated anyway: {simulated}')
                outs.append({'args': [sc], 'exit': 1 if failed else 0, 'stdout': '\n'.join(text)})
            elif sc == 'interrupt':
                worst = 0
                text = []
                for delay, nout in (('installed', 50), (0.3, 50), (0.8, 50), (0.5, 0)):      # outstep 0: no regular output, only the final record
                    out, rc, so = run(['-s', '64', '-T', '400', '-N', '1000', '-n', str(nout)], f'int_{delay if isinstance(delay, str) else int(delay * 10)}_{nout}', interrupt_after=delay)
                    said = 'Aborted.' in so
                    crc, cso = check(out, 1000, nout, 400) if os.path.exists(out) else (1, 'no results file')
                    ok = rc == 0 and said and crc == 0
                    worst |= 0 if ok else 1
                    text.append(f'SIGINT after {delay}{"" if isinstance(delay, str) else "s"} (outstep {nout}): exit {rc}, reported aborted: {said}, file: {cso.strip()[-200:]}')
                outs.append({'args': [sc], 'exit': worst, 'stdout': '\n'.join(text)})
        except Exception as e:
            outs.append({'args': [sc], 'exit': 'error', 'stdout': f'{type(e).__name__}: {e}'})
    confirmed = any(o_['exit'] == 1 for o_ in outs)
    return {'built': True, 'runs': outs, 'confirmed': confirmed}
