"""Verdict logic, known findings, native replay, evidence files."""
import json, os, subprocess, time, hashlib, shutil

VERIF = os.path.dirname(os.path.dirname(os.path.abspath(__file__)))
REPO = os.environ.get('VERIF_REPO', '/repo')

REPLAY_FLAGS = ['-std=c++14', '-O1', '-w', '-fno-access-control', '-DINOVESA_ALLOW_PS_RESET=1',
                '-DGIT_BRANCH="v"', '-DGIT_COMMIT="0"', '-DINOVESA_ENABLE_INTERRUPT=1',
                '-DINOVESA_USE_OPENCL=0', '-DINOVESA_USE_OPENGL=0', '-DINOVESA_USE_PNG=0']
REPLAY_LIBS = ['-lboost_filesystem', '-lboost_system', '-lboost_program_options', '-lfftw3f', '-lfftw3']
HDF5_INC = ['-I/usr/include/hdf5/serial']
HDF5_LIBS = ['-L/usr/lib/x86_64-linux-gnu/hdf5/serial', '-lhdf5_cpp', '-lhdf5']


def build_harness(name, scratch, hdf5=False):
    """compile /verif/replay/<name>.cpp against the current /repo tree; returns path or None"""
    out = os.path.join(scratch, name)
    if os.path.exists(out):
        return out
    cfgdir = os.path.join(REPO, '_build')
    incs = ['-I' + os.path.join(REPO, 'inc'), '-I' + os.path.join(REPO, 'src')]
    if os.path.exists(os.path.join(cfgdir, 'InovesaConfig.hpp')):
        incs.insert(0, '-I' + cfgdir)
    else:
        incs.insert(0, '-I' + os.path.join(scratch, 'cfg'))
    cmd = ['g++'] + REPLAY_FLAGS + ['-DINOVESA_USE_HDF5=%d' % (1 if hdf5 else 0)] + incs + (HDF5_INC if hdf5 else []) + \
          [os.path.join(VERIF, 'replay', name + '.cpp'), '-o', out] + REPLAY_LIBS + (HDF5_LIBS if hdf5 else [])
    p = subprocess.run(cmd, capture_output=True, text=True)
    if p.returncode != 0:
        return None, p.stderr[-3000:]
    return out


def run_replay(spec, scratch):
    """spec: {'harness': name, 'args': [...], 'hdf5': bool}; returns dict"""
    r = build_harness(spec['harness'], scratch, spec.get('hdf5', False))
    if isinstance(r, tuple):
        return {'built': False, 'error': r[1], 'confirmed': False}
    outs = []
    confirmed = False
    for args in spec['runs']:
        try:
            env = dict(os.environ, XDG_DATA_HOME=os.path.join(scratch, 'xdg'))        # FFTW wisdom written by the real wrappers stays in the scratch directory
            p = subprocess.run([r] + [str(a) for a in args], capture_output=True, text=True, timeout=900, env=env)
            outs.append({'args': [str(a) for a in args], 'exit': p.returncode, 'stdout': p.stdout[-2000:], 'stderr': p.stderr[-1000:]})
            if p.returncode == 1:
                confirmed = True
                if not spec.get('all'):
                    break
        except subprocess.TimeoutExpired:
            outs.append({'args': [str(a) for a in args], 'exit': 'timeout'})
    return {'built': True, 'runs': outs, 'confirmed': confirmed}


def load_known():
    p = os.path.join(VERIF, 'known_findings.json')
    if not os.path.exists(p):
        return []
    return json.load(open(p)).get('findings', [])


def write_evidence(pid, tier, seed, level, coverage, assumptions, wall, violations):
    evdir = os.environ.get('VERIF_EVIDENCE_DIR') or os.path.join(VERIF, 'evidence')   # seed/refactor tooling redirects it
    os.makedirs(evdir, exist_ok=True)
    ev = {'property_id': pid, 'tier': tier, 'seed': seed, 'level': level, 'coverage': coverage,
          'assumptions': assumptions, 'wall_s': round(wall, 2), 'violations': violations}
    path = os.path.join(evdir, pid + '.json')
    tmp = path + '.tmp'
    json.dump(ev, open(tmp, 'w'), indent=1, default=str)
    os.replace(tmp, path)
    return path
