"""clang JSON AST access for the real /repo sources.

One clang invocation per translation unit with -ast-dump-filter=vfps:: yields every
Inovesa declaration visible in that TU (a few MB).  Nothing is cached across runs.
"""
import json, os, re, subprocess, hashlib

REPO = os.environ.get('VERIF_REPO', '/repo')

GIT_DEFS = ['-DGIT_BRANCH="verif"', '-DGIT_COMMIT="0"']
DEFAULT_DEFS = ['-DINOVESA_ENABLE_INTERRUPT=1', '-DINOVESA_USE_HDF5=1', '-DINOVESA_USE_OPENCL=0',
                '-DINOVESA_USE_OPENGL=0', '-DINOVESA_USE_PNG=0']


class ExtractionError(Exception):
    """Raised for anything that makes a unit undecidable (exit 2), never a violation."""


def build_flags(scratch):
    """-D/-I flags: from /repo/_build/build.ninja when present, else the documented list.
    InovesaConfig.hpp from _build when present, else generated from the .in template."""
    defs = list(DEFAULT_DEFS)
    incs = ['-I' + os.path.join(REPO, 'inc'), '-I/usr/include/hdf5/serial']
    src = 'default list'
    ninja = os.path.join(REPO, '_build', 'build.ninja')
    if os.path.exists(ninja):
        for line in open(ninja, errors='replace'):
            line = line.strip()
            if line.startswith('DEFINES =') and 'INOVESA_USE_HDF5' in line:
                got = [t for t in line.split()[2:] if t.startswith('-DINOVESA')]
                if got:
                    defs = got
                    src = 'build.ninja'
                break
    cfg = os.path.join(REPO, '_build', 'InovesaConfig.hpp')
    if os.path.exists(cfg):
        incs.insert(0, '-I' + os.path.join(REPO, '_build'))
    else:
        tmpl = os.path.join(REPO, 'InovesaConfig.hpp.in')
        out = os.path.join(scratch, 'cfg')
        os.makedirs(out, exist_ok=True)
        txt = open(tmpl).read() if os.path.exists(tmpl) else ''
        txt = re.sub(r'@[A-Za-z_0-9]+@', '0', txt)
        txt = txt.replace('#cmakedefine', '// #cmakedefine')
        open(os.path.join(out, 'InovesaConfig.hpp'), 'w').write(txt)
        incs.insert(0, '-I' + out)
    return defs + GIT_DEFS, incs, src


def _stream(s):
    dec = json.JSONDecoder()
    i, n = 0, len(s)
    while i < n:
        while i < n and s[i].isspace():
            i += 1
        if i >= n:
            break
        d, i = dec.raw_decode(s, i)
        yield d


class TU:
    """All vfps:: declarations of one translation unit."""

    def __init__(self, relpath, scratch, extra_filter='vfps::'):
        self.relpath = relpath
        self.path = os.path.join(REPO, relpath)
        if not os.path.exists(self.path):
            raise ExtractionError(f'source file missing: {relpath}')
        self.scratch = scratch
        defs, incs, self.flagsrc = build_flags(scratch)
        self.cmd = ['clang++', '-fsyntax-only', '-std=c++14', '-w'] + incs + defs + \
                   ['-Xclang', '-ast-dump=json', '-Xclang', '-ast-dump-filter=' + extra_filter, self.path]
        p = subprocess.run(self.cmd, capture_output=True, text=True)
        if p.returncode != 0:
            raise ExtractionError(f'clang failed on {relpath}: {p.stderr[-2000:]}')
        self.sha = hashlib.sha256(open(self.path, 'rb').read()).hexdigest()[:16]
        self.docs = list(_stream(p.stdout))
        if not self.docs:
            raise ExtractionError(f'clang produced no declarations for {relpath}')
        self.byid = {}
        self.qual = {}        # id -> qualified name
        self.funcs = {}       # qualified name -> [decl with body]
        self.mangled = {}     # mangled -> decl with body
        self.enumval = {}     # id -> int
        self.records = {}     # qualified name -> record decl (definition)
        self.globals = {}     # id -> qualified name for namespace/static vars
        for d in self.docs:
            self._index(d, self._ctxname(d))

    def _ctxname(self, d):
        pid = d.get('parentDeclContextId')
        if pid and pid in self.qual:
            return self.qual[pid]
        return 'vfps' if self.cmd[-2].endswith('vfps::') else ''

    def _index(self, n, ctx):
        if not isinstance(n, dict):
            return
        k = n.get('kind', '')
        nid = n.get('id')
        name = n.get('name')
        q = ctx
        if nid:
            self.byid[nid] = n
        if k.endswith('Decl') and name:
            q = ctx + '::' + name if ctx else name
            if nid:
                self.qual[nid] = q
                # out-of-line definitions refer back to the in-class declaration
                if n.get('previousDecl'):
                    self.qual.setdefault(n['previousDecl'], q)
        if k in ('CXXRecordDecl', 'ClassTemplateSpecializationDecl') and n.get('completeDefinition') and name:
            self.records[q] = n       # (anonymous nested structs have no name of their own: they must not replace their parent)
        if k in ('FunctionDecl', 'CXXMethodDecl', 'CXXConstructorDecl', 'CXXDestructorDecl', 'CXXConversionDecl'):
            if any(c.get('kind') in ('CompoundStmt', 'CXXTryStmt') for c in n.get('inner', [])):
                self.funcs.setdefault(q, []).append(n)
                if n.get('mangledName'):
                    self.mangled[n['mangledName']] = n
        if k == 'EnumConstantDecl':
            v = self._constval(n)
            if v is not None:
                self.enumval[nid] = v
        if k == 'EnumDecl':
            # implicit values
            nxt = 0
            for c in n.get('inner', []):
                if c.get('kind') == 'EnumConstantDecl':
                    v = self._constval(c)
                    if v is None:
                        v = nxt
                    self.enumval[c['id']] = v
                    nxt = v + 1
            # unscoped enums inject into the enclosing scope; scoped use own name
            subctx = q if name else ctx
            for c in n.get('inner', []):
                self._index(c, subctx)
            return
        if k == 'VarDecl' and nid:
            self.globals[nid] = q
        if k in ('ClassTemplateDecl',):
            for c in n.get('inner', []):
                self._index(c, ctx)
            return
        for c in n.get('inner', []) or []:
            if isinstance(c, dict) and c.get('kind', '').endswith('Decl'):
                self._index(c, q if k in ('CXXRecordDecl', 'ClassTemplateSpecializationDecl', 'NamespaceDecl', 'EnumDecl') else ctx)
            elif isinstance(c, dict) and k in ('FunctionDecl', 'CXXMethodDecl', 'CXXConstructorDecl'):
                self._index_ids(c)

    def _index_ids(self, n):
        if not isinstance(n, dict):
            return
        if n.get('id'):
            self.byid[n['id']] = n
        for c in n.get('inner', []) or []:
            self._index_ids(c)

    def _constval(self, n):
        for c in n.get('inner', []) or []:
            if c.get('kind') == 'ConstantExpr' and 'value' in c:
                v = c['value']
                return {'false': 0, 'true': 1}.get(v, None) if v in ('false', 'true') else int(v)
            if c.get('kind') == 'IntegerLiteral':
                return int(c['value'])
            v = self._constval(c) if c.get('kind') in ('ImplicitCastExpr', 'ConstantExpr') else None
            if v is not None:
                return v
        return None

    def function(self, qualname, mangled=None, nparams=None, sig=None):
        if sig:
            # one instantiation of a template, chosen by a piece of its signature
            c = [d for d in self.funcs.get(qualname, []) if sig in d.get('type', {}).get('qualType', '')]
            if len(c) != 1:
                raise ExtractionError(f'{qualname}: expected exactly one definition with "{sig}" in its signature in {self.relpath}, found {len(c)}')
            return c[0]
        if mangled:
            d = self.mangled.get(mangled)
            if d is None:
                raise ExtractionError(f'{qualname}: no definition with mangled name {mangled} in {self.relpath}')
            return d
        c = self.funcs.get(qualname, [])
        if nparams is not None:
            c = [d for d in c if len(params(d)) == nparams]
        if len(c) != 1:
            raise ExtractionError(f'{qualname}: expected exactly one definition in {self.relpath}, found {len(c)}')
        return c[0]


def params(fn):
    return [c for c in fn.get('inner', []) if c.get('kind') == 'ParmVarDecl']


def body(fn):
    for c in fn.get('inner', []):
        if c.get('kind') in ('CompoundStmt', 'CXXTryStmt'):
            return c
    raise ExtractionError('function without body: ' + str(fn.get('name')))


def ctor_inits(fn):
    return [c for c in fn.get('inner', []) if c.get('kind') == 'CXXCtorInitializer']


def line_of(n):
    """best-effort source line (clang elides repeated lines)"""
    for key in ('loc', 'range'):
        v = n.get(key, {})
        if key == 'range':
            v = v.get('begin', {})
        if 'line' in v:
            return v['line']
        if 'expansionLoc' in v and 'line' in v['expansionLoc']:
            return v['expansionLoc']['line']
        if 'spellingLoc' in v and 'line' in v['spellingLoc']:
            return v['spellingLoc']['line']
    return None


def src_range(fn, path):
    """(first,last) line of a function definition found by its begin offset."""
    try:
        b = fn['range']['begin']
        e = fn['range']['end']
        off_b = b.get('offset', b.get('expansionLoc', {}).get('offset'))
        off_e = e.get('offset', e.get('expansionLoc', {}).get('offset'))
        data = open(path, 'rb').read()
        return data[:off_b].count(b'\n') + 1, data[:off_e].count(b'\n') + 1
    except Exception:
        return None, None
