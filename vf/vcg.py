"""Verification-condition generator: symbolic execution of clang's typed AST of the real
functions, loops cut by invariants, calls replaced by contracts, safety obligations
generated automatically.  Ideal arithmetic: float/double are z3 Reals, source literals exact;
machine integers are mathematical Ints with wrap modelled exactly for +,- and casts and a
no-overflow obligation for signed arithmetic and for unsigned multiplication."""
import z3
from fractions import Fraction
from .types import *
from .state import *
from .ast import ExtractionError, params, body, ctor_inits, line_of
from . import models

I = z3.IntVal
DEFAULT = object()


def R(x):
    if isinstance(x, Fraction):
        return z3.RealVal(x.numerator) / z3.RealVal(x.denominator) if x.denominator != 1 else z3.RealVal(x.numerator)
    return z3.RealVal(x)


# ------------------------------------------------------------------ lvalues
class LVar:
    def __init__(self, vid):
        self.vid = vid


class LScal:
    def __init__(self, path, ct):
        self.path, self.ct = path, ct


class LElem:
    def __init__(self, region, idx, leaf, ct, checked=False):
        self.region, self.idx, self.leaf, self.ct, self.checked = region, idx, leaf, ct, checked


class LSub:
    def __init__(self, base, field):
        self.base, self.field = base, field


class LField:
    """pointer-valued member (this->p): readable and assignable"""

    def __init__(self, path, ct):
        self.path, self.ct = path, ct


class LObj:
    def __init__(self, ref):
        self.ref = ref


class ElemInv:
    """precondition of the form: for every index k of `region`, P(k, region[k].leaf).
    Enforce mode: assumed exactly at the loads (while the region is unmodified);
    call sites: proved for a fresh k.  No quantifier reaches the solver."""

    def __init__(self, region, leaf, kind, fn):
        self.region, self.leaf, self.kind, self.fn = region, leaf, kind, fn


class LoopSpec:
    def __init__(self, inv=None, unroll=None, variant=None, tags=None, extra_havoc=(), hints=None):
        self.inv, self.unroll, self.variant, self.tags, self.extra_havoc = inv, unroll, variant, tags, extra_havoc
        self.hints = hints      # proof hints: each is proved (given the earlier ones), then assumed
        self.split = None       # optional case split of the step obligations: fn(cx_end, cx_begin) -> [(label, cond)]
        self.exit_effect = None # fn(cx) run on the state that leaves the loop (ghost bookkeeping)
        self.defs = None        # unfolding instances of spec-function definitions: fn(cx_end, cx_begin) -> [formula] (assumed)


class Ctx:
    """what spec formulas see: the current state, the function-entry state, names"""

    def __init__(self, ex, st, old=None, args=None, this=None, ret=None):
        self.ex, self.st, self._old, self.args, self.this, self.ret = ex, st, old, args or {}, this, ret
        self.ghost = ex.ghosts

    @property
    def old(self):
        return Ctx(self.ex, self._old, self._old, self.args, self.this)

    def v(self, name):
        """value term of the innermost local/param with this source name"""
        hit = None
        for vid, nm in self.st.names.items():
            if nm == name and vid in self.st.env:
                hit = vid
        if hit is None:
            if name in self.args:
                return self._term(self.args[name])
            raise ExtractionError(f'spec refers to local "{name}" which is not in scope (renamed?)')
        return self._term(self.st.env[hit])

    def val(self, name):
        hit = None
        for vid, nm in self.st.names.items():
            if nm == name and vid in self.st.env:
                hit = self.st.env[vid]
        if hit is None:
            raise ExtractionError(f'spec refers to local "{name}" which is not in scope (renamed?)')
        return hit

    def arg(self, name):
        if name not in self.args:
            raise ExtractionError(f'spec refers to parameter "{name}" which does not exist (renamed?)')
        return self.args[name]

    def a(self, name):
        return self._term(self.arg(name))

    @staticmethod
    def _term(v):
        if isinstance(v, (IntV, RealV, BoolV)):
            return v.t
        return v

    def R(self, path):
        """resolve 'this' and object aliases (shared_ptr members bound to other objects) in a path"""
        if path.startswith('='):
            path = path[1:]          # literal path of a caller object (no 'this' substitution)
        elif self.this and path.startswith('this.'):
            path = self.this + path[4:]
        for _ in range(6):
            changed = False
            # longest aliased prefix ending before a '.'
            pos = [i for i, ch in enumerate(path) if ch in '.[']
            for i in reversed(pos):
                pre = path[:i]
                v = self.st.scal.get(pre)
                if isinstance(v, ObjRef) and v.name != pre:
                    path = v.name + path[i:]
                    changed = True
                    break
            if not changed:
                break
        return path

    def f(self, path, kind='int'):
        """scalar field / global by path, e.g. 'this._ip' (created lazily with declared kind)"""
        path = self.R(path)
        if path not in self.st.scal:
            ct = parse_type_str({'int': 'unsigned int', 'real': 'float', 'bool': 'bool', 'u8': 'unsigned char', 'u64': 'unsigned long', 'i32': 'int'}[kind])
            self.ex.new_scalar(self.st, path, ct)
        return self._term(self.st.scal[path])

    def rf(self, path):
        return self.f(path, 'real')

    def arr(self, region, leaf='', kind='real'):
        region = self.R(region)
        ct = parse_type_str('float' if kind == 'real' else 'unsigned int')
        return self.st.array(region, leaf, ct)

    def sel(self, region, idx, leaf='', kind='real'):
        return z3.Select(self.arr(region, leaf, kind), idx)

    def psel(self, ptr, idx, leaf='', kind='real'):
        """read through a pointer value"""
        if self.this and ptr.region and ptr.region.startswith('this.'):
            pass
        return z3.Select(self.st.array(ptr.region, leaf, parse_type_str('float' if kind == 'real' else 'unsigned int')), ptr.off + idx)

    def len(self, region):
        region = self.R(region)
        return self.st.len_of(region)

    def elem_fact(self, region, leaf, idx, kind='real'):
        """instance, at index idx, of an element-wise precondition (ElemInv) of the unit under verification;
        it speaks about the array as it was at function entry"""
        region = self.R(region)
        inv = (self.ex.elem_inv or {}).get((region, leaf))
        if inv is None:
            raise ExtractionError(f'no element invariant for {region}.{leaf}')
        e = Ctx(self.ex, self.ex.entry, self.ex.entry, self.args, self.this)
        return inv(self.ex.entry, idx, e.sel(region, idx, leaf, kind))

    def pre_arr(self, region, leaf='', kind='real'):
        """array as it was when the current loop was entered"""
        return Ctx(self.ex, self.pre, self._old, self.args, self.this).arr(region, leaf, kind)

    def g(self, name):
        return self.ghost[name]

    def range_index(self, k=1):
        """hidden index of the k-th range-for loop of the unit"""
        return self.st.scal[f'ghost.range{k}'].t

    def ghost_of(self, name):
        """ghost of the unit being verified (for instantiating a callee's ghosts at a call site)"""
        return self.ex.unit_ghosts[name]


def _walk_ast(n):
    if isinstance(n, dict):
        yield n
        for c in n.get('inner', []) or []:
            yield from _walk_ast(c)


class Exec:
    def __init__(self, tu, fn, unit, loader=None):
        self.tu, self.fn, self.unit, self.loader = tu, fn, unit, loader
        self.obls = []
        self.ghosts = {}
        self.safe_n = 0
        self.loopcount = {}
        self.writes = None          # set of ('r',region)/('s',path)/('v',vid) while logging
        self.quiet = 0              # >0: obligations discarded (dry runs)
        self.loop_writes = {}       # id(loop node) -> write set
        self.entry = None
        self.default_tags = set()
        self.assigns = None         # enforce-mode frame: list of targets
        self.thisname = 'this'
        self.newcount = 0
        self.inline_depth = 0
        self.notes = []
        self.used_models = set()
        self.ideal = False
        self.curline = None
        self.scope_stack = []
        self.randoms = []
        self.fft_log = []
        self.def_unfoldings = 0

    # -------------------------------------------------------------- obligations
    def oblig(self, st, name, goal, kind, tags=None, note=''):
        if self.quiet:
            return
        if z3.is_true(z3.simplify(goal)):
            # trivially true obligations are still counted (discharged syntactically)
            o = Obligation(f'{self.unit}#{name}', tags or self.default_tags, [], z3.BoolVal(True), kind, self.curline, note)
            o.result, o.solver = 'proved', 'simplify'
            self.obls.append(o)
            return
        o = Obligation(f'{self.unit}#{name}', tags if tags is not None else self.default_tags, st.pc, goal, kind, self.curline, note)
        self.obls.append(o)

    _arith_cache = {}

    def arith_only(self, e):
        """no arrays, recursive or uninterpreted functions, quantifiers: pure integer/real arithmetic"""
        key = e.get_id()
        c = Exec._arith_cache.get(key)
        if c is not None and c[1].eq(e):
            return c[0]
        ok = True
        if z3.is_quantifier(e) or z3.is_var(e):
            ok = False
        elif z3.is_app(e):
            k = e.decl().kind()
            if k in (z3.Z3_OP_SELECT, z3.Z3_OP_STORE, z3.Z3_OP_CONST_ARRAY, z3.Z3_OP_RECURSIVE) or (k == z3.Z3_OP_UNINTERPRETED and e.num_args() > 0) \
                    or e.decl().name() in ('SUMPROD', 'SUMARR', 'SUMSTRIDE', 'SUMVAR'):
                ok = False
            elif z3.is_array(e):
                ok = False
            else:
                for ch in e.children():
                    if not self.arith_only(ch):
                        ok = False
                        break
        Exec._arith_cache[key] = (ok, e)      # keeps e alive so that its id is not reused
        return ok

    def oblig_arith(self, st, name, goal, kind, tags=None):
        """obligation proved from the purely arithmetic part of the path condition only (sound: fewer assumptions)"""
        if self.quiet:
            return
        pc = [a for a in st.pc if self.arith_only(a)]
        o = Obligation(f'{self.unit}#{name}', tags if tags is not None else self.default_tags, pc, goal, kind, self.curline, 'arithmetic context only')
        self.obls.append(o)

    def safe(self, st, what, goal, note=''):
        self.safe_n += 1
        self.oblig(st, f'safe.{what}.L{self.curline}.{self.safe_n}', goal, 'safety', set(getattr(self, 'safety_tags', None) or {'C17'}), note)
        # execution continues only if the operation was defined (assert-then-assume)
        if not z3.is_true(z3.simplify(goal)):
            st.assume(goal)

    # -------------------------------------------------------------- helpers
    def new_scalar(self, st, path, ct):
        if ct.kind == 'int':
            v = IntV(z3.Int(path), ct)
            st.scal[path] = v
            st.assume(range_fact(v.t, ct))
        elif ct.kind == 'float':
            st.scal[path] = RealV(z3.Real(path), ct)
        else:
            raise ExtractionError(f'new_scalar of {ct}')
        return st.scal[path]

    def field(self, st, obj, name, tnode):
        """value/reference of member `name` of object path `obj`"""
        path = f'{obj}.{name}'
        ct = parse_type(tnode)
        if ct.kind in ('int', 'float'):
            if path not in st.scal:
                self.new_scalar(st, path, ct)
            return LScal(path, ct)
        if ct.kind == 'ptr':
            if ct.name in ('std::nullptr_t', 'nullptr_t'):
                return PtrV(None, I(0), ct)
            if ct.pointee.kind == 'class' and not pod_of(ct.pointee.name):
                if path in st.scal:
                    return st.scal[path]
                return ObjRef('*' + path, ct.pointee.name, null=z3.Bool(f'{path}==null'))
            if path in st.scal:
                return st.scal[path]
            return PtrV(path, I(0), ct)
        if ct.kind == 'class':
            k = class_kind(ct.name)
            if k == 'sptr' or k == 'uptr':
                if k == 'uptr' and '[]' in ct.name:
                    return ObjRef(path, ct.name)
                if path in st.scal:
                    return st.scal[path]
                return ObjRef(path, ct.name)
            if pod_of(ct.name):
                return LObj(ObjRef(path, ct.name))
            return ObjRef(path, ct.name)
        if ct.kind == 'carray':
            return PtrV(path, I(0), ct)
        raise ExtractionError(f'unsupported member type {ct} for {path}')

    def wrap(self, t, ct):
        """value of mathematical integer t converted to integer type ct (modular for unsigned,
        and for signed: implementation-defined modular as all supported compilers do)"""
        if ct.bits == 1:
            return z3.If(t != 0, I(1), I(0))
        m = 1 << ct.bits
        s = z3.simplify(t)
        if z3.is_int_value(s):
            v = s.as_long() % m
            if ct.signed and v >= m // 2:
                v -= m
            return I(v)
        if ct.signed:
            return z3.If(z3.And(t >= ct.lo, t <= ct.hi), t, ((t - ct.lo) % m) + ct.lo)
        return z3.If(z3.And(t >= 0, t < m), t, t % m)

    def wrap1(self, t, ct):
        """one-step wrap, exact when -2^w <= t < 2^(w+1) (true for + and - of in-range operands)"""
        m = 1 << ct.bits
        s = z3.simplify(t)
        if z3.is_int_value(s):
            return I(s.as_long() % m)
        return z3.If(t < 0, t + m, z3.If(t >= m, t - m, t))

    # -------------------------------------------------------------- expression evaluation
    def ev(self, n, st):
        """rvalue"""
        self.cur_state = st
        k = n['kind']
        ln = line_of(n)
        if ln:
            self.curline = ln
        m = getattr(self, 'ev_' + k, None)
        if m is None:
            raise ExtractionError(f'{self.unit}: unsupported expression node {k} (line {self.curline})')
        return m(n, st)

    def lv(self, n, st):
        k = n['kind']
        ln = line_of(n)
        if ln:
            self.curline = ln
        m = getattr(self, 'lv_' + k, None)
        if m is None:
            # class-type prvalues used as objects
            v = self.ev(n, st)
            if isinstance(v, ObjRef):
                return LObj(v)
            raise ExtractionError(f'{self.unit}: unsupported lvalue node {k} (line {self.curline})')
        return m(n, st)

    def load(self, l, st, tnode=None):
        if isinstance(l, Val):
            return l
        if isinstance(l, LVar):
            if l.vid not in st.env:
                raise ExtractionError(f'{self.unit}: read of unknown local {st.names.get(l.vid, l.vid)}')
            v = st.env[l.vid]
            if v is None:
                raise ExtractionError(f'{self.unit}: read of uninitialised local {st.names.get(l.vid)} (line {self.curline})')
            fl = st.scal.get(f'init:{l.vid}')
            if fl is not None:
                # a local that is only conditionally assigned (stream extraction): reading it is defined only if it was
                self.safe(st, f'uninitialised-read.{st.names.get(l.vid)}', fl.t, f'local {st.names.get(l.vid)} must have been assigned before it is read')
            return v
        if isinstance(l, LScal):
            return st.scal[l.path]
        if isinstance(l, LField):
            v = st.scal.get(l.path)
            return v if v is not None else PtrV(l.path, I(0), l.ct)
        if isinstance(l, LElem):
            self.check_index(st, l)
            pod = l.ct.kind == 'class' and pod_of(l.ct.name)
            if pod and not l.leaf:
                f = {}
                for leaf, ts in POD[pod].items():
                    lct = parse_type_str(ts)
                    t = z3.Select(st.array(l.region, leaf, lct), l.idx)
                    if lct.kind == 'int':
                        st.assume(range_fact(t, lct))      # typed memory
                    self.apply_elem_inv(st, l.region, leaf, l.idx, t)
                    f[leaf] = IntV(t, lct) if lct.kind == 'int' else RealV(t, lct)
                return StructV(pod, f)
            a = st.array(l.region, l.leaf, l.ct)
            t = z3.Select(a, l.idx)
            self.apply_elem_inv(st, l.region, l.leaf, l.idx, t)
            if l.ct.kind == 'int':
                st.assume(range_fact(t, l.ct))          # typed memory
                return IntV(t, l.ct)
            if l.ct.kind == 'float':
                return RealV(t, l.ct)
            raise ExtractionError(f'load of element type {l.ct}')
        if isinstance(l, LSub):
            b = self.load(l.base, st)
            if isinstance(b, StructV):
                return b.fields[l.field]
            raise ExtractionError('LSub load on non-struct')
        if isinstance(l, LObj):
            pod = pod_of(l.ref.cls)
            if pod:
                f = {}
                for leaf, ts in POD[pod].items():
                    lct = parse_type_str(ts)
                    p = f'{l.ref.name}.{leaf}'
                    if p not in st.scal:
                        self.new_scalar(st, p, lct)
                    f[leaf] = st.scal[p]
                return StructV(pod, f)
            return l.ref
        raise ExtractionError(f'load of {l}')

    def apply_elem_inv(self, st, region, leaf, idx, t):
        inv = self.elem_inv.get((region, leaf)) if self.elem_inv else None
        if inv is None:
            return
        a0 = self.entry.arr.get((region, leaf)) if self.entry is not None else None
        cur = st.arr.get((region, leaf))
        if a0 is not None and cur is not None and cur.eq(a0):
            st.assume(inv(st, idx, t))

    elem_inv = None

    def check_index(self, st, l):
        if l.checked:
            return
        l.checked = True
        ln = st.len_of(l.region)
        self.safe(st, 'index', z3.And(l.idx >= 0, l.idx < ln), f'index into {l.region} within its extent')

    def logw(self, item):
        if self.writes is not None:
            self.writes.add(item)

    def store(self, l, v, st):
        if isinstance(l, LVar):
            st.env[l.vid] = v
            self.logw(('v', l.vid))
            return
        if isinstance(l, LScal):
            st.scal[l.path] = self.coerce(v, l.ct)
            self.logw(('s', l.path))
            self.frame_scalar(st, l.path)
            return
        if isinstance(l, LField):
            if isinstance(v, PtrV) and v.region and v.region.startswith('new:'):
                from .unit import adopt_region
                adopt_region(st, v.region, l.path)
                v = PtrV(l.path, v.off, l.ct)
                self.logw(('r', l.path)); self.logw(('len', l.path))
            st.scal[l.path] = v
            self.logw(('s', l.path))
            self.frame_scalar(st, l.path)
            return
        if isinstance(l, LElem):
            self.check_index(st, l)
            self.logw(('r', l.region))
            self.frame_elem(st, l)
            if isinstance(v, StructV):
                for leaf, fv in v.fields.items():
                    lct = fv.ct
                    a = st.array(l.region, leaf, lct)
                    st.arr[(l.region, leaf)] = z3.Store(a, l.idx, fv.t)
                return
            a = st.array(l.region, l.leaf, l.ct)
            st.arr[(l.region, l.leaf)] = z3.Store(a, l.idx, self.coerce(v, l.ct).t)
            return
        if isinstance(l, LSub):
            b = self.load(l.base, st)
            nb = StructV(b.cls, b.fields)
            nb.fields[l.field] = v
            self.store(l.base, nb, st)
            return
        if isinstance(l, LObj):
            pod = pod_of(l.ref.cls)
            if pod and isinstance(v, StructV):
                for leaf, fv in v.fields.items():
                    p = f'{l.ref.name}.{leaf}'
                    st.scal[p] = fv
                    self.logw(('s', p))
                    self.frame_scalar(st, p)
                return
        if isinstance(l, ObjRef) and l.name.startswith('*') and isinstance(v, models.Plan):
            # FFTW plan handle member: remember which transform on which buffers it stands for
            st.scal[l.name[1:]] = v
            self.logw(('s', l.name[1:]))
            self.frame_scalar(st, l.name[1:])
            return
        if isinstance(l, PtrV) and l.region is None and isinstance(v, PtrV) and v.region is None:
            return      # member of type std::nullptr_t (the OpenCL handle in this build): assigning nullptr changes nothing
        raise ExtractionError(f'store to {l} of {v}')

    def coerce(self, v, ct):
        if ct.kind == 'float' and isinstance(v, IntV):
            return RealV(z3.ToReal(v.t), ct)
        if ct.kind == 'int' and isinstance(v, BoolV):
            return IntV(z3.If(v.t, I(1), I(0)), ct)
        return v

    # frame checks (enforce mode)
    def frame_scalar(self, st, path):
        if self.assigns is None or self.quiet:
            return
        if path.startswith(('tmp:', 'local:', 'heap:')):
            return          # members of temporaries and locals are not visible to the caller
        for t in self.assigns:
            if t[0] == 's' and (t[1] == path or (t[1].endswith('*') and path.startswith(t[1][:-1]))):
                return
        self.oblig(st, f'frame.{path}.L{self.curline}', z3.BoolVal(False), 'frame', self.frame_tags, f'write to {path} outside assigns clause')

    def frame_elem(self, st, l):
        if self.assigns is None or self.quiet:
            return
        if l.region.startswith(('new:', 'local:', 'tmp:', 'heap:')):
            return
        conds = []
        for t in self.assigns:
            if t[0] == 'r' and t[1].endswith('*') and l.region.startswith(t[1][:-1]):
                return
            if t[0] == 'r' and t[1] == l.region:
                if len(t) == 2 or t[2] is None:
                    return
                conds.append(z3.And(l.idx >= t[2], l.idx < t[3]))
        if not conds:
            self.oblig(st, f'frame.{l.region}.L{self.curline}', z3.BoolVal(False), 'frame', self.frame_tags, f'write to {l.region} outside assigns clause')
        else:
            self.safe_n += 1
            self.oblig(st, f'frame.{l.region}.L{self.curline}.{self.safe_n}', z3.Or(*conds), 'frame', self.frame_tags)

    frame_tags = {'C08', 'C12'}

    def frame_range(self, st, region, lo, hi):
        if self.assigns is None or self.quiet:
            return
        if region.startswith(('new:', 'local:', 'tmp:', 'heap:')):
            return
        conds = []
        for t in self.assigns:
            if t[0] == 'r' and t[1].endswith('*') and region.startswith(t[1][:-1]):
                return
            if t[0] == 'r' and t[1] == region:
                if len(t) == 2 or t[2] is None:
                    return
                conds.append(z3.Or(hi <= lo, z3.And(lo >= t[2], hi <= t[3])))
        self.safe_n += 1
        self.oblig(st, f'frame.{region}.L{self.curline}.{self.safe_n}', z3.Or(*conds) if conds else z3.BoolVal(False),
                   'frame', self.frame_tags, f'range write to {region} must stay inside the assigns clause')

    # ---- literals
    def ev_IntegerLiteral(self, n, st):
        return IntV(I(int(n['value'])), parse_type(n['type']))

    def ev_FloatingLiteral(self, n, st):
        self.ideal = True
        return RealV(R(self.literal_value(n)), parse_type(n['type']))

    _srccache = {}

    def literal_value(self, n):
        """the decimal literal as written in the source (A-IDEAL: literals are exact rationals);
        clang's JSON only carries the rounded double"""
        import re, os
        b = n.get('range', {}).get('begin', {})
        b = b.get('spellingLoc', b)
        off, ln = b.get('offset'), b.get('tokLen')
        if off is not None and ln:
            for path in [b.get('file'), self.tu.path] + [os.path.join(root, f) for root in (os.path.join(os.path.dirname(os.path.dirname(self.tu.path)), '..', 'inc'),) for f in ()]:
                if not path or not os.path.exists(path):
                    continue
                data = Exec._srccache.get(path)
                if data is None:
                    data = Exec._srccache[path] = open(path, 'rb').read()
                tok = data[off:off + ln].decode('ascii', 'replace')
                m = re.fullmatch(r'([0-9]*\.?[0-9]*(?:[eE][+-]?[0-9]+)?)[fFlL]?', tok)
                if m and m.group(1) not in ('', '.'):
                    try:
                        v = Fraction(m.group(1))
                        if abs(float(v) - float(n['value'])) <= 1e-6 * max(1.0, abs(float(v))):
                            return v
                    except (ValueError, ZeroDivisionError):
                        pass
        return Fraction(n['value'])

    def ev_CXXBoolLiteralExpr(self, n, st):
        return BoolV(z3.BoolVal(bool(n['value'])))

    def ev_CXXNullPtrLiteralExpr(self, n, st):
        return PtrV(None, I(0), parse_type(n['type']))

    def ev_CharacterLiteral(self, n, st):
        return IntV(I(int(n['value'])), parse_type(n['type']))

    def ev_StringLiteral(self, n, st):
        return Opaque('string:' + n.get('value', ''))

    def lv_StringLiteral(self, n, st):
        return Opaque('string:' + n.get('value', ''))       # a literal decaying to const char*: the text is all that is kept

    def ev_ParenExpr(self, n, st):
        return self.ev(n['inner'][0], st)

    def lv_ParenExpr(self, n, st):
        return self.lv(n['inner'][0], st)

    def ev_ConstantExpr(self, n, st):
        return self.ev(n['inner'][0], st)

    def ev_ExprWithCleanups(self, n, st):
        return self.ev(n['inner'][0], st)

    def lv_ExprWithCleanups(self, n, st):
        return self.lv(n['inner'][0], st)

    def ev_MaterializeTemporaryExpr(self, n, st):
        return self.ev(n['inner'][0], st)

    def lv_MaterializeTemporaryExpr(self, n, st):
        v = self.ev(n['inner'][0], st)
        return LObj(v) if isinstance(v, ObjRef) else v

    def ev_CXXBindTemporaryExpr(self, n, st):
        return self.ev(n['inner'][0], st)

    def ev_CXXDefaultArgExpr(self, n, st):
        if n.get('inner'):
            return self.ev(n['inner'][0], st)
        raise ExtractionError(f'{self.unit}: default argument without expression (line {self.curline})')

    def ev_SubstNonTypeTemplateParmExpr(self, n, st):
        return self.ev(n['inner'][-1], st)

    def ev_CXXThisExpr(self, n, st):
        ct = parse_type(n['type'])
        return ObjRef(self.thisname, ct.pointee.name if ct.pointee else ct.name)

    def ev_UnaryExprOrTypeTraitExpr(self, n, st):
        raise ExtractionError(f'{self.unit}: sizeof/alignof not modelled (line {self.curline})')

    # ---- references
    def lv_DeclRefExpr(self, n, st):
        rd = n['referencedDecl']
        k = rd['kind']
        if k in ('VarDecl', 'ParmVarDecl'):
            vid = rd['id']
            if vid in st.env:
                v = st.env[vid]
                if isinstance(v, (LScal, LElem, LObj, LSub, LVar, LField)):   # reference variable bound to an lvalue
                    return v
                return LVar(vid)
            # global / static member
            q = self.tu.globals.get(vid)
            if q is None:
                # the declaration is not part of this dump (helper dumped by name): take the qualified spelling from the source text
                q = self.spelled_name(n) if getattr(self.tu, 'is_helper', False) else None      # other dumps: the established lookup by name
                if q is None and getattr(self.tu, 'is_helper', False):
                    raise ExtractionError(f'{self.unit}: file-local helper refers to {rd.get("name")} without qualification: which declaration that is cannot be told from a dump by name (line {self.curline})')
                q = q or rd.get('name')
            return self.global_lv(st, q, rd)
        if k == 'EnumConstantDecl':
            return self.enum_const(rd, n)
        if k == 'BindingDecl':
            raise ExtractionError('structured binding')
        raise ExtractionError(f'{self.unit}: DeclRefExpr to {k} {rd.get("name")}')

    def enum_const(self, rd, n):
        v = self.tu.enumval.get(rd['id'])
        if v is None and self.aux_tus:
            tname = strip_quals(n.get('type', {}).get('qualType', '')).split('::')[-1]
            cands = set()
            for tu in self.aux_tus:
                for i_, val in tu.enumval.items():
                    d_ = tu.byid.get(i_, {})
                    if d_.get('name') == rd.get('name') and (not tname or tname in tu.qual.get(i_, '')):
                        cands.add(val)
            if len(cands) == 1:
                v = cands.pop()
        if v is None:
            raise ExtractionError(f'{self.unit}: unknown enum constant {rd.get("name")}')
        return IntV(I(v), parse_type(n['type']))

    def global_lv(self, st, q, rd):
        if q not in models.GLOBAL_ALIAS and ('vfps::PhaseSpace::' + str(q)) in models.GLOBAL_ALIAS:
            q = 'vfps::PhaseSpace::' + q        # dump without class context (main): PhaseSpace::nx and friends
        q = models.GLOBAL_ALIAS.get(q, q)
        ct = parse_type(rd.get('type'))
        if q in ('abort', 'vfps::Display::abort') and not getattr(self, 'plain_abort', False):
            # flag set asynchronously by the SIGINT handler: every read may see it newly set, and it is never cleared
            prev = st.scal.get('ghost.abort_seen')
            b = State.fresh('abort_read', z3.BoolSort())
            if prev is not None:
                st.assume(z3.Implies(prev.t, b))
            st.scal['ghost.abort_seen'] = BoolV(b)
            self.logw(('s', 'ghost.abort_seen'))
            # where in the run this read takes place (control skeleton of main: 0 inside the loop, 1 after it)
            ph = st.scal.get('ghost.phase_after_loop')
            fa = st.scal.get('ghost.final_appends')
            st.scal['ghost.abort_read_phase'] = IntV((ph.t if ph is not None else I(0)) + (fa.t if fa is not None else I(0)), parse_type_str('long'))
            self.logw(('s', 'ghost.abort_read_phase'))
            return BoolV(b)
        if q not in models.CONST_GLOBALS and ('vfps::physcons::' + str(q)) in models.CONST_GLOBALS and ct.kind == 'float':
            q = 'vfps::physcons::' + q       # dump without namespace context (main)
        if q in models.CONST_GLOBALS:
            return RealV(R(models.CONST_GLOBALS[q]), ct)
        if ct.kind in ('int', 'float'):
            if q not in st.scal:
                self.new_scalar(st, q, ct)
            return LScal(q, ct)
        raise ExtractionError(f'{self.unit}: global {q} of type {ct} not modelled')

    def ev_DeclRefExpr(self, n, st):
        l = self.lv_DeclRefExpr(n, st)
        return self.load(l, st)

    def base_obj(self, n, st):
        """object designated by the base expression of a member access"""
        b = n['inner'][0]
        v = self.ev_obj(b, st)
        return v

    def ev_obj(self, b, st):
        """evaluate an expression of class/pointer-to-class type to ObjRef"""
        k = b['kind']
        if k in ('ImplicitCastExpr', 'CXXStaticCastExpr', 'CStyleCastExpr', 'CXXConstCastExpr') and b.get('castKind') in (
                'UncheckedDerivedToBase', 'DerivedToBase', 'NoOp', 'LValueToRValue', 'BaseToDerived', 'ConstructorConversion'):
            return self.ev_obj(b['inner'][0], st)
        if k in ('ParenExpr', 'MaterializeTemporaryExpr', 'ExprWithCleanups', 'CXXBindTemporaryExpr'):
            return self.ev_obj(b['inner'][0], st)
        if k == 'CXXThisExpr':
            return self.ev_CXXThisExpr(b, st)
        if k == 'UnaryOperator' and b['opcode'] == '*':
            return self.ev_obj(b['inner'][0], st)
        l = self.lv(b, st) if b.get('valueCategory') == 'lvalue' or k in ('MemberExpr', 'DeclRefExpr') else self.ev(b, st)
        if isinstance(l, LObj):
            return l.ref
        if isinstance(l, (LVar, LScal, LElem, LSub, LField)):
            v = self.load(l, st)
            if isinstance(v, (ObjRef, StructV, PtrV, SubArr)):
                v._lv = l
                return v
            if isinstance(v, Opaque):
                return v
            raise ExtractionError(f'{self.unit}: base object evaluates to {v} (line {self.curline})')
        return l

    def lv_MemberExpr(self, n, st):
        name = n['name']
        base = self.base_obj(n, st)
        if isinstance(base, StructV):
            l = getattr(base, '_lv', None)
            if l is not None:
                if isinstance(l, LElem):
                    lct = parse_type(n['type'])
                    return LElem(l.region, l.idx, name, lct, l.checked)
                return LSub(l, name)
            return base.fields[name]
        if isinstance(base, ObjRef):
            pod = pod_of(base.cls)
            if pod:
                lct = parse_type(n['type'])
                p = f'{base.name}.{name}'
                if p not in st.scal:
                    self.new_scalar(st, p, lct)
                return LScal(p, lct)
            fct = parse_type(n['type'])
            if fct.kind == 'ptr' and fct.name not in ('std::nullptr_t', 'nullptr_t') and not (fct.pointee.kind == 'class' and not pod_of(fct.pointee.name)):
                return LField(f'{base.name}.{name}', fct)
            r = self.field(st, base.name, name, n['type'])
            return r
        raise ExtractionError(f'{self.unit}: member {name} of {base} (line {self.curline})')

    def ev_MemberExpr(self, n, st):
        l = self.lv_MemberExpr(n, st)
        return self.load(l, st)

    def lv_ArraySubscriptExpr(self, n, st):
        p = self.ev(n['inner'][0], st)
        i = self.ev(n['inner'][1], st)
        if not isinstance(p, PtrV) or not isinstance(i, IntV):
            if isinstance(i, PtrV) and isinstance(p, IntV):
                p, i = i, p
            else:
                raise ExtractionError(f'{self.unit}: subscript of {p} (line {self.curline})')
        if p.region is None:
            self.safe(st, 'nullderef', z3.BoolVal(False))
            raise ExtractionError('null dereference')
        return LElem(p.region, p.off + i.t, '', parse_type(n['type']))

    def ev_ArraySubscriptExpr(self, n, st):
        return self.load(self.lv_ArraySubscriptExpr(n, st), st)

    # ---- casts
    def ev_ImplicitCastExpr(self, n, st):
        return self.cast(n, st)

    ev_CStyleCastExpr = ev_CXXStaticCastExpr = ev_CXXFunctionalCastExpr = ev_CXXReinterpretCastExpr = ev_CXXConstCastExpr = ev_ImplicitCastExpr

    def lv_ImplicitCastExpr(self, n, st):
        if n.get('castKind') in ('NoOp', 'UncheckedDerivedToBase', 'DerivedToBase'):
            return self.lv(n['inner'][0], st)
        raise ExtractionError(f'lvalue cast {n.get("castKind")}')

    lv_CXXStaticCastExpr = lv_CXXConstCastExpr = lv_ImplicitCastExpr

    def cast(self, n, st):
        ck = n.get('castKind')
        sub = n['inner'][0]
        tgt = parse_type(n['type'])
        if ck == 'LValueToRValue':
            l = self.lv(sub, st)
            return self.load(l, st, n['type'])
        if ck in ('NoOp', 'UncheckedDerivedToBase', 'DerivedToBase', 'ConstructorConversion', 'UserDefinedConversion'):
            if sub.get('valueCategory') == 'lvalue' and tgt.kind == 'class' and not pod_of(tgt.name):
                return self.ev_obj(sub, st)
            return self.ev(sub, st)
        if ck in ('FunctionToPointerDecay', 'BuiltinFnToFnPtr'):
            return Opaque('fn')
        if ck == 'ArrayToPointerDecay':
            l = self.lv(sub, st)
            if isinstance(l, PtrV):
                return l
            v = self.load(l, st) if not isinstance(l, Val) else l
            if isinstance(v, PtrV):
                return v
            if isinstance(v, Opaque):
                return v
            raise ExtractionError(f'array decay of {v}')
        if ck == 'NullToPointer':
            return PtrV(None, I(0), tgt)
        v = self.ev(sub, st)
        if ck == 'IntegralCast':
            v = self.coerce(v, parse_type_str('int')) if isinstance(v, BoolV) else v
            src = v.ct
            if tgt.bits == 1:
                return IntV(z3.If(v.t != 0, I(1), I(0)), tgt)
            if src.lo >= tgt.lo and src.hi <= tgt.hi:
                return IntV(v.t, tgt)
            if src.bits == tgt.bits and src.bits > 1:
                m_ = 1 << tgt.bits
                sv = z3.simplify(v.t)
                if not z3.is_int_value(sv):
                    # same width: one conditional correction, no modulo
                    if tgt.signed:
                        return IntV(z3.If(v.t > tgt.hi, v.t - m_, v.t), tgt)
                    return IntV(z3.If(v.t < 0, v.t + m_, v.t), tgt)
            return IntV(self.wrap(v.t, tgt), tgt)
        if ck == 'IntegralToBoolean':
            return BoolV(v.t != 0)
        if ck == 'FloatingToBoolean':
            return BoolV(v.t != 0)
        if ck == 'PointerToBoolean':
            return BoolV(self.nonnull(v))
        if ck == 'IntegralToFloating':
            if isinstance(v, BoolV):
                v = self.coerce(v, parse_type_str('int'))
            return RealV(z3.ToReal(v.t), tgt)
        if ck == 'FloatingCast':
            return RealV(v.t, tgt)
        if ck == 'FloatingToIntegral':
            self.ideal = True
            tr = z3.If(v.t >= 0, z3.ToInt(v.t), -z3.ToInt(-v.t))
            dv = (self.domain_values or {}).get(self.cur_decl)
            if dv is not None and not self.inline_depth:
                # stated domain assumption on the real value being converted in the initialiser of this local
                # (listed in evidence under domain_assumptions_on_derived_values)
                st.assume(dv[0](Ctx(self, st, self.entry, self.args0), v.t))
            # C++ [conv.fpint]: undefined unless the truncated value is representable
            self.safe(st, 'fptoint', z3.And(tr >= tgt.lo, tr <= tgt.hi), f'float value converted to {tgt.name} must be representable after truncation')
            return IntV(tr, tgt)
        if ck == 'BitCast':
            return v
        if ck == 'ToVoid':
            return VoidV()
        if ck in ('FloatingRealToComplex',):
            return StructV('complex', {'re': v, 'im': RealV(R(0))})
        raise ExtractionError(f'{self.unit}: cast kind {ck} not modelled (line {self.curline})')

    def nonnull(self, v):
        if isinstance(v, PtrV):
            return z3.BoolVal(v.region is not None)
        if isinstance(v, ObjRef):
            return z3.Not(v.null) if v.null is not None else z3.BoolVal(True)
        raise ExtractionError(f'null test of {v}')

    # ---- operators
    def ev_UnaryOperator(self, n, st):
        op = n['opcode']
        sub = n['inner'][0]
        if op in ('++', '--'):
            l = self.lv(sub, st)
            v = self.load(l, st)
            one = 1 if op == '++' else -1
            if isinstance(v, IntV):
                nv = IntV(self.arith_int(st, '+', v.t, I(one), v.ct), v.ct)
            elif isinstance(v, PtrV):
                nv = PtrV(v.region, v.off + one, v.ct, v.path)
            elif isinstance(v, RealV):
                nv = RealV(v.t + one, v.ct)
            else:
                raise ExtractionError(f'++ on {v}')
            self.store(l, nv, st)
            return v if n.get('isPostfix') else nv
        if op == '&':
            l = self.lv(sub, st)
            if isinstance(l, LElem):
                return PtrV(l.region, l.idx, None)
            if isinstance(l, LObj):
                return l.ref
            if isinstance(l, ObjRef):
                return l
            if isinstance(l, LVar) and isinstance(st.env.get(l.vid), ObjRef):
                return st.env[l.vid]
            p = PtrV('&', I(0), None)
            p.target = l
            return p
        if op == '*':
            return self.load(self.lv_UnaryOperator(n, st), st)
        v = self.ev(sub, st)
        if op == '-':
            if isinstance(v, RealV):
                return RealV(-v.t, v.ct)
            ct = parse_type(n['type'])
            return IntV(self.arith_int(st, '-', I(0), v.t, ct), ct)
        if op == '+':
            return v
        if op == '!':
            if isinstance(v, IntV):
                return BoolV(v.t == 0)
            return BoolV(z3.Not(self.tobool(v)))       # pointers / objects: null test; an uninterpreted value is refused (ExtractionError)
        if op == '~':
            ct = parse_type(n['type'])
            return IntV(self.wrap(-v.t - 1, ct), ct)
        raise ExtractionError(f'unary {op}')

    def lv_UnaryOperator(self, n, st):
        op = n['opcode']
        if op == '*':
            p = self.ev(n['inner'][0], st)
            if isinstance(p, ObjRef):
                return LObj(p)
            if isinstance(p, PtrV):
                if getattr(p, 'target', None) is not None:
                    return p.target
                if p.region is None:
                    self.safe(st, 'nullderef', z3.BoolVal(False))
                    raise ExtractionError('null dereference')
                return LElem(p.region, p.off, '', parse_type(n['type']))
            raise ExtractionError(f'deref of {p}')
        if op in ('++', '--') and not n.get('isPostfix'):
            self.ev_UnaryOperator(n, st)
            return self.lv(n['inner'][0], st)
        raise ExtractionError(f'lvalue unary {op}')

    def arith_int(self, st, op, a, b, ct):
        """integer arithmetic in type ct"""
        if op == '+':
            r = a + b
        elif op == '-':
            r = a - b
        elif op == '*':
            r = a * b
        elif op == '/':
            self.safe(st, 'divzero', b != 0)
            if ct.signed:
                # C++ truncating division
                q = z3.If(b > 0, z3.If(a >= 0, a / b, -((-a) / b)), z3.If(a >= 0, -(a / (-b)), (-a) / (-b)))
                return q
            return a / b
        elif op == '%':
            self.safe(st, 'divzero', b != 0)
            if ct.signed:
                q = z3.If(b > 0, z3.If(a >= 0, a / b, -((-a) / b)), z3.If(a >= 0, -(a / (-b)), (-a) / (-b)))
                return a - q * b
            return a % b
        else:
            raise ExtractionError(f'int op {op}')
        if ct.signed:
            self.safe(st, 'signed-overflow', z3.And(r >= ct.lo, r <= ct.hi), f'signed {op} must not overflow {ct.name}')
            return r
        if op == '*':
            self.safe(st, 'unsigned-mul-wrap', r <= ct.hi, f'unsigned product must fit {ct.name} (index arithmetic)')
            return r
        return self.wrap1(r, ct)

    def ev_BinaryOperator(self, n, st):
        op = n['opcode']
        a, b = n['inner']
        if op == '=':
            l = self.lv(a, st)
            v = self.ev(b, st)
            self.store(l, v, st)
            return v
        if op == ',':
            self.ev(a, st)
            return self.ev(b, st)
        if op in ('&&', '||'):
            va = self.tobool(self.ev(a, st))
            s2 = st.copy()
            s2.assume(va if op == '&&' else z3.Not(va))
            nob = len(self.obls)
            vb = self.tobool(self.ev(b, s2))
            # the right operand runs only under the guard: whatever it changed (++n, a stream extraction, ...) is merged back
            # under that guard (it used to be dropped: found by tools_vcg_selftest.py)
            self.adopt_guarded(st, va if op == '&&' else z3.Not(va), s2)
            return BoolV(z3.And(va, vb) if op == '&&' else z3.Or(va, vb))
        va = self.ev(a, st)
        vb = self.ev(b, st)
        return self.binop(st, op, va, vb, parse_type(n['type']))

    def lv_BinaryOperator(self, n, st):
        if n['opcode'] == '=':
            self.ev_BinaryOperator(n, st)
            return self.lv(n['inner'][0], st)
        raise ExtractionError('lvalue binop')

    def tobool(self, v):
        if isinstance(v, BoolV):
            return v.t
        if isinstance(v, IntV):
            return v.t != 0
        if isinstance(v, RealV):
            return v.t != 0
        if isinstance(v, (PtrV, ObjRef)):
            return self.nonnull(v)
        raise ExtractionError(f'condition value {v}')

    def binop(self, st, op, va, vb, rct):
        if isinstance(va, BoolV) and op not in ('==', '!='):
            va = self.coerce(va, parse_type_str('int'))
        if isinstance(vb, BoolV) and op not in ('==', '!='):
            vb = self.coerce(vb, parse_type_str('int'))
        if op in ('<', '>', '<=', '>=', '==', '!='):
            if isinstance(va, (PtrV, ObjRef)) or isinstance(vb, (PtrV, ObjRef)):
                return BoolV(self.ptrcmp(op, va, vb))
            if isinstance(va, StructV) or isinstance(vb, StructV):
                raise ExtractionError('struct comparison')
            x, y = va.t, vb.t
            if isinstance(va, BoolV) and isinstance(vb, BoolV):
                return BoolV(x == y if op == '==' else x != y)
            if isinstance(va, BoolV):
                x = z3.If(x, I(1), I(0))
            if isinstance(vb, BoolV):
                y = z3.If(y, I(1), I(0))
            return BoolV({'<': x < y, '>': x > y, '<=': x <= y, '>=': x >= y, '==': x == y, '!=': x != y}[op])
        if isinstance(va, PtrV) and isinstance(vb, IntV) and op in ('+', '-'):
            return PtrV(va.region, va.off + vb.t if op == '+' else va.off - vb.t, va.ct, va.path)
        if isinstance(vb, PtrV) and isinstance(va, IntV) and op == '+':
            return PtrV(vb.region, vb.off + va.t, vb.ct, vb.path)
        if isinstance(va, PtrV) and isinstance(vb, PtrV) and op == '-':
            if va.region != vb.region:
                raise ExtractionError('pointer difference across regions')
            return IntV(va.off - vb.off, rct)
        if isinstance(va, StructV) or isinstance(vb, StructV):
            return models.complex_binop(self, op, va, vb)
        if rct.kind == 'float' or isinstance(va, RealV) or isinstance(vb, RealV):
            self.ideal = True
            x = z3.ToReal(va.t) if isinstance(va, IntV) else va.t
            y = z3.ToReal(vb.t) if isinstance(vb, IntV) else vb.t
            if op == '+':
                return RealV(x + y, rct)
            if op == '-':
                return RealV(x - y, rct)
            if op == '*':
                return RealV(self.fmul(x, y), rct)
            if op == '/':
                return RealV(self.fdiv(x, y), rct)
            raise ExtractionError(f'float op {op}')
        if op in ('+', '-', '*', '/', '%'):
            return IntV(self.arith_int(st, op, va.t, vb.t, rct), rct)
        if op in ('<<', '>>', '&', '|', '^'):
            return models.bitop(self, st, op, va, vb, rct)
        raise ExtractionError(f'binary operator {op}')

    uf_mul = False

    def fmul(self, x, y):
        """real product; with uf_mul the product of two non-constant terms is an uninterpreted
        (hence more general) function, for units whose obligations only need congruence"""
        if self.uf_mul and not z3.is_rational_value(z3.simplify(x)) and not z3.is_rational_value(z3.simplify(y)):
            r = models.FMUL(x, y)
            if self.uf_mul == 'sign' and self.cur_state is not None:
                # sign rules of multiplication (true of the real product the symbol stands for)
                self.cur_state.assume(z3.And(z3.Implies(z3.And(x >= 0, y >= 0), r >= 0), z3.Implies(z3.And(x <= 0, y <= 0), r >= 0),
                                             z3.Implies(z3.And(x >= 0, y <= 0), r <= 0), z3.Implies(z3.And(x <= 0, y >= 0), r <= 0),
                                             z3.Implies(z3.Or(x == 0, y == 0), r == 0), z3.Implies(z3.And(x != 0, y != 0), r != 0)))
            return r
        return x * y

    cur_state = None
    uf_div = False

    def fdiv(self, x, y):
        """real quotient; with uf_div the quotient by a non-constant is an uninterpreted function with the sign rules
        of division (a sound abstraction: keeps refutations inside linear arithmetic + UF)"""
        if self.uf_div and not z3.is_rational_value(z3.simplify(y)):
            r = models.FDIV(x, y)
            if self.cur_state is not None:
                self.cur_state.assume(z3.And(z3.Implies(z3.And(x >= 0, y > 0), r >= 0), z3.Implies(z3.And(x <= 0, y < 0), r >= 0),
                                             z3.Implies(z3.And(x >= 0, y < 0), r <= 0), z3.Implies(z3.And(x <= 0, y > 0), r <= 0),
                                             z3.Implies(z3.And(x == 0, y != 0), r == 0)))
            return r
        return x / y

    def ptrcmp(self, op, a, b):
        if op not in ('==', '!='):
            if isinstance(a, PtrV) and isinstance(b, PtrV) and a.region == b.region:
                return {'<': a.off < b.off, '>': a.off > b.off, '<=': a.off <= b.off, '>=': a.off >= b.off}[op]
            raise ExtractionError('pointer ordering')
        def isnull(v):
            if isinstance(v, PtrV):
                return z3.BoolVal(v.region is None)
            return v.null if v.null is not None else z3.BoolVal(False)
        if (isinstance(a, PtrV) and a.region is None) or (isinstance(b, PtrV) and b.region is None):
            other = b if (isinstance(a, PtrV) and a.region is None) else a
            e = isnull(other)
            return e if op == '==' else z3.Not(e)
        if isinstance(a, PtrV) and isinstance(b, PtrV):
            e = z3.And(z3.BoolVal(a.region == b.region), a.off == b.off)
            return e if op == '==' else z3.Not(e)
        e = z3.BoolVal(getattr(a, 'name', 1) == getattr(b, 'name', 2))
        return e if op == '==' else z3.Not(e)

    def ev_CompoundAssignOperator(self, n, st):
        op = n['opcode'][:-1]
        l = self.lv(n['inner'][0], st)
        cur = self.load(l, st)
        rhs = self.ev(n['inner'][1], st)
        comp = parse_type_str(n['computeResultType']['desugaredQualType'] if 'desugaredQualType' in n.get('computeResultType', {}) else n.get('computeResultType', {}).get('qualType', n['type'].get('qualType')))
        # E1 op= E2 computes (T)E1 op E2 with T the type the usual arithmetic conversions give: the left operand is CONVERTED first
        # (a negative int64 combined with a uint64 becomes a huge unsigned number -- it matters for / % >> and comparisons)
        lt = n.get('computeLHSType') or {}
        lhs_t = parse_type_str(lt.get('desugaredQualType') or lt.get('qualType')) if (lt.get('desugaredQualType') or lt.get('qualType')) else comp
        if isinstance(cur, IntV) and lhs_t.kind == 'int' and cur.ct is not None and cur.ct.kind == 'int' and not (cur.ct.lo >= lhs_t.lo and cur.ct.hi <= lhs_t.hi):
            cur = IntV(self.wrap(cur.t, lhs_t), lhs_t)
        elif isinstance(cur, IntV) and lhs_t.kind == 'float':
            cur = RealV(z3.ToReal(cur.t), lhs_t)
        r = self.binop(st, op, cur, rhs, comp)
        tgt = parse_type(n['type'])
        if isinstance(r, IntV) and tgt.kind == 'int' and not (comp.lo >= tgt.lo and comp.hi <= tgt.hi):
            r = IntV(self.wrap(r.t, tgt), tgt)
        elif isinstance(r, IntV):
            r = IntV(r.t, tgt)
        elif isinstance(r, RealV) and tgt.kind == 'int':
            raise ExtractionError('compound float->int')
        self.store(l, r, st)
        return r

    lv_CompoundAssignOperator = lambda self, n, st: (self.ev_CompoundAssignOperator(n, st), self.lv(n['inner'][0], st))[1]

    def ev_ConditionalOperator(self, n, st):
        c = self.tobool(self.ev(n['inner'][0], st))
        cs = z3.simplify(c)
        if z3.is_true(cs):
            return self.ev(n['inner'][1], st)
        if z3.is_false(cs):
            return self.ev(n['inner'][2], st)
        s1 = st.copy(); s1.assume(c)
        s2 = st.copy(); s2.assume(z3.Not(c))
        a = self.ev(n['inner'][1], s1)
        b = self.ev(n['inner'][2], s2)
        m = merge_val(c, a, b)
        if m is None:
            raise ExtractionError(f'{self.unit}: conditional operator arms not mergeable (line {self.curline})')
        if self.state_differs(st, s1) or self.state_differs(st, s2):
            # an arm with a side effect: the state after the expression is the arm's state under its condition
            from .state import merge_states
            self.replace_state(st, merge_states(c, s1, s2))
        return m

    @staticmethod
    def state_differs(base, other):
        for d in ('env', 'scal', 'arr', 'length'):
            da, db = getattr(base, d), getattr(other, d)
            for k, v in db.items():
                if k in da and da[k] is not v:
                    va_, vb_ = da[k], v
                    ta, tb = getattr(va_, 't', va_), getattr(vb_, 't', vb_)
                    try:
                        if ta is tb or (hasattr(ta, 'eq') and hasattr(tb, 'eq') and ta.eq(tb)):
                            continue
                    except Exception:
                        pass
                    return True
        return False

    @staticmethod
    def replace_state(st, new):
        for d in ('env', 'scal', 'arr', 'length', 'dims', 'pc', 'ver'):
            setattr(st, d, getattr(new, d))

    def adopt_guarded(self, st, guard, s2):
        """st := (guard ? s2 : st) if evaluating under the guard changed anything"""
        if not self.state_differs(st, s2):
            return
        from .state import merge_states
        keep = st.copy()
        self.replace_state(st, merge_states(guard, s2, keep))

    def lv_ConditionalOperator(self, n, st):
        c = self.tobool(self.ev(n['inner'][0], st))
        cs = z3.simplify(c)
        if z3.is_true(cs):
            return self.lv(n['inner'][1], st)
        if z3.is_false(cs):
            return self.lv(n['inner'][2], st)
        a = self.load(self.lv(n['inner'][1], st), st)
        b = self.load(self.lv(n['inner'][2], st), st)
        m = merge_val(c, a, b)
        if m is None:
            raise ExtractionError(f'{self.unit}: conditional lvalue arms not mergeable (line {self.curline})')
        return m      # read-only use

    # ---- construction
    def ev_InitListExpr(self, n, st):
        ct = parse_type(n['type'])
        pod = pod_of(ct.name)
        kids = n.get('inner', [])
        if not kids and n.get('array_filler'):
            # clang's JSON lists an initialiser list that needs filling as [filler, explicit elements...] under 'array_filler'
            kids = [c for c in n['array_filler'][1:] if isinstance(c, dict)]
        items = [self.ev(c, st) for c in kids]
        if pod:
            names = list(POD[pod])
            if len(items) == 1 and isinstance(items[0], StructV):
                return items[0]
            if len(items) == 1 and isinstance(items[0], list):
                items = items[0]
            f = {}
            for i, nm in enumerate(names):
                lct = parse_type_str(POD[pod][nm])
                v = items[i] if i < len(items) else (IntV(I(0), lct) if lct.kind == 'int' else RealV(R(0), lct))
                f[nm] = self.conv_to(v, lct)
            return StructV(pod, f)
        if ct.kind == 'class' and class_kind(ct.name) == 'stdarray':
            flat = items[0] if len(items) == 1 and isinstance(items[0], list) else items
            if flat and all(isinstance(v, ObjRef) for v in flat):
                # std::array of (smart) pointers built from a braced list: element i refers to the i-th object
                self.tmpcount = getattr(self, 'tmpcount', 0) + 1
                name = f'tmp:array{self.tmpcount}'
                for i_, v in enumerate(flat):
                    st.scal[f'{name}[{i_}]'] = v
                return ObjRef(name, ct.name)
        return items

    def conv_to(self, v, ct):
        if ct.kind == 'float':
            if isinstance(v, IntV):
                return RealV(z3.ToReal(v.t), ct)
            return RealV(v.t, ct)
        if ct.kind == 'int':
            if isinstance(v, BoolV):
                return self.coerce(v, ct)
            return IntV(v.t, ct)
        return v

    def ev_CXXConstructExpr(self, n, st):
        ct = parse_type(n['type'])
        pod = pod_of(ct.name)
        args = n.get('inner', [])
        if pod:
            if len(args) == 1:
                v = self.ev_obj(args[0], st) if args[0].get('valueCategory') == 'lvalue' else self.ev(args[0], st)
                if isinstance(v, ObjRef):
                    v = self.load(LObj(v), st)
                if isinstance(v, StructV):
                    return StructV(v.cls, v.fields)
                if isinstance(v, (RealV, IntV)) and pod == 'complex':
                    return StructV('complex', {'re': self.conv_to(v, parse_type_str('float')), 'im': RealV(R(0))})
                if isinstance(v, list):
                    return self.ev_InitListExpr({'type': n['type'], 'inner': []}, st) if not v else v
            if len(args) == 0:
                return None      # default-initialised POD: indeterminate
            if pod == 'complex' and len(args) == 2 and all(a.get('kind') == 'CXXDefaultArgExpr' and not a.get('inner') for a in args):
                return StructV('complex', {'re': RealV(R(0)), 'im': RealV(R(0))})      # std::complex<T>(): (0,0)
            if pod == 'complex' and len(args) == 2 and args[1].get('kind') == 'CXXDefaultArgExpr' and not args[1].get('inner'):
                return StructV('complex', {'re': self.conv_to(self.ev(args[0], st), parse_type_str('float')), 'im': RealV(R(0))})
            if pod == 'complex' and len(args) == 2:
                return StructV('complex', {'re': self.conv_to(self.ev(args[0], st), parse_type_str('float')),
                                           'im': self.conv_to(self.ev(args[1], st), parse_type_str('float'))})
        if self.calls and ct.kind == 'class':
            # temporary / local object of a class whose constructor is under contract (or bound to an event)
            cn = strip_quals(ct.name)
            use = self.calls.get(f'ctor:{cn}/{len(args)}') or self.calls.get(f'ctor:{cn}')
            if use is not None and len(args) == 1 and strip_quals(parse_type(args[0]['type']).name) == cn:
                # copy / move construction from an object of the same class (usually an elided temporary)
                return self.ev_obj(args[0], st) if args[0].get('valueCategory') in ('lvalue', 'xvalue') else self.ev(args[0], st)
            if use is not None:
                self.tmpcount = getattr(self, 'tmpcount', 0) + 1
                short = cn.split('::')[-1].split('<')[0]
                tname = f'tmp:{self.pending_name or short}{self.tmpcount}'
                if hasattr(use, 'ctor_type'):
                    use.ctor_type = n.get('type', {}).get('qualType')
                r = use(self, n, st, None, args, this_override=tname)
                return r if isinstance(r, ObjRef) else ObjRef(tname, ct.name)
        return models.construct(self, n, st, ct)

    ev_CXXTemporaryObjectExpr = ev_CXXConstructExpr

    def ev_CXXScalarValueInitExpr(self, n, st):
        ct = parse_type(n['type'])
        return IntV(I(0), ct) if ct.kind == 'int' else RealV(R(0), ct)

    ev_ImplicitValueInitExpr = ev_CXXScalarValueInitExpr

    def ev_CXXNewExpr(self, n, st):
        if not n.get('isArray'):
            return models.new_object(self, n, st)
        size = self.ev(n['inner'][0], st)
        self.newcount += 1
        region = f'new:{self.pending_name or self.newcount}'
        st.length[region] = size.t
        # fresh, uninitialised contents
        for key in list(st.arr):
            if key[0] == region:
                del st.arr[key]
        return PtrV(region, I(0), parse_type(n['type']))

    pending_name = None

    def ev_CXXDeleteExpr(self, n, st):
        return VoidV()

    # ---- calls
    def callee_info(self, n):
        c = n['inner'][0]
        while c['kind'] in ('ImplicitCastExpr', 'ParenExpr'):
            c = c['inner'][0]
        return c

    def ev_CallExpr(self, n, st):
        c = self.callee_info(n)
        if c['kind'] != 'DeclRefExpr':
            raise ExtractionError(f'{self.unit}: indirect call (line {self.curline})')
        rd = c['referencedDecl']
        q = self.tu.qual.get(rd['id'], rd.get('name'))
        return self.do_call(n, st, q, rd, None, n['inner'][1:])

    def ev_CXXMemberCallExpr(self, n, st):
        me = n['inner'][0]
        while me['kind'] in ('ParenExpr', 'ImplicitCastExpr'):
            me = me['inner'][0]
        if me['kind'] != 'MemberExpr':
            raise ExtractionError(f'{self.unit}: member call through {me["kind"]}')
        objn = me['inner'][0]
        name = me['name']
        mid = me.get('referencedMemberDecl')
        q = self.tu.qual.get(mid)
        rd = self.tu.byid.get(mid, {'name': name, 'id': mid})
        return self.do_call(n, st, q or name, rd, objn, n['inner'][1:], method=name)

    def scan_divisions(self, n, st):
        """an expression whose value is not modelled (text being built for a message, ...): every integer division or remainder in it
        still has to be defined — a safety obligation per divisor that can be evaluated"""
        seen = getattr(self, '_scanned_div', None)
        if seen is None:
            seen = self._scanned_div = set()
        for x in _walk_ast(n):
            if x.get('kind') in ('BinaryOperator', 'CompoundAssignOperator') and x.get('opcode') in ('/', '%', '/=', '%=') and x.get('id') not in seen:
                t = parse_type(x.get('type')) if x.get('type') else None
                if t is None or t.kind != 'int':
                    continue
                seen.add(x.get('id'))
                ln = line_of(x)
                if ln:
                    self.curline = ln
                try:
                    d = self.ev(x['inner'][1], st)
                except ExtractionError:
                    continue
                if isinstance(d, IntV):
                    self.safe(st, 'divzero', d.t != 0, 'integer division or remainder inside an expression that builds a message text')

    def ev_LambdaExpr(self, n, st):
        """a local lambda: its call operator is executed in place when the closure is called (see ev_CXXOperatorCallExpr).
        Captures by reference and `this` need nothing (the body refers to the captured variables' own declarations); a capture
        by copy is accepted only for variables that cannot change afterwards (const-qualified)"""
        ops = [m_ for m_ in _walk_ast(n) if m_.get('kind') == 'CXXMethodDecl' and m_.get('name') == 'operator()' and any(c.get('kind') == 'CompoundStmt' for c in m_.get('inner', []))]
        if len(ops) != 1:
            raise ExtractionError(f'{self.unit}: lambda without a single call operator (line {self.curline})')
        for rec in n.get('inner', []):
            if rec.get('kind') == 'CXXRecordDecl':
                for f_ in rec.get('inner', []):
                    if f_.get('kind') == 'FieldDecl':
                        qt = f_.get('type', {}).get('qualType', '')
                        if not (qt.rstrip().endswith('&') or qt.rstrip().endswith('*') or qt.startswith('const ') or ' const' in qt):
                            raise ExtractionError(f'{self.unit}: lambda captures a non-const variable by copy ({qt}) (line {self.curline})')
        v = Opaque('lambda')
        v.fdecl = ops[0]
        return v

    def ev_CXXOperatorCallExpr(self, n, st):
        c = self.callee_info(n)
        rd = c.get('referencedDecl', {})
        name = rd.get('name')
        q = self.tu.qual.get(rd.get('id'))
        args = n['inner'][1:]
        if name == 'operator()' and args:
            tgt = args[0]
            while tgt.get('kind') in ('ImplicitCastExpr', 'ParenExpr'):
                tgt = tgt['inner'][0]
            if tgt.get('kind') == 'DeclRefExpr':
                cur = st.env.get((tgt.get('referencedDecl') or {}).get('id'))
                if isinstance(cur, Opaque) and cur.what == 'lambda' and getattr(cur, 'fdecl', None) is not None:
                    return self.inline(cur.fdecl, n, st, None, args[1:], 'lambda ' + str((tgt.get('referencedDecl') or {}).get('name')), keep_env=True)
        return self.do_call(n, st, q or name, rd, args[0], args[1:], method=name)

    def lv_CXXOperatorCallExpr(self, n, st):
        r = self.ev_CXXOperatorCallExpr_l(n, st)
        return r

    def ev_CXXOperatorCallExpr_l(self, n, st):
        c = self.callee_info(n)
        rd = c.get('referencedDecl', {})
        name = rd.get('name')
        q = self.tu.qual.get(rd.get('id'))
        args = n['inner'][1:]
        return self.do_call(n, st, q or name, rd, args[0], args[1:], method=name, want_lv=True)

    lv_CXXMemberCallExpr = lambda self, n, st: self.do_member_lv(n, st)

    def do_member_lv(self, n, st):
        me = n['inner'][0]
        objn = me['inner'][0]
        mid = me.get('referencedMemberDecl')
        q = self.tu.qual.get(mid)
        rd = self.tu.byid.get(mid, {'name': me['name'], 'id': mid})
        return self.do_call(n, st, q or me['name'], rd, objn, n['inner'][1:], method=me['name'], want_lv=True)

    def lv_CallExpr(self, n, st):
        c = self.callee_info(n)
        rd = c['referencedDecl']
        q = self.tu.qual.get(rd['id'], rd.get('name'))
        return self.do_call(n, st, q, rd, None, n['inner'][1:], want_lv=True)

    def do_call(self, n, st, q, rd, objn, argn, method=None, want_lv=False):
        # 0. copy assignment of plain structs
        if method == 'operator=' and objn is not None and pod_of((objn.get('type', {}).get('desugaredQualType') or objn.get('type', {}).get('qualType', ''))):
            l = self.lv(objn, st)
            a = argn[0]
            v = self.ev_obj(a, st) if a.get('valueCategory') == 'lvalue' else self.ev(a, st)
            if isinstance(v, ObjRef):
                v = self.load(LObj(v), st)
            if isinstance(v, (RealV, IntV)):
                # std::complex<T>::operator=(const T&): real part assigned, imaginary part zero
                v = StructV('complex', {'re': self.conv_to(v, parse_type_str('float')), 'im': RealV(R(0))})
            self.store(l, StructV(v.cls, v.fields), st)
            return l
        # 1. contract supplied by the unit's spec
        use = self.calls.get(q) if self.calls else None
        if use is None and self.calls and (method or rd.get('name')):
            rc = self.recv_class(objn) if objn is not None else ''
            nm = method or rd.get('name')
            for key in (f'{rc}::{nm}/{len(argn)}', f'{rc}::{nm}', f'{nm}/{len(argn)}', nm):
                if key in self.calls:
                    use = self.calls[key]
                    break
        if use is None and self.calls and objn is not None:
            # catch-all binding for member calls on objects of an external library, keyed by a type prefix: '*lib:H5::'
            rt = (objn.get('type', {}).get('desugaredQualType') or objn.get('type', {}).get('qualType', ''))
            for key, h in self.calls.items():
                if key.startswith('*lib:') and key[5:] in rt:
                    use = h
                    break
        if use is not None:
            if type(use).__name__ != 'Use' and not any(b_.__name__ == 'Use' for b_ in type(use).__mro__):
                # a binding that does not execute a callee contract (no-op, opaque text, event of a control skeleton) need not evaluate
                # its arguments: whatever integer division they contain still has to be defined
                for a_ in argn:
                    self.scan_divisions(a_, st)
            r = use(self, n, st, objn, argn)
            return self.as_lv(r) if want_lv else self.as_rv(r, st)
        # 2. library / container model
        r = models.call(self, n, st, q, rd, objn, argn, method, want_lv)
        if r is not models.NOMODEL:
            self.used_models.add(q or method)
            return self.as_lv(r) if want_lv else self.as_rv(r, st)
        # 3. inline a repository function from its own AST
        fdecl = self.find_def(q, rd)
        owner = None
        if fdecl is None and self.aux_tus:
            fdecl, owner = self.find_def_aux(objn, rd, method)
        if fdecl is None and objn is None and rd.get('name') and not (q or '').startswith('std::'):
            # a free function of the same file outside namespace vfps (file-local helper in an anonymous namespace, global static):
            # the vfps:: dump does not contain it -- dump it by name from the same translation unit (one more clang run)
            fdecl, owner = self.find_def_local_helper(rd)
        if fdecl is not None:
            if self.inline_depth >= 4:
                raise ExtractionError(f'{self.unit}: inlining depth exceeded at {q}')
            saved_tu = self.tu
            if owner is not None:
                self.tu = owner
            try:
                r = self.inline(fdecl, n, st, objn, argn, q)
            finally:
                self.tu = saved_tu
            return self.as_lv(r) if want_lv else self.as_rv(r, st)
        raise ExtractionError(f'{self.unit}: call to {q or rd.get("name")} has no contract, model or inlinable definition (line {self.curline})')

    def as_lv(self, r):
        if isinstance(r, ObjRef):
            return LObj(r)
        return r

    def as_rv(self, r, st):
        if isinstance(r, (LVar, LScal, LElem, LSub, LField)):
            return self.load(r, st)
        if isinstance(r, LObj):
            return self.load(r, st)
        return r

    def find_def(self, q, rd):
        d = self.tu.byid.get(rd.get('id'))
        if d is not None and any(c.get('kind') == 'CompoundStmt' for c in d.get('inner', [])):
            return d
        if q and q in self.tu.funcs and len(self.tu.funcs[q]) == 1:
            return self.tu.funcs[q][0]
        if q and q in self.tu.funcs:
            # overloaded: match by id of previousDecl
            for f in self.tu.funcs[q]:
                if f.get('previousDecl') == rd.get('id') or f.get('id') == rd.get('id'):
                    return f
        return None

    def spelled_name(self, n):
        try:
            b, e = n['range']['begin'], n['range']['end']
            ob_ = b.get('offset', (b.get('expansionLoc') or {}).get('offset'))
            oe_ = e.get('offset', (e.get('expansionLoc') or {}).get('offset'))
            tl = e.get('tokLen', (e.get('expansionLoc') or {}).get('tokLen', 0))
            txt = open(self.tu.path, 'rb').read()[ob_:oe_ + tl].decode('utf-8', 'replace')
            import re as _re
            txt = _re.sub(r'\s+', '', txt)
            return txt if _re.fullmatch(r'(::)?[A-Za-z_][A-Za-z0-9_]*(::[A-Za-z_][A-Za-z0-9_]*)+', txt) else None
        except Exception:
            return None

    def find_def_local_helper(self, rd):
        from .ast import TU, line_of as _line_of
        name = rd['name']
        cache = self.tu.__dict__.setdefault('_helper_tus', {})
        if name not in cache:
            try:
                cache[name] = TU(self.tu.relpath, self.scratch_dir(), name)
            except ExtractionError:
                cache[name] = None
        tu2 = cache[name]
        if tu2 is None:
            return None, None
        tu2.is_helper = True
        want_line = (rd.get('loc') or {}).get('line')
        cands = [f for q_, fl in tu2.funcs.items() for f in fl if q_.split('::')[-1] == name and len(params(f)) == len([c for c in rd.get('inner', []) if c.get('kind') == 'ParmVarDecl'] or params(f))]
        # only definitions that live in this very source file (not a library function of the same name)
        cands = [f for f in cands if self._in_main_file(f)]
        if len(cands) == 1:
            return cands[0], tu2
        return None, None

    def _in_main_file(self, f):
        loc = f.get('loc') or {}
        inc = loc.get('includedFrom') or (loc.get('spellingLoc') or {}).get('includedFrom') or (loc.get('expansionLoc') or {}).get('includedFrom')
        fl = loc.get('file') or (loc.get('spellingLoc') or {}).get('file') or (loc.get('expansionLoc') or {}).get('file')
        return inc is None and (fl is None or fl.endswith(self.tu.relpath))

    def scratch_dir(self):
        import tempfile, os as _os
        d = getattr(self.tu, 'scratch', None)
        if d and _os.path.isdir(d):
            return d
        if not hasattr(self, '_own_scratch'):
            self._own_scratch = tempfile.mkdtemp(prefix='vfhelper')
        return self._own_scratch

    @staticmethod
    def recv_class(objn):
        import re
        t = objn.get('type', {}).get('desugaredQualType') or objn.get('type', {}).get('qualType', '')
        m = re.search(r'(?:vfps::)?([A-Z][A-Za-z0-9_]*)(?=[ ,>*&]|$)', t.replace('std::', '').replace('__gnu_cxx::', ''))
        m2 = re.findall(r'vfps::([A-Za-z0-9_]+)', t)
        if m2:
            return m2[-1] if 'shared_ptr' in t or 'unique_ptr' in t else m2[0]
        return m.group(1) if m else t

    aux_tus = None

    def find_def_aux(self, objn, rd, method):
        """definition of a repository function looked up by qualified name in another dump of the same file"""
        name = rd.get('name') or method
        cands = []
        if objn is not None:
            t = objn.get('type', {}).get('desugaredQualType') or objn.get('type', {}).get('qualType', '')
            t = strip_quals(t).rstrip('*&').strip()
            t = strip_quals(t)
            cands.append(f'{t}::{name}')
            if not t.startswith('vfps::'):
                cands.append(f'vfps::{t}::{name}')
        else:
            cands += [f'vfps::{name}', name]
        for tu in self.aux_tus:
            for c in cands:
                fs = tu.funcs.get(c, [])
                if len(fs) == 1:
                    return fs[0], tu
                if len(fs) == 2 and objn is not None:
                    # const / non-const overload pair of an accessor: pick by the constness of the object expression
                    isconst = (objn.get('type', {}).get('qualType', '')).lstrip().startswith('const')
                    pick = [f_ for f_ in fs if f_.get('type', {}).get('qualType', '').rstrip().endswith('const') == isconst]
                    if len(pick) == 1:
                        return pick[0], tu
        return None, None

    def inline(self, fdecl, n, st, objn, argn, q, keep_env=False):
        """execute the callee's own AST with parameters bound (accessors defined in /repo/inc); keep_env: a local lambda, whose
        body sees the variables of the enclosing function"""
        ps = params(fdecl)
        saved_this, saved_env = self.thisname, st.env
        newenv = dict(saved_env) if keep_env else {}
        vals = []
        for p, a in zip(ps, argn):
            pt = parse_type(p['type'])
            if p['type']['qualType'].rstrip().endswith('&') and a.get('valueCategory') == 'lvalue':
                vals.append(self.lv(a, st))
            else:
                vals.append(self.ev(a, st))
        for p in ps[len(argn):]:
            # default args
            dflt = [c for c in p.get('inner', []) if c.get('kind') and not c['kind'].endswith(('Attr', 'Comment', 'Decl'))]
            if not dflt:
                raise ExtractionError(f'missing argument for {q}')
            vals.append(self.ev(dflt[0], st))
        for p, v in zip(ps, vals):
            newenv[p['id']] = v
            st.names[p['id']] = p.get('name', '')
        # a caller's local handed over by reference stays reachable under its own declaration id (and is copied back afterwards)
        byref = [v.vid for v in vals if isinstance(v, LVar) and v.vid in saved_env]
        for vid_ in byref:
            newenv.setdefault(vid_, saved_env[vid_])
        if objn is not None:
            o = self.ev_obj(objn, st)
            if not isinstance(o, ObjRef):
                raise ExtractionError(f'inline {q}: receiver is {o}')
            self.thisname = o.name
        st.env = newenv
        self.inline_depth += 1
        try:
            outs = self.exec(body(fdecl), st)
        finally:
            self.inline_depth -= 1
            self.thisname = saved_this
        rv = None
        res = None
        for s, flow in outs:
            if flow is not None and flow[0] == 'ret':
                v = flow[1]
            elif flow is None:
                v = VoidV()
            else:
                raise ExtractionError('break/continue escaping inlined function')
            if res is None:
                res, rv = s, v
            else:
                # several return paths: mutually exclusive; the earlier one (res) applies under what its path condition adds to the
                # common prefix of the two, the later one otherwise
                k_ = 0
                while k_ < len(res.pc) and k_ < len(s.pc) and res.pc[k_] is s.pc[k_]:
                    k_ += 1
                extra = res.pc[k_:]
                if not extra:
                    raise ExtractionError(f'inline {q}: return paths cannot be told apart')
                disc = z3.And(*extra) if len(extra) > 1 else extra[0]
                mv = merge_val(disc, rv, v) if not (isinstance(rv, VoidV) and isinstance(v, VoidV)) else rv
                if mv is None:
                    raise ExtractionError(f'inline {q}: return values of different paths not mergeable')
                res, rv = merge_states(disc, res, s), mv
        if res is None:
            raise ExtractionError(f'inline {q}: no return path')
        # adopt resulting state
        st.scal, st.arr, st.length, st.pc, st.dims = res.scal, res.arr, res.length, res.pc, res.dims
        if keep_env:
            # assignments to captured variables of the enclosing function persist
            for k_, v_ in res.env.items():
                if k_ in saved_env:
                    saved_env[k_] = v_
        for vid_ in byref:
            if vid_ in res.env:
                saved_env[vid_] = res.env[vid_]
        st.env = saved_env
        return rv

    calls = None

    # -------------------------------------------------------------- statements
    def exec(self, n, st):
        """returns list of (state, flow); flow None | ('brk',) | ('cont',) | ('ret', val)"""
        k = n['kind']
        ln = line_of(n)
        if ln:
            self.curline = ln
        if k == 'ExprWithCleanups' and n['inner'][0].get('kind') == 'CXXThrowExpr':
            return [(st, ('throw',))]
        m = getattr(self, 'st_' + k, None)
        if m is None:
            if 'Expr' in k or 'Operator' in k or 'Literal' in k:
                self.ev(n, st)
                return [(st, None)]
            raise ExtractionError(f'{self.unit}: unsupported statement node {k} (line {self.curline})')
        return m(n, st)

    def st_NullStmt(self, n, st):
        return [(st, None)]

    def st_CompoundStmt(self, n, st):
        return self.seq(n.get('inner', []), st, scope=True)

    def seq(self, stmts, st, scope=False):
        outs = []
        cur = st
        declared = []
        self.scope_stack.append(declared)
        try:
            for s in stmts:
                if cur is None:
                    break
                res = self.exec(s, cur)
                cur = None
                for (s2, flow) in res:
                    if flow is None:
                        if cur is not None:
                            raise ExtractionError('internal: two normal successors')
                        cur = s2
                    else:
                        outs.append((s2, flow))
        finally:
            self.scope_stack.pop()
        if cur is not None:
            outs.append((cur, None))
        if scope:
            for (s2, flow) in outs:
                for vid in declared:
                    s2.env.pop(vid, None)
        return outs

    def st_DeclStmt(self, n, st):
        for d in n.get('inner', []):
            if d['kind'] != 'VarDecl':
                if d['kind'] in ('TypedefDecl', 'TypeAliasDecl', 'UsingDecl', 'StaticAssertDecl'):
                    continue
                raise ExtractionError(f'{self.unit}: declaration {d["kind"]} in body')
            self.declare(d, st)
        return [(st, None)]

    decl_assume = None
    domain_values = None
    cur_decl = None

    def declare(self, d, st):
        saved = self.cur_decl
        self.cur_decl = d.get('name')
        try:
            self.declare0(d, st)
        finally:
            self.cur_decl = saved
        if self.decl_assume and d.get('name') in self.decl_assume and not self.inline_depth:
            cx = Ctx(self, st, self.entry, self.args0)
            st.assume(self.decl_assume[d['name']](cx))

    def declare0(self, d, st):
        vid = d['id']
        st.names[vid] = d.get('name', '')
        if self.scope_stack:
            self.scope_stack[-1].append(vid)
        init = [c for c in d.get('inner', []) if c.get('kind') and not c['kind'].endswith(('Attr', 'Comment', 'Decl'))]
        ct = parse_type(d['type'])
        isref = d['type']['qualType'].rstrip().endswith('&')
        if d.get('storageClass') == 'static' and not d['type'].get('qualType', '').lstrip().startswith('const') and not d.get('constexpr'):
            # a mutable function-local static keeps whatever an earlier call left in it: its value at this point is
            # arbitrary (the initialiser runs only on the very first call) — it is part of the unit's hidden input state
            nm = d.get('name', 'static')
            if ct.kind in ('int', 'float'):
                st.env[vid] = self.havoc_val(st, IntV(I(0), ct) if ct.kind == 'int' else RealV(R(0), ct), f'static:{nm}')
            elif ct.kind == 'class' and class_kind(ct.name) in ('vector',):
                region = f'static:{nm}'
                st.length[region] = State.fresh(f'len({region})', z3.IntSort())
                st.assume(st.length[region] >= 0)
                st.havoc_region(region)
                st.env[vid] = ObjRef(region, ct.name)
            elif ct.kind == 'class' and pod_of(ct.name):
                v0 = self.ev_InitListExpr({'type': d['type'], 'inner': []}, st)
                st.env[vid] = self.havoc_val(st, v0, f'static:{nm}')
            else:
                raise ExtractionError(f'{self.unit}: mutable static local {nm} of type {ct.name} not modelled (line {self.curline})')
            self.logw(('v', vid))
            self.notes.append(f'static local {nm}: arbitrary value at entry (persists between calls)')
            return
        if not init:
            if ct.kind == 'class' and not pod_of(ct.name):
                st.env[vid] = models.default_construct(self, st, d, ct)
            else:
                st.env[vid] = None   # indeterminate
            self.logw(('v', vid))
            return
        e = init[0]
        if isref and e.get('valueCategory') == 'lvalue':
            st.env[vid] = self.lv(e, st)
            return
        self.pending_name = d.get('name')
        try:
            v = self.ev(e, st)
        finally:
            self.pending_name = None
        if isinstance(v, Opaque) and v.what.startswith('empty:') and ct.kind == 'class':
            v = models.default_construct(self, st, d, ct)
        if isinstance(v, list):
            v = models.from_initlist(self, st, d, ct, v)
        if isinstance(v, ObjRef) and ct.kind == 'class' and class_kind(ct.name) in ('vector', 'marray', 'stdarray') and not isref:
            v = models.copy_container(self, st, d, v)
        st.env[vid] = v
        self.logw(('v', vid))

    def st_ReturnStmt(self, n, st):
        v = VoidV()
        if n.get('inner'):
            e = n['inner'][0]
            if self.fn_returns_ref and e.get('valueCategory') == 'lvalue':
                v = self.lv(e, st)
            else:
                v = self.ev(e, st)
        return [(st, ('ret', v))]

    fn_returns_ref = False

    def st_CXXThrowExpr(self, n, st):
        return [(st, ('throw',))]

    ev_CXXThrowExpr = lambda self, n, st: (_ for _ in ()).throw(ExtractionError('throw inside an expression'))

    def st_BreakStmt(self, n, st):
        return [(st, ('brk',))]

    def st_ContinueStmt(self, n, st):
        return [(st, ('cont',))]

    def st_IfStmt(self, n, st):
        inner = n['inner']
        cond, then = inner[0], inner[1]
        els = inner[2] if len(inner) > 2 else None
        c = self.tobool(self.ev(cond, st))
        cs = z3.simplify(c)
        if z3.is_true(cs):
            return self.exec(then, st)
        if z3.is_false(cs):
            return self.exec(els, st) if els else [(st, None)]
        s1 = st.copy(); s1.assume(c)
        s2 = st.copy(); s2.assume(z3.Not(c))
        r1 = self.exec(then, s1)
        r2 = self.exec(els, s2) if els else [(s2, None)]
        return self.join(c, st, r1, r2)

    def join(self, c, st, r1, r2):
        n1 = [s for s, f in r1 if f is None]
        n2 = [s for s, f in r2 if f is None]
        outs = [(s, f) for s, f in r1 + r2 if f is not None]
        a = n1[0] if n1 else None
        b = n2[0] if n2 else None
        if a is not None or b is not None:
            if a is not None and b is not None:
                m = merge_states(c, a, b)
            else:
                m = (a or b)
            outs.append((m, None))
        return outs

    def st_SwitchStmt(self, n, st):
        cond = self.ev(n['inner'][0], st)
        bodyn = n['inner'][-1]
        items = bodyn.get('inner', [])
        # flatten: sequence of (labels, stmts)
        seqs = []
        def flat(s, acc):
            if s['kind'] in ('CaseStmt', 'DefaultStmt'):
                lab = None
                if s['kind'] == 'CaseStmt':
                    lab = self.ev(s['inner'][0], st).t
                    sub = s['inner'][-1]
                else:
                    lab = DEFAULT
                    sub = s['inner'][-1]
                acc.append(('label', lab))
                flat(sub, acc)
            else:
                acc.append(('stmt', s))
        acc = []
        for s in items:
            flat(s, acc)
        labels = [x[1] for x in acc if x[0] == 'label' and x[1] is not DEFAULT]
        results = []
        # each entry point
        entries = [(i, x[1]) for i, x in enumerate(acc) if x[0] == 'label']
        nomatch = z3.And(*[cond.t != l for l in labels]) if labels else z3.BoolVal(True)
        has_default = any(l is DEFAULT for _, l in entries)
        outs = []
        for i, lab in entries:
            g = nomatch if lab is DEFAULT else (cond.t == lab)
            if z3.is_false(z3.simplify(g)):
                continue
            s1 = st.copy(); s1.assume(g)
            stmts = [x[1] for x in acc[i:] if x[0] == 'stmt']
            res = self.seq(stmts, s1)
            for s2, f in res:
                if f is not None and f[0] == 'brk':
                    f = None
                outs.append((g, s2, f))
        if not has_default:
            s1 = st.copy(); s1.assume(nomatch)
            outs.append((nomatch, s1, None))
        # merge normal exits
        final = []
        cur = None
        for g, s2, f in outs:
            if f is None:
                cur = s2 if cur is None else merge_states(g, s2, cur)
            else:
                final.append((s2, f))
        if cur is not None:
            final.append((cur, None))
        return final

    def loop_key(self, var):
        k = self.loopcount.get(var, 0)
        self.loopcount[var] = k + 1
        return f'{var}#{k}'

    def st_ForStmt(self, n, st):
        init, condvar, cond, inc, bodyn = n['inner']
        declared = []
        self.scope_stack.append(declared)
        try:
            var = 'for'
            if init and init.get('kind') == 'DeclStmt':
                var = init['inner'][0].get('name', 'for')
            elif init and init.get('kind') == 'BinaryOperator':
                c = init['inner'][0]
                var = c.get('referencedDecl', {}).get('name', 'for')
            if init and init.get('kind'):
                r = self.exec(init, st)
                st = r[0][0]
            outs = self.loop(n, st, var, cond, inc, bodyn)
        finally:
            self.scope_stack.pop()
        for s2, f in outs:
            for vid in declared:
                s2.env.pop(vid, None)
        return outs

    def st_WhileStmt(self, n, st):
        cond, bodyn = n['inner'][0], n['inner'][-1]
        return self.loop(n, st, 'while', cond, None, bodyn)

    def st_CXXForRangeStmt(self, n, st):
        """for (T v : container) body  over a std::vector: desugared into an index loop  i = 0 .. size()  with v = container[i];
        the hidden index lives at ghost.range<k> (spec: cx.range_index(k)), the loop is keyed by the name of v"""
        inner = n.get('inner', [])
        rng = lv = None
        for c in inner:
            if c.get('kind') == 'DeclStmt':
                for d in c.get('inner', []):
                    if d.get('kind') == 'VarDecl' and d.get('name', '').startswith('__range'):
                        rng = d
                    elif d.get('kind') == 'VarDecl' and not d.get('name', '').startswith('__'):
                        lv = d
        bodyn = inner[-1]
        if rng is None or lv is None:
            raise ExtractionError(f'{self.unit}: range-for statement not understood (line {self.curline})')
        init = [c for c in rng.get('inner', []) if c.get('kind') and not c['kind'].endswith(('Attr', 'Comment', 'Decl'))]
        cont = self.ev_obj(init[0], st)
        if not isinstance(cont, ObjRef) or not (class_kind(cont.cls) == 'vector' or (class_kind(cont.cls) == 'stdarray' and cont.name in st.length)):
            raise ExtractionError(f'{self.unit}: range-for over {getattr(cont, "cls", cont)} not modelled (line {self.curline})')
        self.rangecount = getattr(self, 'rangecount', 0) + 1
        ip = f'ghost.range{self.rangecount}'
        LONG = parse_type_str('long')
        st.scal[ip] = IntV(I(0), LONG)
        ect = parse_type(lv['type'])
        if ect.kind == 'class' and '::value_type' in ect.name:
            # auto& over a container of scalars: the element type is the container's first template argument
            import re as _re
            m_ = _re.search(r'<\s*([^,<>]+?)\s*[,>]', strip_quals(cont.cls))
            if m_:
                ect = parse_type_str(m_.group(1))
        region = cont.name

        def cond_fn(s_):
            return BoolV(s_.scal[ip].t < s_.len_of(region))

        def inc_fn(s_):
            s_.scal[ip] = IntV(s_.scal[ip].t + 1, LONG)
            self.logw(('s', ip))
            return VoidV()

        def bind_fn(s_):
            s_.names[lv['id']] = lv.get('name', '')
            el = LElem(region, s_.scal[ip].t, '', ect, checked=True)
            if lv['type']['qualType'].rstrip().endswith('&'):
                # T& v / const T& v: v IS the element (stores through it reach the container)
                self.check_index(s_, el)
                s_.env[lv['id']] = el
            else:
                s_.env[lv['id']] = self.load(el, s_)
            self.logw(('v', lv['id']))
            return VoidV()
        cond = {'kind': 'PyExpr', 'fn': cond_fn}
        inc = {'kind': 'PyExpr', 'fn': inc_fn}
        body2 = {'kind': 'CompoundStmt', 'inner': [{'kind': 'PyExpr', 'fn': bind_fn}, bodyn]}
        return self.loop(n, st, lv.get('name', 'v'), cond, inc, body2)

    def ev_PyExpr(self, n, st):
        return n['fn'](st)

    def body_once(self, st, cond, inc, bodyn):
        """one iteration from a state where cond was assumed; returns (continue_states, exit_states(brk), rets)"""
        res = self.exec(bodyn, st)
        cont, brk, rets = [], [], []
        for s2, f in res:
            if f is None or f[0] == 'cont':
                cont.append(s2)
            elif f[0] == 'brk':
                brk.append(s2)
            else:
                rets.append((s2, f))
        out = []
        for s2 in cont:
            if inc and inc.get('kind'):
                self.ev(inc, s2)
            out.append(s2)
        return out, brk, rets

    def loop(self, n, st, var, cond, inc, bodyn):
        nid = id(n)
        if not hasattr(n, '__len__'):
            pass
        key = n.get('_key')
        if key is None:
            key = self.loop_key(var)
            n['_key'] = key
        spec = (self.loops or {}).get(key)
        if self.bounded and (spec is None or not spec.unroll):
            # bounded re-check (fallback after an invariant failed): ignore the invariant, unroll K times,
            # and only follow executions that leave the loop within K iterations
            spec = LoopSpec(unroll=self.bounded)
            spec.assume_exit = True
            if key in (self.loops or {}) and self.loops[key].exit_effect:
                spec.exit_effect = self.loops[key].exit_effect
        if spec is None:
            raise ExtractionError(f'{self.unit}: loop {key} (line {self.curline}) has no invariant/unroll in the spec')
        tags = spec.tags if spec.tags is not None else self.default_tags
        if spec.unroll:
            exits = []
            rets = []
            cur = st
            for it in range(spec.unroll + 1):
                c = self.tobool(self.ev(cond, cur)) if cond and cond.get('kind') else z3.BoolVal(True)
                cs = z3.simplify(c)
                if z3.is_false(cs):
                    exits.append((z3.BoolVal(True), cur))
                    cur = None
                    break
                if it == spec.unroll:
                    if not getattr(spec, 'assume_exit', False):
                        self.oblig(cur, f'unwind.{key}', z3.Not(c), 'unwind', tags, f'loop {key} runs at most {spec.unroll} times')
                    e = cur.copy(); e.assume(z3.Not(c))
                    exits.append((z3.BoolVal(True), e))
                    cur = None
                    break
                e = cur.copy(); e.assume(z3.Not(c))
                if not z3.is_true(cs):
                    exits.append((z3.Not(c), e))
                b = cur.copy(); b.assume(c)
                cont, brk, r = self.body_once(b, cond, inc, bodyn)
                rets += r
                for s2 in brk:
                    exits.append((None, s2))
                if len(cont) > 1:
                    # several ways to reach the next iteration (explicit `continue`s and the end of the body): mutually exclusive
                    # paths, folded with the condition each one was taken under (as the exits are, below)
                    m_ = None
                    for s2 in reversed(cont):
                        m_ = s2 if m_ is None else merge_states(s2.pc[-1] if s2.pc else z3.BoolVal(True), s2, m_)
                    cont = [m_]
                cur = cont[0] if cont else None
                if cur is None:
                    break
            # merge exits: they are mutually exclusive; fold with their own distinguishing conditions
            final = None
            for g, s2 in reversed(exits):
                if final is None:
                    final = s2
                else:
                    gg = g if g is not None else z3.BoolVal(True)
                    # s2 holds under its pc; use last pc element as discriminator
                    disc = s2.pc[-1] if s2.pc else z3.BoolVal(True)
                    final = merge_states(disc, s2, final)
            if final is not None and spec.exit_effect:
                spec.exit_effect(Ctx(self, final, self.entry, self.args0))
            outs = [(final, None)] if final is not None else []
            return outs + rets
        # ---- invariant-based
        cx = Ctx(self, st, self.entry, self.args0, None)
        cx.pre = st.copy()
        if spec.defs:
            for f in spec.defs(cx, cx):
                st.assume(f)
                self.def_unfoldings += 1
        invs = spec.inv(cx)
        for (lab, f) in invs:
            self.oblig(st, f'inv.{key}.init.{lab}', f, 'invariant-init', set(tags) | set(getattr(spec, 'label_tags', {}).get(lab, ())))
        # write set of the loop by a quiet dry run
        if key not in self.loop_writes:
            saved_w, saved_lc = self.writes, dict(self.loopcount)
            self.writes = set()
            self.quiet += 1
            try:
                d = st.copy()
                if cond and cond.get('kind'):
                    self.ev(cond, d)
                self.body_once(d, cond, inc, bodyn)
                w = self.writes
            finally:
                self.quiet -= 1
                self.writes = saved_w
            self.loop_writes[key] = w
            if saved_w is not None:
                saved_w |= w
        w = self.loop_writes[key]
        if self.writes is not None:
            self.writes |= w
        h = st.copy()
        for item in sorted(w, key=str):
            if item[0] == 'v' and item[1] in h.env and h.env[item[1]] is not None:
                h.env[item[1]] = self.havoc_val(h, h.env[item[1]], h.names.get(item[1], 'v'))
            elif item[0] == 's' and item[1] in h.scal:
                h.scal[item[1]] = self.havoc_val(h, h.scal[item[1]], item[1])
            elif item[0] == 'r':
                h.havoc_region(item[1])
            elif item[0] == 'len':
                h.length[item[1]] = State.fresh(f'len({item[1]})', z3.IntSort())
                h.assume(h.length[item[1]] >= 0)
        for name in spec.extra_havoc:
            pass
        cxh = Ctx(self, h, self.entry, self.args0, None)
        cxh.pre = cx.pre
        for (lab, f) in spec.inv(cxh):
            h.assume(f)
        c = self.tobool(self.ev(cond, h)) if cond and cond.get('kind') else z3.BoolVal(True)
        b = h.copy(); b.assume(c)
        b0 = b.copy()
        vt0 = spec.variant(Ctx(self, b, self.entry, self.args0)) if spec.variant else None
        cont, brk, rets = self.body_once(b, cond, inc, bodyn)
        for s2 in cont:
            cx2 = Ctx(self, s2, self.entry, self.args0, None)
            cx2.pre = cx.pre
            if spec.defs:
                for f in spec.defs(cx2, Ctx(self, b0, self.entry, self.args0, None)):
                    s2.assume(f)
                    self.def_unfoldings += 1
            if spec.hints:
                cxb = Ctx(self, b0, self.entry, self.args0, None)
                for (lab, f) in spec.hints(cx2, cxb):
                    if self.arith_only(f):
                        self.oblig_arith(s2, f'hint.{key}.{lab}', f, 'hint', tags)
                    else:
                        self.oblig(s2, f'hint.{key}.{lab}', f, 'hint', tags)
                    s2.assume(f)
            cases = [('', None)]
            if spec.split:
                cases = spec.split(cx2, Ctx(self, b0, self.entry, self.args0, None))
                self.oblig(s2, f'inv.{key}.split-exhaustive', z3.Or(*[c for _, c in cases]), 'hint', tags)
            for (lab, f) in spec.inv(cx2):
                if getattr(spec, 'split_by_label', None):
                    cases = spec.split_by_label(cx2, Ctx(self, b0, self.entry, self.args0, None), lab) or [('', None)]
                for cl, cc in cases:
                    if cc is None:
                        self.oblig(s2, f'inv.{key}.step.{lab}', f, 'invariant-step', set(tags) | set(getattr(spec, 'label_tags', {}).get(lab, ())))
                    else:
                        self.oblig(s2, f'inv.{key}.step.{lab}.{cl}', z3.Implies(cc, f), 'invariant-step', tags)
            if vt0 is not None:
                vt1 = spec.variant(cx2)
                self.oblig(s2, f'decreases.{key}', z3.And(vt0 >= 0, vt1 < vt0), 'decreases', tags)
        e = h.copy(); e.assume(z3.Not(c))
        if spec.exit_effect:
            spec.exit_effect(Ctx(self, e, self.entry, self.args0))
        outs = [(e, None)]
        for s2 in brk:
            outs = self.join(s2.pc[-1], st, [(s2, None)], outs)
        return outs + rets

    def havoc_val(self, st, v, name):
        if isinstance(v, IntV):
            t = State.fresh(name, z3.IntSort())
            st.assume(range_fact(t, v.ct))
            return IntV(t, v.ct)
        if isinstance(v, RealV):
            return RealV(State.fresh(name, z3.RealSort()), v.ct)
        if isinstance(v, BoolV):
            return BoolV(State.fresh(name, z3.BoolSort()))
        if isinstance(v, StructV):
            return StructV(v.cls, {k: self.havoc_val(st, x, f'{name}.{k}') for k, x in v.fields.items()})
        if isinstance(v, PtrV):
            return PtrV(v.region, State.fresh(name + '.off', z3.IntSort()), v.ct, v.path)
        return v

    loops = None
    args0 = None
    bounded = 0

    def st_CXXTryStmt(self, n, st):
        """try { B } catch (...) { H }: either B completes, or some call in B throws after an arbitrary prefix of
        B's writes — the handler then runs from the pre-state with everything B may write havoced.  Both outcomes
        are followed (the choice is a fresh boolean)."""
        inner = n.get('inner', [])
        bodyn = inner[0]
        handlers = [c for c in inner[1:] if c.get('kind') == 'CXXCatchStmt']
        if len(handlers) != 1:
            raise ExtractionError(f'{self.unit}: try with {len(handlers)} handlers (line {self.curline})')
        hn = handlers[0]
        hbody = [c for c in hn.get('inner', []) if c.get('kind') == 'CompoundStmt']
        if not hbody:
            raise ExtractionError(f'{self.unit}: catch handler without a body (line {self.curline})')
        excvars = [c for c in hn.get('inner', []) if c.get('kind') == 'VarDecl' and c.get('name')]
        # write set of the try body (quiet dry run)
        saved_w = self.writes
        self.writes = set()
        self.quiet += 1
        try:
            self.exec(bodyn, st.copy())
            w = self.writes
        finally:
            self.quiet -= 1
            self.writes = saved_w
        if saved_w is not None:
            saved_w |= w
        thrown = State.fresh('exception_thrown', z3.BoolSort())
        h = st.copy()
        for item in sorted(w, key=str):
            if item[0] == 'v' and item[1] in h.env and h.env[item[1]] is not None:
                h.env[item[1]] = self.havoc_val(h, h.env[item[1]], h.names.get(item[1], 'v'))
            elif item[0] == 's' and item[1] in h.scal:
                h.scal[item[1]] = self.havoc_val(h, h.scal[item[1]], item[1])
            elif item[0] == 'r':
                h.havoc_region(item[1])
            elif item[0] == 'len':
                h.length[item[1]] = State.fresh(f'len({item[1]})', z3.IntSort())
                h.assume(h.length[item[1]] >= 0)
        h.assume(thrown)
        for ev_ in excvars:
            # catch (T& e): the exception object is opaque (only its text is ever used)
            h.names[ev_['id']] = ev_['name']
            h.env[ev_['id']] = ObjRef('tmp:exception', ev_.get('type', {}).get('qualType', 'std::exception'))
        b = st.copy()
        b.assume(z3.Not(thrown))
        r_body = self.exec(bodyn, b)
        r_handler = self.exec(hbody[0], h)
        return self.join(thrown, st, r_handler, r_body)
