#!/bin/bash
export VERIF_EVIDENCE_DIR=$(mktemp -d /tmp/evid.XXXX)   # runs on patched trees must not overwrite the committed evidence
# re-run the checks of every kept seeded change against /repo with the patch applied (and undo it)
cd /verif
for d in seeded/*/; do
  n=$(basename $d)
  [ -f $d/patch.diff ] || continue
  p=$(python3 -c "import json;print(json.load(open('$d/meta.json')).get('property','') )" 2>/dev/null)
  [ -n "$p" ] || { continue; }
  ( cd /repo && git apply /verif/$d/patch.diff ) || { echo "$n: patch does not apply"; continue; }
  ./check $p > /tmp/reseed.out 2>&1; rc=$?
  echo "$n: check $p rc=$rc $(grep -c '^VIOLATION' /tmp/reseed.out) violations; $(grep '^VIOLATION' /tmp/reseed.out | head -2 | sed 's/.*replay=.verif.replays.//' | tr '\n' ' ')$(grep '^UNDECIDED' /tmp/reseed.out | head -1 | cut -c1-160)"
  git -C /repo checkout -- .
done
