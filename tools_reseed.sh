#!/bin/bash
# re-run the check of every kept seeded change against a scratch worktree of /repo's HEAD carrying exactly that patch
# (VERIF_REPO points the checks at it; /repo itself is not touched).  usage: tools_reseed.sh [scratch worktree] [name filter]
export VERIF_EVIDENCE_DIR=$(mktemp -d /tmp/evid.XXXX)   # runs on patched trees must not overwrite the committed evidence
WT=${1:-/tmp/reseed_wt}
FILTER=${2:-}
cd /verif
if [ ! -d $WT ]; then git -C /repo worktree add --detach $WT HEAD >/dev/null 2>&1; ln -s /repo/_build $WT/_build; fi
git -C $WT checkout -q --detach main; git -C $WT checkout -q -- .
export VERIF_REPO=$WT
for d in seeded/*/; do
  n=$(basename $d)
  [ -f $d/patch.diff ] || continue
  case "$n" in R*) continue;; esac
  [ -n "$FILTER" ] && case "$n" in *$FILTER*) ;; *) continue;; esac
  p=$(python3 -c "import json;print(json.load(open('$d/meta.json')).get('property','') )" 2>/dev/null)
  [ -n "$p" ] || { continue; }
  ( cd $WT && git apply /verif/$d/patch.diff 2>/dev/null || git apply -3 /verif/$d/patch.diff 2>/dev/null ) || { echo "$n: patch does not apply to the current HEAD"; git -C $WT checkout -q -- . ; git -C $WT reset -q --hard; continue; }
  ./check $p > /tmp/reseed_$n.out 2>&1; rc=$?
  echo "$n: check $p rc=$rc $(grep -c '^VIOLATION' /tmp/reseed_$n.out) violations; $(grep '^VIOLATION' /tmp/reseed_$n.out | head -2 | sed 's/.*replay=.verif.replays.//' | tr '\n' ' ')$(grep '^UNDECIDED' /tmp/reseed_$n.out | head -1 | cut -c1-160)"
  git -C $WT checkout -q -- . ; git -C $WT reset -q --hard
done
